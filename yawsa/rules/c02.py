"""C02 — catalog creation stores every input record exactly once, unchanged (structural part).

R1 reader slice arithmetic tiles the input (= C18.R2).
R2 header / field tables of writer and reader agree (flag bits, ATTR_ORDER pairings, dtypes, header byte).
R3 every writer is released on the success path (with-items, flush before close, append before flush).
R4 hand-over happens-before the sentinel (blocking pool call, sentinel after the loop, one queue).
R5 the degrees flag travels from the public constructors to DataChunk.create; deg->rad on both columns.
R6 sibling agreement of the three ingest pipelines (sequential, multiprocessing, MPI).
R7 group-by alignment: keys and records are permuted by the same index and split at the unique boundaries.
"""

from __future__ import annotations

import ast

from ..cfg import cfg_of
from ..dataflow import all_def_values, depends_on
from ..effects import ceval, classify_call
from ..model import AnalysisError, ClassInfo, FuncInfo, dotted, norm_stmt, unparse, walk_no_nested
from . import c18
from .common import QUICK, calls_in, is_sentinel_put, kwarg, parents_map, named_args

EXPLANATION = (
    "Static analysis of the ingest pipeline on /repo's current source (sequential, multiprocessing and MPI variants "
    "are all parsed). The rules decide structural obligations without which some record is lost, duplicated or "
    "mis-typed for some input / chunk size / schedule: the reader slices tile the input (affine forms + induction, "
    "shared with C18), the bit flags written into the patch header are the ones decoded, every tuple zipped with "
    "ATTR_ORDER has the attribute at the matching index, writer and reader derive the record dtype from the same "
    "table, the per-patch writers are flushed before they are closed and closed before the catalog is marked "
    "complete, the worker pool is drained (blocking map) before the end-of-queue sentinel is sent, the degrees flag "
    "reaches chunk creation unchanged, and the three pipeline variants agree on how they construct the writer and "
    "split chunks. Bit-identity of stored values is NOT decided."
    ' R6 also requires that the pieces returned by split_into_patches are used (handed to the writer / queue / writer rank); R7-R11 cover key/value pairing of the grouping, precedence of patch centres over an id column, partition of a chunk among workers, and option forwarding.'
)
ASSUMPTIONS = [
    "multiprocessing.Pool.map / starmap / apply return only after every task has finished; imap*/…_async do not",
    "a manager Queue is FIFO: items put before the sentinel are received before it",
    "numpy structured arrays written with tofile are read back field by field in dtype order",
]


# functions that stay calls when the ingest pipelines are analysed with their same-module helpers expanded in place
PIPE_KEEP = {"write_patches", "write_patches_unthreaded", "split_into_patches", "assign_patch_centers", "get_patch_centers", "load_patches", "create_patch_centers", "groupby", "new_filereader"}

def rule_r1(prog, res) -> None:
    """reader slice arithmetic tiles the input (shared with C18.R2)"""
    sub = type(res)("C18", prog, res.tier)
    c18.rule_r2(prog, sub)
    for o in sub.obligations:
        o.rule = "C02.R1"
        res.obligations.append(o)
        res.count("C02.R1")
    for f in sub.findings:
        f.prop, f.rule = "C02", "C02.R1"
        f.key = f.key.replace("C18.R2", "C02.R1", 1)
        res.findings.append(f)
    res.functions_analysed |= sub.functions_analysed


def _attr_order(prog) -> tuple:
    mod = prog.module("yaw.datachunk")
    for d in mod.defs.get("ATTR_ORDER", []):
        try:
            return tuple(ast.literal_eval(d.value))
        except Exception:
            pass
    raise AnalysisError("C02.R2: ATTR_ORDER vanished or is not a literal tuple")


def rule_r2(prog, res) -> None:
    """header and field tables of writer and reader agree"""
    order = _attr_order(prog)
    info = prog.find_class("DataChunkInfo")
    tb, fb = info.methods.get("to_bytes"), info.methods.get("from_bytes")
    if tb is None or fb is None:
        raise AnalysisError("C02.R2: DataChunkInfo.to_bytes/from_bytes vanished")
    res.touch(tb)
    res.touch(fb)
    # The two tables are folded for every combination of the flags (finite-domain constant folding on the symbolic
    # store: loops over the module's literal tuples are unrolled, closures and helpers looked through): the byte
    # written for a combination, decoded by from_bytes, must give the same combination, and the bit of each column
    # must be its position in ATTR_ORDER.
    import itertools

    from .. import symx
    from ..effects import module_const_env

    flags = [f for f in info.class_ann if f.startswith("has_")]
    if not flags:
        flags = [f"has_{a}" for a in order[2:]]
    cenv = module_const_env(prog, info.module)
    bparam = fb.param_names()[1]
    pol = symx.inline_private_helpers(prog)
    n_ok = 0
    first_bad = None
    for combo in itertools.product((False, True), repeat=len(flags)):
        env = dict(cenv)
        env.update({f"self.{f}": v for f, v in zip(flags, combo)})

        def oracle(e, env=env):
            try:
                return bool(ceval(e, env))
            except Exception:  # noqa: BLE001
                return None

        wp = [p for p in symx.explore(prog, tb, oracle=oracle, inline=pol) if p.outcome == "return" and p.value is not None]
        try:
            written = {ceval(p.value, env) for p in wp}
        except Exception as err:  # noqa: BLE001
            raise AnalysisError(f"C02.R2: cannot fold DataChunkInfo.to_bytes for {dict(zip(flags, combo))} ({err})") from None
        if len(written) != 1 or not isinstance(next(iter(written)), (bytes, bytearray)):
            raise AnalysisError(f"C02.R2: DataChunkInfo.to_bytes does not fold to one byte string for {dict(zip(flags, combo))}")
        byte = next(iter(written))
        want = (1 << 0) | (1 << 1)
        for f, v in zip(flags, combo):
            if f[4:] in order and v:
                want |= 1 << order.index(f[4:])
        renv = dict(cenv)
        renv[bparam] = bytes(byte)

        def roracle(e, renv=renv):
            try:
                return bool(ceval(e, renv))
            except Exception:  # noqa: BLE001
                return None

        rp = [p for p in symx.explore(prog, fb, oracle=roracle, inline=pol) if p.outcome == "return" and isinstance(p.value, ast.Call)]
        decoded = None
        for p in rp:
            try:
                kw = {k.arg: bool(ceval(k.value, renv)) for k in p.value.keywords if k.arg}
                for fname, a_ in zip(list(info.class_ann), p.value.args):
                    kw[fname] = bool(ceval(a_, renv))
            except Exception as err:  # noqa: BLE001
                raise AnalysisError(f"C02.R2: cannot fold DataChunkInfo.from_bytes ({err})") from None
            decoded = kw
        if decoded is None:
            raise AnalysisError("C02.R2: DataChunkInfo.from_bytes does not return a constructed instance")
        got = tuple(decoded.get(f, False) for f in flags)
        if len(byte) != 1:
            first_bad = first_bad or (tb, f"{dict(zip(flags, combo))} is written as {len(byte)} bytes, the reader takes exactly one", "flag-width")
        elif got != combo:
            first_bad = first_bad or (fb, f"the flags {dict(zip(flags, combo))} are written as {byte!r} and decoded as {dict(zip(flags, got))}: a stored patch is decoded with the wrong columns", "flag-bits")
        elif int.from_bytes(byte, "big") != want:
            first_bad = first_bad or (tb, f"the flags {dict(zip(flags, combo))} are written as {int.from_bytes(byte, 'big'):#07b}, bit positions following ATTR_ORDER give {want:#07b}", "flag-bits-order")
        else:
            n_ok += 1
    if first_bad is not None:
        res.violation("C02.R2", first_bad[0], first_bad[0].node, first_bad[1], key_extra=first_bad[2])
    else:
        res.ok("C02.R2", res.site(tb, "flag bits"), f"to_bytes -> from_bytes is the identity on all {n_ok} flag combinations and every bit is the column's position in ATTR_ORDER")
    # the header is one byte on disk: every reader takes exactly the number of bytes the writer's encoding has
    n_rd = 0
    for fi in prog.funcs:
        for c in calls_in(fi):
            if fb in prog.resolve_call(fi, c).funcs() and c.args:
                a0 = c.args[0]
                if isinstance(a0, ast.Name):  # header = f.read(1); from_bytes(header)
                    vs_ = [v for v in all_def_values(fi.node, a0.id) if v is not None]
                    a0 = vs_[0] if len(vs_) == 1 else a0
                if isinstance(a0, ast.Call) and isinstance(a0.func, ast.Attribute) and a0.func.attr == "read":
                    n_rd += 1
                    res.touch(fi)
                    sz = a0.args[0] if a0.args else None
                    # the size may be a named constant, or a parameter whose (constant) default every caller leaves alone
                    from .common import argval, const_value

                    if sz is not None and not isinstance(sz, ast.Constant):
                        cv = None
                        if isinstance(sz, ast.Name) and sz.id in fi.param_names():
                            a_ = fi.node.args
                            dmap = {q.arg: d for q, d in zip([*a_.posonlyargs, *a_.args][len([*a_.posonlyargs, *a_.args]) - len(a_.defaults):], a_.defaults)}
                            dmap.update({q.arg: d for q, d in zip(a_.kwonlyargs, a_.kw_defaults) if d is not None})
                            overridden = any(argval(prog, g, c2, sz.id) is not None for g in prog.funcs for c2 in calls_in(g) if fi in prog.resolve_call(g, c2).funcs())
                            if sz.id in dmap and not overridden:
                                cv = const_value(prog, fi, dmap[sz.id])
                        else:
                            cv = const_value(prog, fi, sz)
                        if isinstance(cv, ast.Constant):
                            sz = cv
                    if isinstance(sz, ast.Constant) and sz.value == 1:
                        res.ok("C02.R2", res.site(fi, "header read"), "the reader takes the one header byte")
                    else:
                        res.violation("C02.R2", fi, c, f"the patch header is decoded from `{unparse(a0)}`, not from exactly the one byte that is written: with no byte read every flag decodes as False (weights and redshifts of the patch are ignored, the record layout is misread), with more the data section is eaten into", key_extra="header-read-size")
    if n_rd < 1:
        raise AnalysisError(f"C02.R2: only {n_rd} header reads (from_bytes(f.read(1))) found, minimum 1")
    # what the reader announces is what it delivers: DataChunkInfo(has_X=…) of a column reader is true exactly when a
    # column name for X was given
    n_ci = 0
    for fi in prog.funcs:
        if fi.name != "__init__" or fi.cls is None:
            continue
        for c in calls_in(fi):
            if info not in prog.resolve_call(fi, c).classes():
                continue
            given_flags = {k.arg for k in c.keywords if k.arg} | set(list(info.class_ann)[: len(c.args)])
            if not any(k.arg is None for k in c.keywords):
                # a flag that is left to its default (False) hides the column although a name for it may have been given
                for fl in [f_ for f_ in info.class_ann if f_.startswith("has_") and f_ not in given_flags]:
                    attr = fl[4:].rstrip("s")
                    prm = next((q for q in fi.param_names() if q.endswith("_name") and q[: -len("_name")].rstrip("s").startswith(attr[:5])), None)
                    if prm is not None:
                        res.touch(fi)
                        res.violation("C02.R2", fi, c, f"{fi.short} takes `{prm}` but builds its DataChunkInfo without `{fl}`: the flag stays False, the column is read and then left out of every chunk — the catalog is written without it, silently", key_extra=f"chunk-info-flag-missing-{fl}")
            for k_, v_ in [(k.arg, k.value) for k in c.keywords if k.arg and k.arg.startswith("has_")] + [(f_, a_) for f_, a_ in zip(list(info.class_ann), c.args)]:
                attr = k_[4:].rstrip("s")
                prm = next((q for q in fi.param_names() if q.endswith("_name") and q[: -len("_name")].rstrip("s").startswith(attr[:5])), None) or next((q for q in fi.param_names() if q.rstrip("s") == attr), None)
                if prm is None or not any(isinstance(y, ast.Name) and y.id == prm for y in ast.walk(v_)):
                    continue
                n_ci += 1
                res.touch(fi)
                try:
                    tab = {given: bool(ceval(v_, {prm: ("col" if given else None)})) for given in (True, False)}
                except Exception:  # noqa: BLE001
                    raise AnalysisError(f"C02.R2: cannot fold {k_}={unparse(v_)} in {fi.short}") from None
                if tab == {True: True, False: False}:
                    res.ok("C02.R2", res.site(fi, k_), f"{k_} is true exactly when `{prm}` is given")
                else:
                    res.violation("C02.R2", fi, c, f"{k_}={unparse(v_)} is {tab[True]} when `{prm}` is given and {tab[False]} when it is not: the header written for the patches announces columns that are not stored (or hides stored ones), the binary records are read back with the wrong layout", key_extra=f"chunk-info-flag-{k_}")
    if n_ci < 3:
        raise AnalysisError(f"C02.R2: only {n_ci} has_* flags of reader constructors folded, minimum 3")
    # zip(ATTR_ORDER, <tuple>) pairings
    nzip = 0
    for fi in prog.funcs:
        for c in calls_in(fi):
            if not (isinstance(c.func, ast.Name) and c.func.id == "zip" and len(c.args) == 2):
                continue
            if not any(isinstance(a, ast.Name) and a.id == "ATTR_ORDER" for a in c.args):
                continue
            nzip += 1
            res.touch(fi)
            other = next(a for a in c.args if not (isinstance(a, ast.Name) and a.id == "ATTR_ORDER"))
            tup = other
            if isinstance(other, ast.Name):
                vals = [v for v in all_def_values(fi.node, other.id) if v is not None]
                tup = vals[0] if len(vals) == 1 else None
            if not isinstance(tup, (ast.Tuple, ast.List)):
                res.violation("C02.R2", fi, c, "ATTR_ORDER is zipped with a sequence of unknown length/order (not a literal tuple)", key_extra="attr-order-zip-nonliteral")
                continue
            if len(tup.elts) != len(order):
                res.violation("C02.R2", fi, c, f"ATTR_ORDER has {len(order)} entries but is zipped with {len(tup.elts)} values: trailing columns are dropped silently", key_extra="attr-order-zip-length")
                continue
            names = [e.id if isinstance(e, ast.Name) else None for e in tup.elts]
            # semantic pairing through the has_X=<v> is not None flags in the same function
            pair_ok, pair_bad = [], []
            for cc in calls_in(fi):
                for k in cc.keywords:
                    if k.arg and k.arg.startswith("has_") and isinstance(k.value, ast.Compare) and isinstance(k.value.left, ast.Name):
                        attr = k.arg[4:]
                        v = k.value.left.id
                        if attr in order and v in names:
                            (pair_ok if names.index(v) == order.index(attr) else pair_bad).append((attr, v))
            stems = {"ra": "ra", "dec": "dec"}
            for attr, stem in stems.items():
                v = names[order.index(attr)]
                if v is None or not v.startswith(stem):
                    pair_bad.append((attr, v))
            if pair_bad:
                res.violation("C02.R2", fi, tup, f"value tuple is not in ATTR_ORDER: {pair_bad} (columns are swapped when the chunk is built)", key_extra="attr-order-pairing")
            else:
                res.ok("C02.R2", res.site(fi, norm_stmt(c)), f"tuple has {len(order)} entries and {len(pair_ok) + 2} attribute positions verified against ATTR_ORDER")
    if nzip < 2:
        raise AnalysisError(f"C02.R2: only {nzip} zip(ATTR_ORDER, …) sites found, minimum 2")
    # get_list / dtypes: folded for every flag combination against ATTR_ORDER filtered by the flags
    gl = info.methods.get("get_list")
    if gl is None:
        raise AnalysisError("C02.R2: DataChunkInfo.get_list vanished")
    res.touch(gl)
    bad_list = None
    for combo in itertools.product((False, True), repeat=len(flags)):
        env = dict(cenv)
        env.update({f"self.{f}": v for f, v in zip(flags, combo)})

        def goracle(e, env=env):
            try:
                return bool(ceval(e, env))
            except Exception:  # noqa: BLE001
                return None

        gp = [p for p in symx.explore(prog, gl, oracle=goracle, inline=pol) if p.outcome == "return" and p.value is not None]
        try:
            got = {tuple(ceval(p.value, env)) for p in gp}
        except Exception as err:  # noqa: BLE001
            raise AnalysisError(f"C02.R2: DataChunkInfo.get_list is written in an unrecognised way (cannot fold it for {dict(zip(flags, combo))}: {err})") from None
        want = tuple(a_ for a_ in order if f"has_{a_}" not in flags or dict(zip(flags, combo))[f"has_{a_}"])
        if got != {want}:
            bad_list = bad_list or (dict(zip(flags, combo)), sorted(got), want)
    if bad_list is None:
        res.ok("C02.R2", res.site(gl), "column list = the columns of ATTR_ORDER that are present, in ATTR_ORDER order (all flag combinations)")
    else:
        res.violation("C02.R2", gl, gl.node, f"for {bad_list[0]} the column list is {bad_list[1]}, the stored columns are {list(bad_list[2])} (ATTR_ORDER filtered by the flags)", key_extra="get-list")
    gad = prog.func("get_array_dtype")
    rpd = prog.func("read_patch_data")
    res.touch(gad)
    res.touch(rpd)
    # element type: what the writer allocates for an ordinary column vs. what the reader views the bytes as
    genv = module_const_env(prog, gad.module)
    wtypes = set()
    for p in symx.explore(prog, gad, inline=pol):
        for x in [ev.expr for ev in p.calls("get")] + ([p.value] if p.value is not None else []):
            for y in ast.walk(x):
                if isinstance(y, ast.Call) and isinstance(y.func, ast.Attribute) and y.func.attr == "get" and len(y.args) == 2:
                    try:
                        wtypes.add(ceval(y.args[1], genv))
                    except Exception:  # noqa: BLE001
                        pass
    renv2 = module_const_env(prog, rpd.module)
    rtypes = set()
    uses_list = False
    for p in symx.explore(prog, rpd, inline=pol):
        exprs = [ev.expr for ev in p.events if ev.expr is not None] + ([p.value] if p.value is not None else [])
        for x in exprs:
            for y in ast.walk(x):
                if isinstance(y, ast.Tuple) and len(y.elts) == 2:
                    try:
                        t2 = ceval(y.elts[1], renv2)
                    except Exception:  # noqa: BLE001
                        continue
                    if isinstance(t2, str) and len(t2) <= 3 and t2[:1] in "fiu<>=":
                        rtypes.add(t2)
                if isinstance(y, ast.Call) and isinstance(y.func, ast.Attribute) and y.func.attr == "get_list":
                    uses_list = True
    if len(wtypes) == 1 and rtypes == wtypes and uses_list:
        res.ok("C02.R2", res.site(rpd, "dtype"), f"reader dtype ({sorted(rtypes)[0]}) over get_list() matches the writer's default field type")
    else:
        res.violation("C02.R2", rpd, rpd.node, f"patch data are read back with element type {sorted(rtypes)} / column list {'from' if uses_list else 'not from'} get_list(), writer uses {sorted(wtypes)}", key_extra="dtype-mismatch")
    # header byte: written first, read first
    pw = prog.find_class("PatchWriter")
    init = pw.methods["__init__"]
    res.touch(init)
    wr = [ev for p in symx.explore(prog, init, inline=symx.inline_private_helpers(prog, public={"to_bytes"})) if p.outcome != "raise" for ev in p.calls("write")]
    ok_hdr = bool(wr) and all(ev.expr.args and symx.calls_named(ev.expr.args[0], "to_bytes") for ev in wr)
    rd = [ev for p in symx.explore(prog, rpd, inline=pol) for ev in p.calls("read")]
    from ..effects import module_const_env as _mce

    def _one(e) -> bool:
        try:
            return ceval(e, {k: v for k, v in _mce(prog, rpd.module).items() if isinstance(v, (int, float, str))}) == 1
        except Exception:  # noqa: BLE001
            return False

    rd_first = bool(rd) and all(ev.expr.args and _one(ev.expr.args[0]) for ev in rd)
    if ok_hdr and rd_first:
        res.ok("C02.R2", res.site(init, "header"), "one header byte (to_bytes) written at creation, one byte read back before the records")
    else:
        res.violation("C02.R2", init, init.node, "the patch file header is not written from to_bytes() / not read back as one byte", key_extra="header-byte")


def rule_r3(prog, res) -> None:
    """writers are released on the success path"""
    cw = prog.find_class("CatalogWriter")
    n = 0
    for fi in prog.funcs:
        pm = None
        for c in calls_in(fi):
            if cw in prog.resolve_call(fi, c).classes():
                n += 1
                res.touch(fi)
                pm = pm or parents_map(fi.node)
                p = pm.get(id(c))
                if isinstance(p, ast.withitem) and p.context_expr is c:
                    res.ok("C02.R3", res.site(fi, "with CatalogWriter(...)"), "writer is a with-item: finalised on normal exit")
                else:
                    res.violation("C02.R3", fi, c, "CatalogWriter is created outside a with-statement: nothing guarantees that the patch writers are flushed and the catalog finalised", key_extra="writer-not-with-item")
    if n < 3:
        raise AnalysisError(f"C02.R3: only {n} CatalogWriter constructions found, minimum 3")
    pw = prog.find_class("PatchWriter")
    close, flush, proc = pw.methods.get("close"), pw.methods.get("flush"), pw.methods.get("process_chunk")
    if not (close and flush and proc):
        raise AnalysisError("C02.R3: PatchWriter.close/flush/process_chunk vanished")
    for m in (close, flush, proc):
        res.touch(m)
    cfg = cfg_of(close.node)
    fl = [n_ for n_ in cfg.nodes if any(flush in prog.resolve_call(close, c).funcs() for c in n_.calls())]
    cl = [n_ for n_ in cfg.nodes if any(isinstance(c.func, ast.Attribute) and c.func.attr == "close" and "_file" in unparse(c.func.value) for c in n_.calls())]
    if fl and cl and all(any(cfg.dominates(a, b) for a in fl) for b in cl):
        res.ok("C02.R3", res.site(close), "flush() dominates closing the file")
    else:
        res.violation("C02.R3", close, close.node, "the patch file can be closed without flushing the buffered records: the last records of every patch are lost", key_extra="close-without-flush")
    # flush: whatever path clears the buffer also writes it
    cfgf = cfg_of(flush.node)
    clears = [n_ for n_ in cfgf.nodes if n_.kind == "stmt" and isinstance(n_.ast, ast.Assign) and any("_shards" in unparse(t) for t in n_.ast.targets)]
    writes = [n_ for n_ in cfgf.nodes if any(isinstance(c.func, ast.Attribute) and c.func.attr == "tofile" for c in n_.calls())]
    if not clears or not writes:
        raise AnalysisError("C02.R3: flush no longer has the concatenate / clear / tofile shape")
    bad = False
    for cnode in clears:
        after = cfgf.reach([cnode], avoid=lambda x: x in writes, labels={"n", "t", "f", "loop", "exh"})
        before = any(cfgf.dominates(w, cnode) for w in writes)
        if cfgf.exit.id in after and not before:
            bad = True
    wcall = next(c for n_ in writes for c in n_.calls() if isinstance(c.func, ast.Attribute) and c.func.attr == "tofile")
    from_buf = depends_on(flush.node, wcall.func.value, lambda x: isinstance(x, ast.Attribute) and x.attr == "_shards")
    if bad or not from_buf:
        res.violation("C02.R3", flush, flush.node, "flush can drop the buffered records without writing them (buffer cleared on a path that does not reach tofile, or tofile writes something else)", key_extra="flush-drops-buffer")
    else:
        res.ok("C02.R3", res.site(flush), "every path that clears the buffer writes the concatenated buffer")
    # counter of written records is increased by the same data
    cfgp = cfg_of(proc.node)
    apps = [n_ for n_ in cfgp.nodes if any(isinstance(c.func, ast.Attribute) and c.func.attr == "append" and "_shards" in unparse(c.func.value) for c in n_.calls())]
    rets = cfgp.reach([cfgp.entry], avoid=lambda x: x in apps, labels={"n", "t", "f", "loop", "exh"})
    if apps and cfgp.exit.id not in rets:
        res.ok("C02.R3", res.site(proc), "every normal return of process_chunk has appended the chunk to the buffer")
    else:
        res.violation("C02.R3", proc, proc.node, "process_chunk can return normally without buffering the chunk", key_extra="chunk-not-buffered")
    # CatalogWriter.process_patches hands every patch of the dict to its own writer
    pp = cw.methods.get("process_patches")
    if pp is None:
        raise AnalysisError("C02.R3: CatalogWriter.process_patches vanished")
    res.touch(pp)
    from .. import symx

    pparam = pp.param_names()[1]
    good = False
    seen_pc = 0
    for p in symx.explore(prog, pp, inline=symx.inline_private_helpers(prog, public={"get_writer"})):
        for ev in p.calls("process_chunk"):
            seen_pc += 1
            recv = ev.expr.func.value
            arg = ev.expr.args[0] if ev.expr.args else None
            key = recv.args[0] if isinstance(recv, ast.Call) and (dotted(recv.func) or "").split(".")[-1] == "get_writer" and recv.args else None

            def item_part(e, idx):
                """e == ELEM(<param>.items())[idx]"""
                if isinstance(e, ast.Subscript) and isinstance(e.slice, ast.Constant) and e.slice.value == idx:
                    el = e.value
                    if isinstance(el, ast.Call) and isinstance(el.func, ast.Name) and el.func.id == symx.ELEM and el.args:
                        it = el.args[0]
                        return unparse(it) if isinstance(it, ast.Call) and isinstance(it.func, ast.Attribute) and it.func.attr == "items" and isinstance(it.func.value, ast.Name) and it.func.value.id == pparam else None
                return None

            a_, b_ = (item_part(key, 0) if key is not None else None), (item_part(arg, 1) if arg is not None else None)
            good = a_ is not None and a_ == b_
            if not good:
                # the same pairing spelled with two parallel views of the dictionary: zip(<writers of d.keys()>, d.values())
                def zip_part(e):
                    """e == ELEM(zip(A, B, …))[i]  ->  (text of the zip, A_i)"""
                    if isinstance(e, ast.Subscript) and isinstance(e.slice, ast.Constant) and isinstance(e.slice.value, int):
                        el = e.value
                        if isinstance(el, ast.Call) and isinstance(el.func, ast.Name) and el.func.id == symx.ELEM and el.args:
                            z = symx.strip_wrappers(el.args[0])
                            if isinstance(z, ast.Call) and (dotted(z.func) or "") == "zip" and 0 <= e.slice.value < len(z.args):
                                return unparse(z), z.args[e.slice.value]
                    return None, None

                def view_of(e, kind):
                    return isinstance(e, ast.Call) and isinstance(e.func, ast.Attribute) and e.func.attr == kind and isinstance(e.func.value, ast.Name) and e.func.value.id == pparam and not e.args

                zr, recv_src = zip_part(recv)
                za, arg_src = zip_part(arg) if arg is not None else (None, None)
                if zr is not None and zr == za and view_of(arg_src, "values"):
                    g = symx.strip_wrappers(recv_src)
                    # the writers: (self.get_writer(k) for k in d.keys()) — also what map(self.get_writer, d.keys()) reads as
                    if isinstance(g, (ast.GeneratorExp, ast.ListComp)) and len(g.generators) == 1 and not g.generators[0].ifs and isinstance(g.generators[0].target, ast.Name):
                        it = g.generators[0].iter
                        el = g.elt
                        if (view_of(it, "keys") or (isinstance(it, ast.Name) and it.id == pparam)) and isinstance(el, ast.Call) and (dotted(el.func) or "").split(".")[-1] == "get_writer" and len(el.args) == 1 and isinstance(el.args[0], ast.Name) and el.args[0].id == g.generators[0].target.id:
                            good = True
            if not good:
                break
    if seen_pc == 0:
        raise AnalysisError("C02.R3: CatalogWriter.process_patches no longer hands chunks to PatchWriter.process_chunk")
    if good:
        res.ok("C02.R3", res.site(pp), "each (patch id, records) item goes to the writer of that id")
    else:
        res.violation("C02.R3", pp, pp.node, "records are not handed to the writer selected by their own patch id", key_extra="patch-writer-selection")
    gw = cw.methods.get("get_writer")
    if gw is not None:
        res.touch(gw)
        pid = gw.param_names()[1]
        is_pid = lambda y: isinstance(y, ast.Name) and y.id == pid  # noqa: E731
        gpaths = symx.explore(prog, gw, inline=symx.inline_private_helpers(prog))
        stores = [ev for p in gpaths for ev in p.events if ev.kind == "store" and isinstance(ev.expr, ast.Subscript) and "writers" in unparse(ev.expr.value)]
        if stores and all(isinstance(ev.expr.slice, ast.Name) and ev.expr.slice.id == pid for ev in stores):
            ctor = [ev for p in gpaths for ev in p.calls() if any(k.name == "PatchWriter" for k in prog.resolve_call(ev.fi, ev.node).classes())]
            if ctor and all(symx.mentions(ev.expr.args[0] if ev.expr.args else ev.expr, is_pid) for ev in ctor):
                res.ok("C02.R3", res.site(gw), "new writers are registered under, and write into the directory of, the requested patch id")
            else:
                res.violation("C02.R3", gw, gw.node, "a new patch writer does not write into the directory of the requested patch id", key_extra="writer-dir")
        else:
            res.violation("C02.R3", gw, gw.node, "a new patch writer is not registered under the requested patch id", key_extra="writer-registration")
        rets = [p for p in gpaths if p.outcome == "return"]
        if any(p.value is None or not (("writers" in unparse(p.value) and symx.mentions(p.value, is_pid)) or any(k.name == "PatchWriter" for y in ast.walk(p.value) if isinstance(y, ast.Call) for k in prog.resolve_call(gw, y).classes() if y in list(ast.walk(gw.node))) or symx.calls_named(p.value, "PatchWriter")) for p in rets):
            res.violation("C02.R3", gw, gw.node, "get_writer can return something else than the writer registered for the requested patch id", key_extra="writer-returned")


def rule_r4(prog, res) -> None:
    """hand-over happens-before the sentinel (multiprocessing variant)"""
    n = 0
    for fi in prog.funcs:
        if fi.variant == "mpi":
            continue
        puts = [c for c in calls_in(fi) if is_sentinel_put(prog, fi, c)]
        if not puts:
            continue
        n += 1
        res.touch(fi)
        cfg = cfg_of(fi.node)
        pool_nodes = []
        for nd in cfg.nodes:
            for c in nd.calls():
                for e in classify_call(prog, fi, c):
                    if e.kind == "ipc" and e.op.startswith("pool."):
                        pool_nodes.append((nd, e))
        if not pool_nodes:
            raise AnalysisError(f"C02.R4: {fi.short} sends the sentinel but uses no worker pool")
        lazy = [(nd, e) for nd, e in pool_nodes if e.op.split(".")[1] not in ("map", "starmap", "apply")]
        if lazy:
            res.violation(
                "C02.R4",
                fi,
                lazy[0][1].call,
                f"chunks are handed to the workers with the non-blocking {lazy[0][1].op}: the end-of-queue sentinel can overtake records that are still being processed, which are then never written",
                key_extra="lazy-pool-call",
            )
        else:
            res.ok("C02.R4", res.site(fi, "pool.map"), "producers run under a blocking pool call")
        for p in puts:
            for pn in cfg.node_containing(p):
                loops = [h for h in cfg.nodes if h.kind == "for"]
                inside = False
                for h in loops:
                    body = cfg.reach([cfg.nodes[j] for j, lab in cfg.succ[h.id] if lab == "n"], avoid=lambda x, h=h: x is h)
                    if pn.id in body:
                        inside = True
                reaches_pool = any(nd.id in cfg.reach([pn]) for nd, _ in pool_nodes)
                if inside or reaches_pool:
                    res.violation("C02.R4", fi, p, "the end-of-queue sentinel can be sent before all chunks were handed to the workers", key_extra="sentinel-before-end")
                else:
                    res.ok("C02.R4", res.site(fi, "put(EndOfQueue)"), "sentinel is sent after the chunk loop, no pool call can follow it")
        # workers put into the same queue object the writer reads from
        qdefs = [x for x in walk_no_nested(fi.node) if isinstance(x, ast.Assign) and isinstance(x.value, ast.Call) and isinstance(x.value.func, ast.Attribute) and x.value.func.attr == "Queue"]
        if len(qdefs) == 1:
            q = qdefs[0].targets[0].id if isinstance(qdefs[0].targets[0], ast.Name) else None
            users = [c for c in calls_in(fi) if any(isinstance(a, ast.Name) and a.id == q for a in c.args)]
            if q and len(users) >= 2 and all(isinstance(p.func, ast.Attribute) and isinstance(p.func.value, ast.Name) and p.func.value.id == q for p in puts):
                res.ok("C02.R4", res.site(fi, "queue"), "one queue shared by the chunk task, the writer process and the sentinel")
            else:
                res.violation("C02.R4", fi, qdefs[0], "workers, writer and sentinel do not share one queue", key_extra="queue-sharing")
        else:
            res.violation("C02.R4", fi, fi.node, f"{len(qdefs)} queues are created, expected exactly one", key_extra="queue-count")
    if n < 1:
        raise AnalysisError("C02.R4: no function sending the end-of-queue sentinel found in the multiprocessing variant")
    # the worker callable puts its result
    for ci in prog.classes:
        call = ci.methods.get("__call__")
        if call is None or ci.variant == "mpi" or not any("queue" in a for a in ci.inst_attrs):
            continue
        res.touch(call)
        from ..inline import inlined

        call = inlined(prog, call, keep=PIPE_KEEP)  # a helper that splits and enqueues is looked through
        cfg = cfg_of(call.node)
        putn = [nd for nd in cfg.nodes if any(e.kind == "ipc" and e.op == "queue.put" for c in nd.calls() for e in classify_call(prog, call, c))]
        split = [c for c in calls_in(call) if any(t.name == "split_into_patches" for t in prog.resolve_call(call, c).funcs())]
        skip = cfg.reach([cfg.entry], avoid=lambda x: x in putn, labels={"n", "t", "f", "loop", "exh"})
        if putn and split and cfg.exit.id not in skip:
            arg = next(c for nd in putn for c in nd.calls() if isinstance(c.func, ast.Attribute) and c.func.attr == "put").args[0]
            if depends_on(call.node, arg, lambda x: x in split):
                res.ok("C02.R4", res.site(call), "every processed sub-chunk is put into the writer queue")
            else:
                res.violation("C02.R4", call, call.node, "the worker puts something else than the split sub-chunk into the queue", key_extra="worker-put-arg")
        else:
            res.violation("C02.R4", call, call.node, "the worker can return without handing its sub-chunk to the writer", key_extra="worker-no-put")


def rule_r5(prog, res) -> None:
    """degrees flag travels unchanged from the constructors to chunk creation"""
    create = prog.func("DataChunk.create")
    res.touch(create)
    # create converts both coordinate columns in place, and only when degrees is true: decided on the column
    # stores of every path with degrees true resp. false (literal loops are unrolled, helpers looked through)
    from .. import symx

    def conversions(path):
        out = []
        for ev in path.events:
            if ev.kind == "store" and isinstance(ev.expr, ast.Subscript) and isinstance(ev.value, ast.Call) and (dotted(ev.value.func) or "").endswith("deg2rad"):
                out.append(ev)
        return out

    pol = symx.inline_private_helpers(prog)
    p_on = [p for p in symx.explore(prog, create, env={"degrees": True}, inline=pol) if p.outcome != "raise"]
    p_off = [p for p in symx.explore(prog, create, env={"degrees": False}, inline=pol) if p.outcome != "raise"]
    if not p_on or not p_off:
        raise AnalysisError("C02.R5: DataChunk.create has no returning path")
    bad = None
    for p in p_on:
        conv = conversions(p)
        cols = sorted(unparse(ev.expr.slice) for ev in conv)
        in_place = all(ev.value.args and unparse(ev.value.args[0]) == unparse(ev.expr) for ev in conv)
        if cols != ["'dec'", "'ra'"] or not in_place:
            bad = f"with degrees true the converted columns are {cols} (in place={in_place})"
            break
    if bad is None and any(conversions(p) for p in p_off):
        bad = "coordinates are converted although degrees is false"
    if bad is None:
        res.ok("C02.R5", res.site(create, "deg2rad"), f"ra and dec are converted in place, exactly when degrees is true ({len(p_on)}+{len(p_off)} paths)")
    else:
        res.violation("C02.R5", create, create.node, f"degree->radian conversion is not applied to exactly ra and dec under `if degrees`: {bad}", key_extra="deg2rad-shape")
    # readers: self.degrees = degrees ; create(..., degrees=self.degrees)
    dr = prog.find_class("DataReader")
    init = dr.methods["__init__"]
    st = [x for x in walk_no_nested(init.node) if isinstance(x, ast.Assign) and any(unparse(t) == "self.degrees" for t in x.targets)]
    if st and all(isinstance(s.value, ast.Name) and s.value.id == "degrees" for s in st):
        res.ok("C02.R5", res.site(init), "reader stores the degrees parameter unchanged")
    else:
        res.violation("C02.R5", init, init.node, "reader does not store its degrees parameter unchanged", key_extra="reader-degrees-store")
    n = 0
    for ci in prog.subclasses(dr):
        m = ci.methods.get("_get_next_chunk")
        if m is None:
            continue
        from ..inline import inlined

        m = inlined(prog, m, keep=PIPE_KEEP)  # a shared chunk-building helper of the reader classes is looked through
        for c in calls_in(m):
            if create in prog.resolve_call(m, c).funcs():
                n += 1
                res.touch(m)
                d = kwarg(c, "degrees")
                if d is not None and unparse(d) == "self.degrees":
                    res.ok("C02.R5", res.site(m, "create(degrees=self.degrees)"), "flag forwarded")
                else:
                    res.violation("C02.R5", m, c, f"chunk is created with degrees={unparse(d) if d is not None else '<default True>'} instead of the reader's flag", key_extra=f"degrees-not-forwarded-{ci.name}")
        sup = ci.methods.get("__init__")
        if sup is not None:
            for c in calls_in(sup):
                if isinstance(c.func, ast.Attribute) and c.func.attr == "__init__" and isinstance(c.func.value, ast.Call):
                    d = kwarg(c, "degrees")
                    if d is None or not (isinstance(d, ast.Name) and d.id == "degrees"):
                        res.violation("C02.R5", sup, c, "reader subclass does not pass its degrees parameter to the base constructor", key_extra=f"degrees-super-{ci.name}")
                    else:
                        res.ok("C02.R5", res.site(sup, "super().__init__(degrees=degrees)"), "flag forwarded")
    if n < 4:
        raise AnalysisError(f"C02.R5: only {n} reader chunk creations found, minimum 4")
    cat = prog.find_class("Catalog")
    for name in ("from_dataframe", "from_file"):
        m = cat.methods[name]
        res.touch(m)
        ok = False
        for c in calls_in(m):
            d = kwarg(c, "degrees")
            if d is not None and isinstance(d, ast.Name) and d.id == "degrees" and any(isinstance(t, (ClassInfo,)) or getattr(t, "name", "") == "new_filereader" for t in prog.resolve_call(m, c).targets):
                ok = True
        if ok:
            res.ok("C02.R5", res.site(m), "degrees forwarded to the reader")
        else:
            res.violation("C02.R5", m, m.node, "catalog constructor does not forward degrees= to the reader", key_extra=f"ctor-degrees-{name}")
    nf = prog.func("new_filereader")
    res.touch(nf)
    fw = [c for c in calls_in(nf) if kwarg(c, "degrees") is not None]
    if fw and all(isinstance(kwarg(c, "degrees"), ast.Name) and kwarg(c, "degrees").id == "degrees" for c in fw):
        res.ok("C02.R5", res.site(nf), "degrees forwarded to the selected reader class")
    else:
        res.violation("C02.R5", nf, nf.node, "new_filereader does not forward degrees=", key_extra="filereader-degrees")
    # generators produce radians and say so
    rb = prog.find_class("RandomsBase")
    call = rb.methods["__call__"]
    res.touch(call)
    cc = [c for c in calls_in(call) if create in prog.resolve_call(call, c).funcs()]
    if cc and all(isinstance(kwarg(c, "degrees"), ast.Constant) and kwarg(c, "degrees").value is False for c in cc):
        res.ok("C02.R5", res.site(call), "generator chunks are created with degrees=False")
    else:
        res.violation("C02.R5", call, call.node, "random generator output (radian) is converted again as if it were in degrees", key_extra="generator-degrees")


def _xyz(fi: FuncInfo, e: ast.AST) -> bool:
    return depends_on(fi.node, e, lambda x: isinstance(x, ast.Call) and isinstance(x.func, ast.Attribute) and x.func.attr == "to_3d")


def rule_r6(prog, res) -> None:
    """sibling agreement of the ingest pipelines"""
    cw = prog.find_class("CatalogWriter")
    sites = []
    from ..inline import all_inlined

    pipe_funcs = all_inlined(prog, keep=PIPE_KEEP)  # helpers that build the writer / split the chunk are looked through
    for fi in pipe_funcs:
        for c in calls_in(fi):
            if cw in prog.resolve_call(fi, c).classes():
                sites.append((fi, c))
    if len(sites) < 3:
        raise AnalysisError("C02.R6: fewer than 3 CatalogWriter construction sites")
    kwsets = {}
    for fi, c in sites:
        res.touch(fi)
        from .common import expanded_keywords

        xkw, xcomplete = expanded_keywords(prog, fi, c)
        kws = {n_ for n_, _v in named_args(c)} | set(xkw) | ({"cache_directory"} if c.args else set())
        kwsets[fi.short] = kws
        for need in ("chunk_info", "overwrite", "buffersize"):
            v = kwarg(c, need) or xkw.get(need)
            if v is None and not xcomplete:
                continue  # an options dictionary that cannot be read here: no verdict on this call
            if v is None:
                res.violation("C02.R6", fi, c, f"this pipeline variant constructs the writer without {need}= (siblings pass it): default differs from what the caller asked for", key_extra=f"writer-kw-{need}")
            else:
                # the value must be the function's own parameter / field of that name (locals with one definition —
                # among them the bindings of expanded helpers — are read as their definition)
                from .common import expand_locals

                v = expand_locals(fi.node, v, set(fi.param_names()), depth=4)
                base = unparse(v).split(".")[-1]
                if base != need:
                    if need == "chunk_info" and "copy_chunk_info" in unparse(v):
                        continue
                    res.violation("C02.R6", fi, c, f"{need}={unparse(v)} is not the forwarded {need}", key_extra=f"writer-kw-{need}-value")
    if len({frozenset(v) for v in kwsets.values()}) == 1:
        res.ok("C02.R6", "CatalogWriter(...) x" + str(len(sites)), f"all variants pass {sorted(next(iter(kwsets.values())))}")
    # chunk_info at the top of each pipeline comes from reader.copy_chunk_info(drop_patch_ids=True)
    tops = [f for f in prog.funcs if f.name.startswith("write_patches")]
    for f in tops:
        res.touch(f)
        cci = [c for c in calls_in(f) if isinstance(c.func, ast.Attribute) and c.func.attr == "copy_chunk_info"]
        if not cci:
            # … built by a private helper of the module that this variant calls (an options dictionary)
            for c0 in calls_in(f):
                for h in prog.resolve_call(f, c0).funcs():
                    if h.module is f.module and h.name.startswith("_") and h.cls is None:
                        cci += [c for c in calls_in(h) if isinstance(c.func, ast.Attribute) and c.func.attr == "copy_chunk_info"]
        if f.variant == "mp" or f.variant == "mpi" or f.name.endswith("unthreaded"):
            if cci and all(isinstance(kwarg(c, "drop_patch_ids"), ast.Constant) and kwarg(c, "drop_patch_ids").value is True for c in cci):
                res.ok("C02.R6", res.site(f, "copy_chunk_info"), "writer schema = reader schema without the patch-id column")
            else:
                res.violation("C02.R6", f, f.node, "writer schema is not reader.copy_chunk_info(drop_patch_ids=True)", key_extra="chunk-info-source")
        # reader is entered as a context manager
        from ..inline import inlined

        rparam = next((q for q in f.param_names() if q == "reader" or "reader" in q), None)
        g = inlined(prog, f, keep={"chunk_processing_task", "writer_task", "scatter_data_chunk", "split_into_patches", "get_patch_centers", "load_patches"})

        def is_reader(e, depth=4) -> bool:
            if isinstance(e, ast.Name):
                if e.id == rparam:
                    return True
                vals = [v for v in all_def_values(g.node, e.id) if v is not None]
                return depth > 0 and len(vals) == 1 and is_reader(vals[0], depth - 1)
            return False

        if rparam is not None and any(isinstance(x, ast.withitem) and is_reader(x.context_expr) for x in ast.walk(g.node)):
            res.ok("C02.R6", res.site(f, "with reader"), "reader used as context manager")
        else:
            res.violation("C02.R6", f, f.node, "the reader is not entered as a context manager in this variant (file left open / not opened)", key_extra="reader-not-with")
    # split_into_patches receives xyz centres in every variant
    n = 0
    for fi in pipe_funcs:
        for c in calls_in(fi):
            if any(t.name == "split_into_patches" for t in prog.resolve_call(fi, c).funcs()) and len(c.args) >= 2:
                n += 1
                res.touch(fi)
                from .common import expand_locals

                cen = c.args[1]
                ok = _xyz(fi, cen)
                if not ok:
                    cen = expand_locals(fi.node, cen, set(fi.param_names()), depth=4)  # bindings of expanded helpers
                    ok = _xyz(fi, cen)
                if not ok and isinstance(cen, ast.Attribute) and fi.cls is not None:
                    init = fi.cls.methods.get("__init__")
                    if init is not None:
                        ok = any(isinstance(x, ast.Assign) and any(unparse(t) == unparse(cen) for t in x.targets) and _xyz(init, x.value) for x in walk_no_nested(init.node))
                if ok:
                    res.ok("C02.R6", res.site(fi, "split_into_patches"), "patch centres are handed over as xyz unit vectors")
                else:
                    res.violation("C02.R6", fi, c, "patch centres reach split_into_patches without conversion to xyz: nearest-centre assignment compares unit vectors with (ra, dec) pairs", key_extra=f"centres-not-xyz-{fi.qualname}")
    if n < 3:
        raise AnalysisError(f"C02.R6: only {n} split_into_patches call sites, minimum 3")
    # … and what it returns goes somewhere: the per-patch pieces of every chunk are handed to the catalog writer, put on
    # the queue to the writer process, sent to the writer rank or returned to the caller that does so — a result that is
    # computed and dropped loses the records of that chunk without any error
    SINKS = ("process_patches", "put", "send", "isend", "append", "extend", "update")
    for fi in pipe_funcs:
        for c in calls_in(fi):
            if not (any(t.name == "split_into_patches" for t in prog.resolve_call(fi, c).funcs()) and len(c.args) >= 2):
                continue
            pmf = parents_map(fi.node)
            par = pmf.get(id(c))
            used = False
            if isinstance(par, ast.Call):  # handed on directly: sink(split_into_patches(...))
                used = (dotted(par.func) or unparse(par.func)).split(".")[-1] in SINKS
            elif isinstance(par, (ast.Return, ast.Yield)):
                used = True
            elif isinstance(par, ast.Assign) and len(par.targets) == 1 and isinstance(par.targets[0], ast.Name):
                nm = par.targets[0].id
                # (helpers of the writer are expanded in place here: the pieces may be consumed by the loop that files them)
                used = any(isinstance(x, ast.Name) and x.id == nm and isinstance(x.ctx, ast.Load) for x in ast.walk(fi.node))
            if used:
                res.ok("C02.R6", res.site(fi, "pieces handed on"), "the result of split_into_patches reaches the writer / the queue / the writer rank", nontrivial=False)
            else:
                res.violation("C02.R6", fi, c, f"{fi.qualname} computes the per-patch pieces of a chunk (split_into_patches) and drops them: they are neither handed to the catalog writer nor queued / sent to it — the records of every chunk are lost, the catalog is created empty or incomplete without an error", key_extra=f"pieces-dropped-{fi.qualname}")
    apc = prog.func("assign_patch_centers")
    res.touch(apc)
    vq = [c for c in calls_in(apc) if (dotted(c.func) or "").endswith("vq.vq") or (dotted(c.func) or "").endswith(".vq")]
    def _vq_arg(c, i, name):
        return c.args[i] if len(c.args) > i else kwarg(c, name)

    if vq and all(_vq_arg(c, 0, "obs") is not None and _xyz(apc, _vq_arg(c, 0, "obs")) and isinstance(_vq_arg(c, 1, "code_book"), ast.Name) and _vq_arg(c, 1, "code_book").id in apc.param_names() for c in vq):
        res.ok("C02.R6", res.site(apc), "objects are converted to xyz and matched against the (xyz) centres")
    else:
        res.violation("C02.R6", apc, apc.node, "nearest-centre search does not compare xyz with xyz", key_extra="vq-units")
    sip = prog.func("split_into_patches")
    res.touch(sip)
    # decided on the symbolic store (tuple-returning helpers looked through): the keys handed to groupby are patch ids
    # (nearest-centre assignment or the popped id column), the values are the records of the chunk
    from .. import symx

    chunk_p = sip.param_names()[0]
    n_gb = 0
    bad_gb = None
    for p in symx.explore(prog, sip, inline=symx.inline_private_helpers(prog, public={"assign_patch_centers", "groupby"})):
        if p.outcome == "raise":
            continue
        for ev in p.calls("groupby"):
            if len(ev.expr.args) != 2:
                bad_gb = ev
                continue
            n_gb += 1
            k, v = ev.expr.args

            def role(e):
                """'ids' | 'records' | None"""
                e = symx.strip_wrappers(e)
                if symx.calls_named(e, "assign_patch_centers"):
                    return "ids"
                if isinstance(e, ast.Subscript) and isinstance(e.slice, ast.Constant) and symx.calls_named(e.value, "pop"):
                    return {0: "records", 1: "ids"}.get(e.slice.value)
                if isinstance(e, ast.Name) and e.id == chunk_p:
                    return "records"
                return None

            if role(k) != "ids" or role(v) != "records":
                bad_gb = ev
    if n_gb == 0 and bad_gb is None:
        raise AnalysisError("C02.R6: split_into_patches does not group its records (groupby call not found)")
    if bad_gb is None:
        res.ok("C02.R6", res.site(sip, "groupby"), "records are grouped by their patch ids (keys first, records second)")
    else:
        res.violation("C02.R6", sip, bad_gb.node, f"groupby is not called with (patch ids, records of the chunk): {unparse(bad_gb.expr)[:90]}", key_extra="groupby-args")


def rule_r7(prog, res) -> None:
    """group-by alignment, decided on the fully substituted expression that groupby yields:
    zip(unique(K[argsort(K)], return_index=True)[0], split(V[argsort(K)], unique(K[argsort(K)], return_index=True)[1][1:]))"""
    from .. import symx

    gb = prog.func("groupby", module="yaw.utils.misc")
    res.touch(gb)
    keys, vals = gb.param_names()[:2]
    paths = symx.explore(prog, gb, inline=symx.inline_private_helpers(prog))
    ys = [ev for p in paths for ev in p.events if ev.kind == "yield"] + [ev for p in paths if p.outcome == "return" and p.value is not None for ev in [symx.Event("yield", p.value, None, p.node, gb)]]
    if len(paths) != 1 or len(ys) != 1:
        raise AnalysisError(f"C02.R7: groupby no longer yields one zipped expression on a single path ({len(paths)} paths, {len(ys)} yields): idiom not recognised")
    E = ys[0].expr

    def last(call) -> str:
        return (dotted(call.func) or unparse(call.func)).split(".")[-1] if isinstance(call, ast.Call) else ""

    if not (last(E) == "zip" and len(E.args) == 2):
        raise AnalysisError("C02.R7: groupby does not yield zip(keys, groups): idiom not recognised")
    U, S = E.args
    if last(S) != "split" or len(S.args) != 2:
        if last(U) == "split":
            res.violation("C02.R7", gb, ys[0].node, "groupby yields (records, key) instead of (key, records)", key_extra="groupby-split")
            return
        raise AnalysisError("C02.R7: groups are not produced by numpy.split: idiom not recognised")
    Y, P = S.args

    def sorted_by_argsort(x, base: str):
        """x == base[argsort(keys)] -> the index expression text, else None"""
        if isinstance(x, ast.Subscript) and isinstance(x.value, ast.Name) and x.value.id == base and last(x.slice) == "argsort" and x.slice.args and not x.slice.keywords:
            return unparse(x.slice)
        if isinstance(x, ast.Subscript) and isinstance(x.value, ast.Name) and x.value.id == base and last(x.slice) == "argsort" and x.slice.args:
            return unparse(x.slice)
        return None

    def unique_part(x, idx: int):
        """x == unique(X, return_index=True)[idx] -> X"""
        if isinstance(x, ast.Subscript) and isinstance(x.slice, ast.Constant) and x.slice.value == idx and last(x.value) == "unique" and x.value.args:
            ri = kwarg(x.value, "return_index")
            if isinstance(ri, ast.Constant) and ri.value is True and len(x.value.keywords) == 1:
                return x.value.args[0]
        return None

    iy = sorted_by_argsort(Y, vals)
    Xu = unique_part(U, 0)
    ok_split = isinstance(P, ast.Subscript) and isinstance(P.slice, ast.Slice) and isinstance(P.slice.lower, ast.Constant) and P.slice.lower.value == 1 and P.slice.upper is None and P.slice.step is None
    Xp = unique_part(P.value, 1) if ok_split else None
    ix = sorted_by_argsort(Xu, keys) if Xu is not None else None
    sort_arg_ok = ix is not None and ix == iy and isinstance(Xu.slice.args[0], ast.Name) and Xu.slice.args[0].id == keys
    if iy is None or ix is None or not sort_arg_ok:
        res.violation("C02.R7", gb, ys[0].node, f"keys and records are not permuted by the same argsort(keys) index (keys: {unparse(Xu) if Xu is not None else unparse(U)[:50]}, records: {unparse(Y)[:50]}): records are attributed to the wrong patch", key_extra="groupby-permutation")
        return
    res.ok("C02.R7", res.site(gb, "permutation"), "keys and records are permuted by the same argsort index")
    if Xp is not None and unparse(Xp) == unparse(Xu):
        res.ok("C02.R7", res.site(gb, "split"), "sorted records are split at the first-occurrence indices [1:] of the sorted unique keys and zipped with them")
    else:
        res.violation("C02.R7", gb, ys[0].node, "sorted records are not split exactly at the boundaries of the sorted unique keys", key_extra="groupby-split")


def rule_r8(prog, res) -> None:
    """given patch centres take precedence over a patch-id column (decided on the substituted
    group key of every path of split_into_patches on which centres are given)"""
    from .. import symx

    sip = prog.func("split_into_patches")
    res.touch(sip)
    cen = sip.param_names()[1]
    pol = symx.inline_private_helpers(prog, public={"assign_patch_centers", "groupby"})
    n_paths = 0
    for has_ids in (True, False):
        paths = symx.explore(prog, sip, env={cen: "SOME", "hasattr()": has_ids}, inline=pol)
        for p in paths:
            gb = [e for e in p.calls() if any(t.name == "groupby" for t in prog.resolve_call(e.fi, e.node).funcs())]
            if p.outcome == "raise":
                continue
            if not gb:
                res.violation("C02.R8", sip, p.node or sip.node, "a path with patch centres given returns without grouping the records by patch", key_extra="no-groupby")
                return
            n_paths += 1
            for e in gb:
                key = e.expr.args[0] if e.expr.args else None
                apc = [c for c in symx.calls_named(key, "assign_patch_centers") if c.args and symx.mentions(c.args[0], lambda n: isinstance(n, ast.Name) and n.id == cen)]
                if not apc:
                    res.violation(
                        "C02.R8",
                        sip,
                        e.node,
                        f"with patch centres given (and a patch-id column {'present' if has_ids else 'absent'}) the records are grouped by `{unparse(key)[:70]}` instead of by their nearest centre: "
                        "the documented precedence patch_centers > patch_name is reversed and records land in patches whose stored centre is not their nearest one",
                        key_extra="centres-precedence",
                    )
                    return
    if n_paths < 2:
        raise AnalysisError("C02.R8: fewer than two grouping paths with centres found in split_into_patches")
    res.ok("C02.R8", res.site(sip), f"on all {n_paths} paths with centres given, the group key is assign_patch_centers({cen}, …) (also when an id column exists)")


def _pieces_of(e):
    """strip element / enumerate / subscript wrappers from an expression that denotes one piece of a divided chunk"""
    from .. import symx

    for _ in range(8):
        e = symx.strip_wrappers(e, (symx.ELEM, symx.LOOP))
        if isinstance(e, ast.Subscript) and not isinstance(e.slice, ast.Slice):
            e = e.value
        elif isinstance(e, ast.Call) and isinstance(e.func, ast.Name) and e.func.id in ("enumerate", "list", "tuple", "iter") and e.args:
            e = e.args[0]
        else:
            break
    return e


def _tiling_verdict(pieces) -> tuple[bool | None, str]:
    """(True, why) when the expression provably partitions its array, (False, why) when it provably covers only a
    part of it for some lengths, (None, why) when the idiom is not recognised"""
    from ..norm import NotAffine, affine, affine_eq, fmt_affine

    if isinstance(pieces, ast.Call) and (dotted(pieces.func) or "").split(".")[-1] == "array_split" and len(pieces.args) >= 2:
        return True, f"numpy.array_split({unparse(pieces.args[0])[:30]}, n) partitions its input for every length"
    if isinstance(pieces, (ast.ListComp, ast.GeneratorExp)) and len(pieces.generators) == 1 and not pieces.generators[0].ifs:
        g = pieces.generators[0]
        el = pieces.elt
        if isinstance(g.target, ast.Name) and isinstance(g.iter, ast.Call) and isinstance(g.iter.func, ast.Name) and g.iter.func.id == "range" and len(g.iter.args) == 1 and isinstance(el, ast.Subscript) and isinstance(el.slice, ast.Slice) and el.slice.lower is not None and el.slice.upper is not None and el.slice.step is None:
            i, n = g.target.id, unparse(g.iter.args[0])
            # bounds are products i*step: affine() keeps them as atoms; compare textually through substitution i -> i+1
            import copy

            class Sub(ast.NodeTransformer):
                def __init__(self, val):
                    self.val = val

                def visit_Name(self, node):
                    return copy.deepcopy(self.val) if node.id == i else node

            nxt_lo = Sub(ast.BinOp(left=ast.Name(id=i, ctx=ast.Load()), op=ast.Add(), right=ast.Constant(value=1))).visit(copy.deepcopy(el.slice.lower))
            consecutive = unparse(nxt_lo).replace(" ", "") in (unparse(el.slice.upper).replace(" ", ""), "(" + unparse(el.slice.upper).replace(" ", "") + ")")
            first = Sub(ast.Constant(value=0)).visit(copy.deepcopy(el.slice.lower))
            def is_zero(x) -> bool:
                if isinstance(x, ast.Constant):
                    return x.value == 0
                if isinstance(x, ast.BinOp) and isinstance(x.op, ast.Mult):
                    return is_zero(x.left) or is_zero(x.right)
                if isinstance(x, ast.BinOp) and isinstance(x.op, ast.Add):
                    return is_zero(x.left) and is_zero(x.right)
                return False

            starts_at_zero = is_zero(first)
            if consecutive and starts_at_zero:
                return False, f"the pieces {unparse(el)[:50]} for {i} in range({n}) are consecutive and end at {n} times the step: the last len % {n} records belong to no piece"
        return None, "comprehension of pieces not recognised"
    return None, f"pieces are produced by {unparse(pieces)[:60]}"


def rule_r9(prog, res) -> None:
    """a chunk that is divided among the workers is partitioned: every record is in exactly one piece"""
    from .. import symx

    sites = []
    # MPI: the reader rank sends one piece to every other rank and keeps one
    for fi in prog.find_funcs("scatter_data_chunk"):
        res.touch(fi)
        oracle = __import__("yawsa.rules.c06", fromlist=["x"])._designated_rank_oracle(True)
        for p in symx.explore(prog, fi, oracle=oracle):
            for ev in p.calls("send"):
                if ev.expr.args:
                    sites.append((fi, ev.node, _pieces_of(ev.expr.args[0])))
            if p.outcome == "return" and p.value is not None and not (isinstance(p.value, ast.Call) and isinstance(p.value.func, ast.Attribute) and p.value.func.attr == "recv"):
                sites.append((fi, p.node, _pieces_of(p.value)))
    # multiprocessing: pool.map(task, pieces)
    for fi in prog.funcs:
        if fi.variant == "mpi" or not fi.module.name.startswith("yaw.catalog"):
            continue
        for c in calls_in(fi):
            if isinstance(c.func, ast.Attribute) and c.func.attr in ("map", "imap", "imap_unordered", "starmap") and len(c.args) == 2 and any(e.kind == "ipc" and e.op.startswith("pool.") for e in classify_call(prog, fi, c)):
                hit = False
                for p in symx.explore(prog, fi, skip_tests=("logger",)):
                    for ev in p.calls(c.func.attr):
                        if ev.node is c and not hit:
                            hit = True
                            sites.append((fi, c, _pieces_of(ev.expr.args[1])))
                    if hit:
                        break
    seen = set()
    n = 0
    for fi, node, pieces in sites:
        key = (fi.key, unparse(pieces))
        if key in seen:
            continue
        seen.add(key)
        n += 1
        res.touch(fi)
        verdict, why = _tiling_verdict(pieces)
        if verdict is True:
            res.ok("C02.R9", res.site(fi, unparse(pieces)[:40]), why)
        elif verdict is False:
            res.violation("C02.R9", fi, node, f"the chunk is not partitioned among the workers: {why}; those records are never written to any patch", key_extra=f"chunk-not-partitioned-{fi.qualname}")
        else:
            raise AnalysisError(f"C02.R9: cannot decide whether the pieces handed to the workers in {fi.short} partition the chunk ({why})")
    if n < 2:
        raise AnalysisError(f"C02.R9: only {n} sites dividing a chunk among workers found, minimum 2 (MPI scatter and process pool)")


def rule_r10(prog, res) -> None:
    """byte-order conversion keeps the values: ndarray.byteswap() (swaps the bytes in memory) is always paired, in the
    same expression, with a view whose dtype byte order is flipped RELATIVE to the input (`dtype.newbyteorder()` /
    newbyteorder('S')).  An absolute target order ('=', '<', '>', 'native', …) keeps the values only for inputs of the
    opposite order: a column that is already native (unsigned / scaled FITS columns) is garbled"""
    n = 0
    for fi in prog.funcs:
        for c in calls_in(fi):
            if not (isinstance(c.func, ast.Attribute) and c.func.attr == "byteswap"):
                continue
            n += 1
            res.touch(fi)
            inplace = kwarg(c, "inplace") or (c.args[0] if c.args else None)
            # the whole method chain this call is part of
            pm = parents_map(fi.node)
            top = c
            while isinstance(pm.get(id(top)), (ast.Attribute, ast.Call)) and (getattr(pm[id(top)], "value", None) is top or getattr(pm[id(top)], "func", None) is top):
                top = pm[id(top)]
            views = [y for y in ast.walk(top) if isinstance(y, ast.Call) and isinstance(y.func, ast.Attribute) and y.func.attr in ("view", "astype") and y.args]
            orders = [z for v in views for z in ast.walk(v.args[0]) if isinstance(z, ast.Call) and isinstance(z.func, ast.Attribute) and z.func.attr == "newbyteorder"]
            if not orders:
                res.violation("C02.R10", fi, c, "byteswap() is applied without re-interpreting the result with the swapped dtype (view(dtype.newbyteorder())): every value of the column changes", key_extra=f"byteswap-no-view-{fi.qualname}")
                continue
            bad = None
            for o in orders:
                arg = o.args[0] if o.args else kwarg(o, "new_order")
                if arg is None:
                    continue
                if not (isinstance(arg, ast.Constant) and str(arg.value).lower() in ("s", "swap")):
                    bad = arg
            if bad is not None:
                res.violation(
                    "C02.R10",
                    fi,
                    c,
                    f"byteswap() is combined with newbyteorder({unparse(bad)}), an absolute byte order: the pair keeps the values only if the input has the opposite order; a column that already has this order "
                    "(unsigned or scaled FITS columns are delivered in native order) is silently garbled",
                    key_extra=f"byteswap-absolute-order-{fi.qualname}",
                )
            else:
                res.ok("C02.R10", res.site(fi, "byteswap"), "bytes and dtype byte order are swapped together (relative swap): values are preserved for every input order")
    if n == 0:
        res.ok("C02.R10", "no byteswap", "no byte-order conversion in the package", nontrivial=False)


def rule_r11(prog, res) -> None:
    """every ingest pipeline honours the caller's options (shared with C09.R7): a parameter is handed on to the
    component that implements it, in each variant (sequential, multiprocessing, MPI) and for each input format"""
    from . import c09
    from .common import shared_rule

    shared_rule(res, c09.rule_r7, "C09", "C09.R7", "C02.R11")


_DTYPE_CANON = {
    "int16": "i2", "i2": "i2", "<i2": "i2", "short": "i2",
    "int32": "i4", "i4": "i4", "<i4": "i4", "intc": "i4",
    "int64": "i8", "i8": "i8", "<i8": "i8", "int": "i8", "int_": "i8", "intp": "i8",
    "uint16": "u2", "u2": "u2", "uint8": "u1", "u1": "u1", "ubyte": "u1",
    "byte": "i1", "int8": "i1", "i1": "i1", "b": "i1",
    "float64": "f8", "f8": "f8", "<f8": "f8", "float": "f8", "double": "f8", "float_": "f8",
    "float32": "f4", "f4": "f4", "<f4": "f4", "single": "f4",
}


def _dtype_code(prog, fi, e):
    """canonical code ('i2', 'f8', …) of a dtype expression: np.int16 / "i2" / a module constant holding one; None if
    it cannot be told"""
    from .common import const_value

    if e is None:
        return None
    if isinstance(e, ast.Constant) and isinstance(e.value, str):
        return _DTYPE_CANON.get(e.value)
    d = dotted(e)
    if d and d.split(".")[0] in ("np", "numpy") and len(d.split(".")) == 2:
        return _DTYPE_CANON.get(d.split(".")[1])
    if isinstance(e, ast.Name) and e.id in ("int", "float"):
        return _DTYPE_CANON[e.id]
    try:
        v = const_value(prog, fi, e)
    except Exception:  # noqa: BLE001
        v = None
    if isinstance(v, ast.Constant) and isinstance(v.value, str):
        return _DTYPE_CANON.get(v.value)
    if isinstance(v, str):
        return _DTYPE_CANON.get(v)
    return None


def rule_r13(prog, res) -> None:
    """raw binary files are read with the element type they were written with.  `ndarray.tofile` stores no type, so
    the reader's `np.fromfile(…, dtype=…)` must name it: (1) the patch-id list of a cache — the dtype of the array the
    writer hands to tofile (followed back through sort / the constructing call) and the dtype the reader names fold to
    the same code; a reader without dtype reads float64 and returns garbage ids without any error; (2) the patch data
    file, whose payload is re-interpreted with `.view(<record type>)` after a one-byte header, is read as single bytes"""
    from .common import expand_locals

    cat = prog.func("read_patch_ids").module
    readers = [(f, c) for f in cat.all_funcs for c in calls_in(f) if (dotted(c.func) or "").split(".")[-1] == "fromfile"]
    writers = [(f, c) for f in cat.all_funcs for c in calls_in(f) if isinstance(c.func, ast.Attribute) and c.func.attr == "tofile"]
    if len(readers) != 1 or len(writers) != 1:
        raise AnalysisError(f"C02.R13: expected one fromfile and one tofile call in {cat.name} (the patch-id list), found {len(readers)} / {len(writers)}")
    (rf, rc), (wf, wc) = readers[0], writers[0]
    res.touch(rf)
    res.touch(wf)
    rd = kwarg(rc, "dtype") or (rc.args[1] if len(rc.args) > 1 else None)
    rcode = _dtype_code(prog, rf, rd) if rd is not None else "f8"
    # the written array: receiver of tofile, followed through order-only wrappers to the call that fixes its type
    arr = expand_locals(wf.node, wc.func.value, set())
    wcode = None
    for y in ast.walk(arr):
        if isinstance(y, ast.Call):
            fn = (dotted(y.func) or "").split(".")[-1] if dotted(y.func) else (y.func.attr if isinstance(y.func, ast.Attribute) else "")
            dt = kwarg(y, "dtype") or (y.args[0] if fn == "astype" and y.args else None)
            if dt is not None and fn in ("fromiter", "array", "asarray", "astype", "empty", "zeros", "full", "arange"):
                wcode = _dtype_code(prog, wf, dt)
                break
    if wcode is None:
        # the array is a parameter of a writing helper: its type is fixed at the call sites
        from .common import argval

        for q in [y.id for y in ast.walk(arr) if isinstance(y, ast.Name) and y.id in wf.param_names()]:
            for g in prog.funcs:
                for c in calls_in(g):
                    if wf not in prog.resolve_call(g, c).funcs():
                        continue
                    a = argval(prog, g, c, q)
                    if a is None:
                        continue
                    res.touch(g)
                    for y in ast.walk(expand_locals(g.node, a, set())):
                        if isinstance(y, ast.Call):
                            fn = (dotted(y.func) or "").split(".")[-1] if dotted(y.func) else (y.func.attr if isinstance(y.func, ast.Attribute) else "")
                            dt = kwarg(y, "dtype") or (y.args[0] if fn == "astype" and y.args else None)
                            if dt is not None and fn in ("fromiter", "array", "asarray", "astype", "empty", "zeros", "full", "arange"):
                                wcode = wcode or _dtype_code(prog, g, dt)
    if rd is None:
        res.violation("C02.R13", rf, rc, f"{rf.short} reads the patch-id list with np.fromfile without a dtype: the file holds {wcode or 'integer'} values, numpy reads them as float64 — the cache opens with garbage / the wrong number of patch ids and no error", key_extra="patch-ids-read-without-dtype")
    elif rcode is None or wcode is None:
        raise AnalysisError(f"C02.R13: cannot fold the element type of the patch-id list (written: {unparse(arr)[:60]} -> {wcode}; read: {unparse(rd)[:30]} -> {rcode})")
    elif rcode != wcode:
        res.violation("C02.R13", rf, rc, f"the patch-id list is written as {wcode} ({wf.short}) but read as {rcode} ({rf.short}): the ids of an intact cache are read back as other numbers", key_extra="patch-ids-dtype-mismatch")
    else:
        res.ok("C02.R13", res.site(rf, "patch-id list"), f"written as {wcode} in {wf.name}, read as {rcode}")
    # (2) payload of a patch data file
    n = 0
    for f in prog.funcs:
        if f.module.name != "yaw.catalog.patch":
            continue
        for c in calls_in(f):
            if (dotted(c.func) or "").split(".")[-1] != "fromfile":
                continue
            tgt = [x for x in walk_no_nested(f.node) if isinstance(x, ast.Assign) and x.value is c and isinstance(x.targets[0], ast.Name)]
            viewed = bool(tgt) and any(isinstance(y, ast.Call) and isinstance(y.func, ast.Attribute) and y.func.attr == "view" and isinstance(y.func.value, ast.Name) and y.func.value.id == tgt[0].targets[0].id for y in ast.walk(f.node))
            viewed = viewed or any(isinstance(y, ast.Call) and isinstance(y.func, ast.Attribute) and y.func.attr == "view" and y.func.value is c for y in ast.walk(f.node))
            if not viewed:
                continue
            n += 1
            res.touch(f)
            d = kwarg(c, "dtype") or (c.args[1] if len(c.args) > 1 else None)
            code = _dtype_code(prog, f, d) if d is not None else "f8"
            if code in ("i1", "u1"):
                res.ok("C02.R13", res.site(f, "payload bytes"), "the payload is read as single bytes before it is re-interpreted as records")
            elif code is None:
                raise AnalysisError(f"C02.R13: cannot fold the dtype `{unparse(d)[:30]}` of the payload read in {f.short}")
            else:
                res.violation("C02.R13", f, c, f"{f.short} reads the payload of a patch file as {code} and re-interprets it with .view(<record type>): only a payload whose size is a multiple of {code[1:]} bytes can be read at all, records with an odd number of columns fail or are re-grouped", key_extra="payload-not-bytes")
    if n < 1:
        raise AnalysisError("C02.R13: the payload read (np.fromfile … .view) of the patch data file was not found")


def rule_r14(prog, res) -> None:
    """the centres a catalog hands out (to assign the records of another catalog to their nearest centre) are in patch-id order: the getters enumerate the patches in one order, not in worker arrival order (= C12.R4)"""
    from . import c12
    from .common import shared_rule

    shared_rule(res, c12.rule_r4, "C12", "C12.R4", "C02.R14")


RULES = [
    ("C02.R1", rule_r1, QUICK),
    ("C02.R2", rule_r2, QUICK),
    ("C02.R3", rule_r3, QUICK),
    ("C02.R4", rule_r4, QUICK),
    ("C02.R5", rule_r5, QUICK),
    ("C02.R6", rule_r6, QUICK),
    ("C02.R7", rule_r7, QUICK),
    ("C02.R8", rule_r8, QUICK),
    ("C02.R9", rule_r9, QUICK),
    ("C02.R10", rule_r10, QUICK),
    ("C02.R11", rule_r11, QUICK),
    ("C02.R13", rule_r13, QUICK),
    ("C02.R14", rule_r14, QUICK),
]
