"""Helpers shared by the rule modules: role discovery and path-sensitive reachability."""

from __future__ import annotations

import ast

from ..cfg import CFG, Node, cfg_of
from ..effects import Effect, Summaries, Unknown, classify_call, eval_test, path_leaf, summaries
from ..model import (
    AnalysisError,
    ClassInfo,
    External,
    FuncInfo,
    Program,
    dotted,
    norm_stmt,
    unparse,
    walk_no_nested,
)

QUICK = ("quick", "thorough")
THOROUGH = ("thorough",)


def parents_map(root: ast.AST) -> dict[int, ast.AST]:
    pm: dict[int, ast.AST] = {}
    for p in ast.walk(root):
        for c in ast.iter_child_nodes(p):
            pm[id(c)] = p
    return pm


def enclosing_stmt(fi: FuncInfo, node: ast.AST) -> ast.AST:
    pm = parents_map(fi.node)
    cur = node
    while id(cur) in pm and not isinstance(cur, ast.stmt):
        cur = pm[id(cur)]
    return cur


def calls_in(fi: FuncInfo):
    for x in walk_no_nested(fi.node):
        if isinstance(x, ast.Call):
            yield x


def resolves_to_class(prog: Program, fi: FuncInfo, expr: ast.AST, name: str) -> bool:
    env = prog.func_env(fi)
    for t in env.type_of(expr):
        if t[0] == "type" and t[1].name == name:
            return True
    return (dotted(expr) or "").split(".")[-1] == name


def is_sentinel_put(prog: Program, fi: FuncInfo, call: ast.Call) -> bool:
    effs = classify_call(prog, fi, call)
    if not any(e.kind == "ipc" and e.op == "queue.put" for e in effs):
        return False
    return bool(call.args) and resolves_to_class(prog, fi, call.args[0], "EndOfQueue")


def catalog_marker_leaf(prog: Program) -> str:
    """Role: the file whose absence makes the catalog loader raise and whose content is the
    patch-id list (exists-test and read of the same leaf in one raising function)."""
    S = summaries(prog)
    hits = set()
    for fi in prog.funcs:
        if not fi.module.name.startswith("yaw.catalog"):
            continue
        ex, rd = set(), set()
        for e in S.direct(fi):
            if e.kind != "fs" or e.subject is None:
                continue
            leaf = path_leaf(prog, fi, e.subject, at=e.call)
            if leaf is None:
                continue
            if e.op == "exists":
                ex.add(leaf)
            elif e.op == "read":
                rd.add(leaf)
        both = ex & rd
        if both and any(isinstance(x, ast.Raise) for x in walk_no_nested(fi.node)):
            hits |= both
    if len(hits) > 1:
        # … and which a context manager writes when it is left (the writer's finalisation)
        written = set()
        for ci in prog.classes:
            ex = ci.methods.get("__exit__")
            if ex is None:
                continue
            for e, f in S.may(ex):
                if e.kind == "fs" and e.op in ("write", "rename", "replace") and e.subject is not None:
                    leaf = path_leaf(prog, f, e.subject, at=e.call)
                    if leaf is not None:
                        written.add(leaf)
        hits &= written
    if len(hits) != 1:
        raise AnalysisError(f"cannot identify the catalog marker file by role (candidates: {sorted(hits)})")
    return hits.pop()


def exc_env(fi: FuncInfo, present: bool) -> dict:
    """Partial environment for the exception parameters of an ``__exit__`` method."""
    a = fi.node.args
    pos = [x.arg for x in [*a.posonlyargs, *a.args]][1:]
    val = "SOME" if present else None
    env = {p: val for p in pos[:3]}
    if a.vararg:
        n = max(0, 3 - len(pos))
        env[a.vararg.arg] = tuple([val] * n)
    return env


def pruned_reach(cfg: CFG, start: Node, env: dict, *, avoid=None, defs=None) -> set[int]:
    """Forward reachability where branch nodes contradicting `env` are not entered."""

    def blocked(n: Node) -> bool:
        if avoid is not None and avoid(n):
            return True
        if n.kind == "branch":
            try:
                v = eval_test(n.test.expr, env, defs)
            except Unknown:
                return False
            return bool(v) != bool(n.polarity)
        return False

    return cfg.reach([start], avoid=blocked)


def raise_dominated_by(cfg: CFG, branch: Node) -> list[Node]:
    out = []
    for n in cfg.nodes:
        if n.kind == "stmt" and isinstance(n.ast, ast.Raise) and cfg.dominates(branch, n):
            out.append(n)
    return out


def branch_nodes_of(cfg: CFG, test: Node) -> dict[bool, Node]:
    out = {}
    for j, lab in cfg.succ[test.id]:
        n = cfg.nodes[j]
        if n.kind == "branch":
            out[bool(n.polarity)] = n
    return out


def fmt_path(path) -> str:
    return " -> ".join(f"{'[' + lab + '] ' if lab else ''}{n.text()[:50]}" for n, lab in path)


def kwarg(call: ast.Call, name: str) -> ast.AST | None:
    for k in call.keywords:
        if k.arg == name:
            return k.value
    return None


def mentions_name(expr: ast.AST, names) -> bool:
    names = set(names)
    return any(isinstance(x, ast.Name) and x.id in names for x in ast.walk(expr))


def attr_names(expr: ast.AST) -> set[str]:
    return {x.attr for x in ast.walk(expr) if isinstance(x, ast.Attribute)}


def shared_rule(res, fn, from_prop: str, from_rule: str, to_rule: str) -> None:
    """run a rule that belongs to another property and re-label its obligations / findings"""
    sub = type(res)(from_prop, res.prog, res.tier)
    fn(res.prog, sub)
    for o in sub.obligations:
        o.rule = to_rule
        res.obligations.append(o)
        res.count(to_rule)
    for f in sub.findings:
        f.prop, f.rule = res.prop, to_rule
        f.key = f.key.replace(from_rule, to_rule, 1)
        res.findings.append(f)
    res.functions_analysed |= sub.functions_analysed


def single_def_resolver(fn: ast.AST):
    """defs-callback for eval_test: the single `name = expr` definition of a local."""
    from ..dataflow import all_def_values

    def defs(name: str):
        vals = all_def_values(fn, name)
        if len(vals) == 1 and vals[0] is not None:
            return vals[0]
        return None

    return defs


def eq_covers_slots(prog: Program, res, rule: str, ci: ClassInfo, *, exceptions: dict | None = None) -> None:
    """generic rule: __eq__ of a slotted class reads every slot (directly, through a loop over
    __slots__/to_dict, or through a property that reads it)."""
    exceptions = exceptions or {}
    eq = ci.methods.get("__eq__")
    if eq is None:
        eq = prog.find_method(ci, "__eq__")
    if eq is None:
        raise AnalysisError(f"{rule}: {ci.name} has no __eq__")
    slots = [s for s in (ci.slots or []) if not s.startswith("__")]
    if not slots:
        slots = [a for a in ci.class_ann if not a.startswith("_")]
    if not slots:
        raise AnalysisError(f"{rule}: cannot determine the data attributes of {ci.name}")
    res.touch(eq)
    read = set()
    generic = False
    for x in walk_no_nested(eq.node):
        if isinstance(x, ast.Attribute):
            read.add(x.attr)
            m = prog.find_method(ci, x.attr)
            if m is not None and (m.is_property or isinstance(getattr(x, "ctx", None), ast.Load)):
                for y in walk_no_nested(m.node):
                    if isinstance(y, ast.Attribute) and isinstance(y.value, ast.Name) and y.value.id == "self":
                        read.add(y.attr)
                        m2 = prog.find_method(ci, y.attr)
                        if m2 is not None:
                            for z in walk_no_nested(m2.node):
                                if isinstance(z, ast.Attribute) and isinstance(z.value, ast.Name) and z.value.id == "self":
                                    read.add(z.attr)
                    if isinstance(y, ast.Attribute) and y.attr == "__slots__":
                        generic = True
        if isinstance(x, ast.Attribute) and x.attr == "__slots__":
            generic = True
    missing = [s for s in slots if s not in read and s not in exceptions and not generic]
    if missing:
        res.violation(rule, eq, eq.node, f"{ci.name}.__eq__ does not compare attribute(s) {missing}: objects differing only there compare equal", key_extra=f"eq-misses-{'-'.join(missing)}")
    else:
        res.ok(rule, res.site(eq), f"__eq__ reads all of {slots}" + (f" (frozen exceptions: {sorted(exceptions)})" if exceptions else ""))
