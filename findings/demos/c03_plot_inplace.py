import numpy as np, matplotlib
matplotlib.use("Agg")
from yaw.binning import Binning
from yaw.correlation.corrdata import CorrData
b = Binning(np.linspace(0.1, 1.0, 4))
rng = np.random.default_rng(1)
cd = CorrData(b, rng.normal(size=3), rng.normal(size=(5, 3)))
before = cd.data.copy()
cd.plot(scale_dz=True)
print("before", before, "after", cd.data)
raise SystemExit(0 if np.array_equal(before, cd.data) else 1)
