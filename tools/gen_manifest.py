#!/venv/bin/python
"""Regenerates /verif/MANIFEST.json from the table below (development helper).
A property is listed as a check only if yawsa/rules/<id>.py exists."""
import json
import os
import subprocess

HERE = os.path.dirname(os.path.dirname(os.path.abspath(__file__)))
PY = "/venv/bin/python"

CLAIMS = {
    "C01": dict(
        technique="affine/provenance analysis of the patch-link threshold, abstract evaluation-point domain for the pruning angle, flag/def-use agreement and unit typing on the pair-count path",
        text="Decides statically, on the current source, the structural clauses of DESIGN.md §3 C01: the pruning threshold contains every catalog's radii and a pruning angle that covers every counting angle, count/dispatch flag agreement, chord/angle unit typing, bin-index and catalog-side consistency. These are necessary conditions of exact and complete pair counts; the numerical equality of counts is NOT decided.",
    ),
    "C02": dict(
        technique="affine slice normal forms + CFG must-pass-through + writer/reader table agreement + sibling diff of the three ingest pipelines",
        text="Decides the structural obligations of the ingest pipeline (reader slice arithmetic tiles the input, header/field tables agree, every writer closed and flushed before the marker, blocking hand-over before the sentinel, degrees flag forwarded, sibling agreement). Necessary conditions of 'every record exactly once'; bit-identity is NOT decided.",
    ),
    "C03": dict(
        technique="twin-path isomorphism (value vs. samples expressions) + arrival-order taint + einsum axis-role typing",
        text="Decides that value and jackknife samples are produced by the same formula at every (data, samples) construction site, that samples are placed by patch key, and the einsum axis roles of the leave-one-out sums. The leave-one-out identity itself is NOT decided.",
    ),
    "C04": dict(
        technique="polynomial/rational normal forms of the estimator and n(z) return expressions compared with the documented formulas; control dependence of the estimator choice",
        text="Decides by canonicalisation that the estimator / n(z) / normalisation expressions are algebraically the documented formulas on every None-default path, and that the estimator choice depends exactly on the presence of RR. The ½(Σw)² identity is NOT decided.",
    ),
    "C05": dict(
        technique="arrival-order taint analysis from every unordered parallel map to positional sinks; per-task effect disjointness; worker-count taint",
        text="Decides for every consumer of the unordered parallel map that no result is placed, reduced or exposed by arrival position (keyed placement or sorted barrier required), that worker callables write only below their own patch directory, and that the worker count reaches nothing but the pool size.",
    ),
    "C06": dict(
        technique="MPI protocol rules on the mpi variant: control dependence of collectives, tag/communicator matching tables, wildcard-receive sentinel discipline, exhaustion, counter discipline, broadcast-before-use",
        text="Decides protocol-shape rules on the MPI arm that no test in this sandbox can execute (mpi4py absent). Equality with the single-process result and general deadlock freedom are NOT decided.",
    ),
    "C07": dict(
        technique="eq-covers-slots + writer/reader table agreement of the binning marker + build-before-count typestate over the measurement entry points",
        text="Decides that the reuse predicate compares every attribute the cached trees depend on, that the marker file persists exactly those attributes, and that every pair count is dominated by a tree build with the role-correct binning from the same configuration.",
    ),
    "C08": dict(
        technique="file-system effect ordering on CFG paths (marker-last, invalidate-before-overwrite, read-requires-marker, empty marker not consumable)",
        text="Decides the ordering core of crash consistency: for each (marker, guarded content) pair every crash point between two effects leaves a state that lacks the marker or is complete. Atomicity inside one h5py/yaml/pickle write is NOT decided.",
    ),
    "C09": dict(
        technique="CFG with exception edges: must-pass-through of sentinel/terminate between process start and join, exit-status test, rmtree dominance guard, path-sensitive __exit__ analysis, validation must-calls",
        text="Decides the structural core of fail-stop creation (no path to join without releasing the writer, writer failure not dropped, rmtree only behind a raising catalog-marker test, marker unreachable on the failure exit, validation calls on every chunk, centres paired by id or guarded). No time bound is decided.",
    ),
    "C10": dict(
        technique="closed-side data dependence at every bin-assignment API site, definite assignment on empty-bin paths, parameter liveness config -> build_trees -> Binning",
        text="Decides that every redshift->bin assignment site takes its inner-edge side from Binning.closed, that empty bins/patches cannot hit an unbound variable, and that the closed side flows from the configuration into every tree build.",
    ),
    "C11": dict(
        technique="writer/reader table agreement (HDF5 names, dict keys vs. constructor parameters, text column arity), fixed-table zip alignment, rank-stable loading",
        text="Decides agreement of the writer and reader tables of every persisted product. Float formatting precision is NOT decided.",
    ),
    "C12": dict(
        technique="def-use agreement of stored centre and radius reference, dominance of id-set and alignment guards over the linkage computation",
        text="Decides that the radius is measured against the centre that is stored, that centres are paired with patches by id or guarded, and that the id-set and alignment guards dominate linkage. Numerical containment is NOT decided.",
    ),
    "C13": dict(
        technique="homogeneity typing (degree of every stored / derived quantity in each catalog's weights) on the symbolic store: sums of weights degree one, pair counts and the product of the sums bilinear, normalised counts / estimates / normalised n(z) degree zero",
        text="Decides ONE clause of the property, the invariance under a positive rescaling of the weights of a catalog, as a property of the expressions: every quantity that must not change is homogeneous of degree zero in each catalog's weights (DESIGN.md §8.14). Rotations, row order, patch relabelling and additivity under catalog splits relate two complete numerical runs and are NOT decided.",
    ),
    "C15": dict(
        technique="attribute/keyword existence (totality) on config classes, resolved-cosmology provenance, key-protocol of modify/from_dict, signature agreement, immutability effects, endpoint exactness domain",
        text="Decides totality of __eq__/modify/create/from_dict on their documented domain, that the resolved cosmology reaches every bin-edge factory call, create/modify signature agreement, no mutation of self, and exactness of the outer bin edges. Bin-edge numerics are NOT decided.",
    ),
    "C16": dict(
        technique="RNG effect discipline (all draws through the seeded generator), reseed dominance, single-index joint draw, last-chunk affine form, unit typing",
        text="Decides that all randomness goes through the seeded generator object, that a reseed dominates every pass, that weights and redshifts are indexed by one draw, and the last-chunk size arithmetic. Uniformity and window containment are NOT decided.",
    ),
    "C17": dict(
        technique="attribute/keyword existence on every operator and indexer path, array-rank abstract interpretation through the indexers, dominance of compatibility checks, eq-covers-slots, rank-guard constant folding",
        text="Decides that operator and indexer methods are total on the documented operand kinds, that a raising compatibility check dominates every binary operator, and that __eq__ covers all slots. Algebraic laws between results are NOT decided.",
    ),
    "C18": dict(
        technique="source-access use-site classification in the readers, affine slice width/consecutiveness, pass counting in the from_* constructors",
        text="Decides that the readers touch the input only through len/metadata/bounded slices/row-group reads, that slice width equals the chunk size and slices are consecutive, and that there is exactly one ingest pass plus at most one guarded probe pass.",
    ),
}

NOT_APPLICABLE = {
    "C14": "explicit floating-point error bounds of the spherical primitives at poles / RA wrap / antipodes need a floating-point error analysis (interval or affine arithmetic over libm) that an ast-level analysis cannot provide and that is not installed (DESIGN.md §3 C14)",
}

PENDING_REASON = "static check for this property is not built yet in this tree (see DESIGN.md §3 for the planned rules); nothing is claimed"


def main() -> None:
    props = [json.loads(line)["id"] for line in open(os.path.join(HERE, "properties.jsonl"))]
    checks, na = [], []
    for p in props:
        have = os.path.exists(os.path.join(HERE, "yawsa", "rules", f"{p.lower()}.py"))
        if p in CLAIMS and have:
            c = CLAIMS[p]
            checks.append(
                {
                    "property_id": p,
                    "quick_cmd": f"{PY} -m yawsa check {p} --tier quick",
                    "thorough_cmd": f"{PY} -m yawsa check {p} --tier thorough",
                    "evidence_file": f"evidence/{p}.json",
                    "replay_cmd_template": f"{PY} -m yawsa replay {{path}}",
                    "engine": "yawsa",
                    "level_claimed": {
                        "category": "other",
                        "text": "Static analysis (no execution of yaw, no solver). " + c["text"],
                        "design_ref": f"DESIGN.md §3 {p}",
                    },
                    "level_note": "Trusted base: Python's ast parser; the hand-written semantics tables for numpy/scipy/h5py/pickle/multiprocessing/mpi4py calls in yawsa/effects.py and the rule modules; the CFG's may-raise model (calls, subscripts, raise, assert, import, for-headers, with enter/exit). A pass means the named structural clauses hold on the current source, not that the behaviour is proved.",
                    "technique": "static analysis: " + c["technique"] + "; plus the generic rule R0 over every function of the anchored files (compiler symbol tables for name binding, attribute existence on receivers of inferred package types, signature fit of resolved internal calls, ignored parameters, flow between sibling roles, optional-member guards)",
                }
            )
        elif p in NOT_APPLICABLE:
            na.append({"property_id": p, "reason": NOT_APPLICABLE[p]})
        else:
            na.append({"property_id": p, "reason": PENDING_REASON})
    try:
        fixes = subprocess.run(
            ["git", "-C", "/repo", "log", "--format=%h %s", "--grep=^fix:"], capture_output=True, text=True
        ).stdout.strip().splitlines()
    except Exception:
        fixes = []
    m = {
        "version": 1,
        "setup_cmd": f"{PY} -m compileall -q yawsa",
        "hooks": {
            "guard": "YAW_VERIF",
            "enable": "no hooks: the checks parse /repo/src/yaw from the working tree and need nothing compiled into the repository; the guard variable exists only to satisfy the interface and guards nothing",
            "baseline_off_cmd": "cd /repo && /venv/bin/python -m pytest -ra -q -p no:cacheprovider --timeout=900 --continue-on-collection-errors",
            "source_commits": [f.split()[0] for f in fixes],
            "add_only": True,
        },
        "engines": [
            {
                "name": "yawsa",
                "path": "yawsa/",
                "serves_properties": [c["property_id"] for c in checks],
                "kind_free_text": "repository-specific static analyser on Python's ast: program model with MPI/multiprocessing variants, resolved call graph, per-function CFG with exception edges, dataflow, effect tables, small abstract interpreters",
            }
        ],
        "checks": checks,
        "notes": "All checks are static analysis of /repo/src/yaw as it is on disk at run time (exit 0 held / 1 VIOLATION / 2 ANALYSIS-ERROR). source_commits lists the unguarded 'fix:' commits (genuine defects repaired, see known_findings.json); there are no hook commits. thorough = quick + package-wide generic rules + checker self-validation on mutated scratch copies.",
        "not_applicable": na,
    }
    with open(os.path.join(HERE, "MANIFEST.json"), "w") as f:
        json.dump(m, f, indent=1)
    print("checks:", [c["property_id"] for c in checks])
    print("n/a   :", [x["property_id"] for x in na])


if __name__ == "__main__":
    main()
