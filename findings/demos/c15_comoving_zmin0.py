"""Defect #32 (C15): Configuration.create(zmin=0, method="comoving") raised CosmologyError because the (known) outer
edges were also obtained by inverting the comoving distance, which astropy cannot do at z=0.
Development aid only (not a registered check). Exit 0 = behaviour correct."""
import sys

from yaw import Configuration

try:
    e = Configuration.create(rmin=100, rmax=1000, zmin=0.0, zmax=1.0, num_bins=5, method="comoving").binning.edges
except Exception as err:  # noqa: BLE001
    print("FAIL:", type(err).__name__, str(err)[:200])
    sys.exit(1)
ok = len(e) == 6 and e[0] == 0.0 and e[-1] == 1.0 and all(a < b for a, b in zip(e, e[1:]))
print("ok" if ok else "FAIL", e)
sys.exit(0 if ok else 1)
