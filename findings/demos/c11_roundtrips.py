"""Reproducers for findings #19 (CorrFunc HDF5 names), #5/#6 (BinningConfig custom edges through
from_dict / modify), #7 (Configuration.modify ignores its cosmology), #23 (one-bin text products),
#4 (ScalesConfig.__eq__), #25 (outer bin edges not exact).  exit 1 = defect"""
import os, sys, tempfile, shutil
os.environ["YAW_NUM_THREADS"] = "1"
import numpy as np
rc = 0
tmp = tempfile.mkdtemp(prefix="yawdemo_")
def attempt(label, f, check=None):
    global rc
    try:
        r = f()
        if check is not None and not check(r):
            print("DEFECT:", label, "-> wrong result", r if not hasattr(r, "shape") else ""); rc = 1
        else:
            print("ok    :", label)
    except Exception as e:
        print("DEFECT:", label, "->", type(e).__name__, str(e)[:100]); rc = 1
try:
    from yaw.binning import Binning
    from yaw.correlation.paircounts import PatchedCounts, PatchedSumWeights, NormalisedCounts
    from yaw.correlation.corrfunc import CorrFunc
    from yaw.correlation.corrdata import CorrData
    from yaw.config import Configuration, BinningConfig, ScalesConfig
    import astropy.cosmology
    b = Binning([0.1, 0.5, 1.0]); rng = np.random.default_rng(0)
    def nc(scale):
        c = PatchedCounts(b, scale * rng.uniform(1, 2, (2, 3, 3)), auto=False)
        s = PatchedSumWeights(b, rng.uniform(1, 2, (2, 3)), rng.uniform(1, 2, (2, 3)), auto=False)
        return NormalisedCounts(c, s)
    dd, rd, rr = nc(1), nc(10), nc(100)
    cf = CorrFunc(dd, None, rd, rr)
    p = os.path.join(tmp, "cf.hdf")
    def hdf():
        cf.to_file(p); back = CorrFunc.from_file(p)
        return back
    attempt("CorrFunc(dd, rd, rr) HDF5 round trip", hdf, lambda r: r == cf and r.dr is None and r.rd == rd)
    cfg = BinningConfig.create(edges=[0.1, 0.3, 0.9], closed="left")
    attempt("BinningConfig custom edges to_dict -> from_dict", lambda: BinningConfig.from_dict(cfg.to_dict()), lambda r: r == cfg)
    attempt("BinningConfig custom edges modify(closed=right)", lambda: cfg.modify(closed="right"), lambda r: np.array_equal(r.edges, cfg.edges) and r.closed == "right")
    full = Configuration.create(rmin=100, rmax=1000, zmin=0.1, zmax=1.0, num_bins=4, method="comoving", cosmology="WMAP9")
    ref = Configuration.create(rmin=100, rmax=1000, zmin=0.1, zmax=1.0, num_bins=5, method="comoving", cosmology="WMAP9")
    attempt("Configuration.modify(num_bins=5) keeps WMAP9 for the bin edges", lambda: full.modify(num_bins=5), lambda r: np.array_equal(r.binning.edges, ref.binning.edges))
    one = Binning([0.1, 1.0])
    cd = CorrData(one, np.array([1.5]), np.array([[1.4], [1.6], [1.5]]))
    def txt():
        cd.to_files(os.path.join(tmp, "one")); return CorrData.from_files(os.path.join(tmp, "one"))
    attempt("one-bin CorrData text round trip", txt, lambda r: r == cd)
    s1 = ScalesConfig.create(rmin=100, rmax=1000); s2 = ScalesConfig.create(rmin=100, rmax=1000)
    attempt("ScalesConfig == equal ScalesConfig", lambda: s1 == s2, lambda r: r is True)
    for method in ("linear", "comoving", "logspace"):
        bc = BinningConfig.create(zmin=0.07, zmax=1.41, num_bins=7, method=method)
        attempt(f"{method}: edges span exactly [zmin, zmax]", lambda: (bc.zmin, bc.zmax), lambda r: r == (0.07, 1.41))
finally:
    shutil.rmtree(tmp, ignore_errors=True)
sys.exit(rc)
