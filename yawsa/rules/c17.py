"""C17 — pair-count and data containers obey their documented algebra and indexing.

R1 operator / indexer / accessor methods are total: every attribute read on self (or an
   isinstance-narrowed operand) exists, every keyword handed to a resolved constructor is accepted.
R2 array-rank typing through the indexers for index kinds {int, slice}: the arrays handed to the
   constructor satisfy the class's own rank invariants.
R3 a raising compatibility check dominates every binary operator result; is_compatible(require=True)
   cannot return False.
R4 __eq__ covers all data slots.
R5 rank guards of the constructors are effective (constant-folded over ranks 0..4).
R7 symbolic axis typing through the indexers (shapes with the axis symbols the constructor relates).
"""

from __future__ import annotations

import ast
import itertools

from ..cfg import cfg_of
from ..effects import Unknown, ceval
from ..model import AnalysisError, ClassInfo, FuncInfo, dotted, norm_stmt, unparse, walk_no_nested
from ..totality import bad_arguments, missing_attributes
from .common import QUICK, THOROUGH, branch_nodes_of, calls_in, eq_covers_slots, kwarg, pruned_reach, raise_dominated_by

EXPLANATION = (
    "Static analysis of the container classes (pair counts, correlation functions, sampled data, binning) on /repo's "
    "current source. R1 resolves every attribute read on `self` and on operands narrowed by isinstance(other, "
    "type(self)) against the class's attribute table (methods, properties, slots, instance stores, bases) for every "
    "concrete subclass, and every keyword of a call whose callee resolves to an in-repo constructor against that "
    "constructor's signature; a miss is a definite AttributeError/TypeError for all operands. R2 interprets the "
    "indexer methods over the abstract domain of array ranks with numpy's basic/advanced indexing rules for the two "
    "documented index kinds. R3/R5 are dominance and constant-folding rules on the guards. R4 is eq-covers-slots."
    " Later rounds: R6-R9 (no aliasing through non-copying constructors, symbolic axis typing of the indexers, derived containers keep their state, iterators restart); R10 (edges of a bin selection = left edges + last right edge); R11 (constructor shape witnesses, frozen from the pinned tree); R12 (operators combine members with the operation they are named after); R13 (size properties read a non-bin axis); R14 (CorrFunc members are checked against dd with require=True); R3/R4 also demand that partial verdicts are joined by `and`, that guards raise for DIFFERENT operands, that overrides honour their base class's verdict, and that __eq__ is reflexive (also in its loop form)."
)
ASSUMPTIONS = [
    "numpy indexing: a slice keeps an axis, an integer drops it, all advanced (list/array) indices are broadcast together into ONE axis",
    "np.atleast_kd raises the rank to at least k; .T, astype, copy keep the rank",
    "class attribute tables: methods, properties, annotations, __slots__, instance stores incl. object.__setattr__/setattr over __slots__, stdlib bases via dir()",
]

CONTAINER_MODULES = ("yaw.correlation.paircounts", "yaw.correlation.corrfunc", "yaw.correlation.corrdata", "yaw.redshifts", "yaw.binning", "yaw.utils.abc")


def _containers(prog) -> list[ClassInfo]:
    out = [c for c in prog.classes if c.module.name in CONTAINER_MODULES]
    if len(out) < 12:
        raise AnalysisError(f"C17: only {len(out)} container classes found")
    return out


def rule_r1(prog, res) -> None:
    """totality of operator / indexer / accessor methods"""
    n = 0
    scope = _containers(prog)
    funcs = [m for c in scope for m in c.methods.values()]
    if res.tier == "thorough":
        funcs = [f for f in prog.funcs if f.cls is not None]
    for m in funcs:
        n += 1
        res.touch(m)
        hits = missing_attributes(prog, m)
        probs = [(c, lab, pr) for c in calls_in(m) for lab, pr in bad_arguments(prog, m, c)]
        if not hits and not probs:
            res.ok("C17.R1", res.site(m), "all attribute reads on self/narrowed operands and all constructor keywords resolve", nontrivial=False)
        for x, recv, attr, lacking in hits:
            res.violation(
                "C17.R1",
                m,
                x,
                f"{recv}.{attr} does not exist on {', '.join(c.name for c in lacking)} (no method, property, slot or instance store): "
                f"{m.cls.name}.{m.name} raises AttributeError for every operand",
                construct=f"{recv}.{attr}",
                key_extra=f"missing-attr-{attr}",
            )
        for c, lab, pr in probs:
            res.violation("C17.R1", m, c, f"call of {lab}: {pr} — {m.cls.name}.{m.name} raises TypeError for every operand", key_extra=f"bad-call-{lab}-{pr[:30]}")
    if n < 25:
        raise AnalysisError(f"C17.R1: only {n} container methods analysed, minimum 25")


# ----------------------------------------------------------------------------- ranks


def _ctor_node(prog, ci: ClassInfo):
    """the constructor with its private helpers (e.g. an extracted shape check) expanded in place"""
    init = prog.find_method(ci, "__init__")
    if init is None:
        return None
    try:
        from ..inline import inlined

        return inlined(prog, init).node
    except Exception:  # noqa: BLE001
        return init.node


def _holds_after(test: ast.AST) -> list:
    """equalities (left, right) that are known to hold when a raising test did NOT fire:
    `a != b` -> a == b;  `not (a == b and c == d)` -> both;  `a != b or c != d` -> both;  `not a == b` -> a == b"""
    if isinstance(test, ast.Compare) and len(test.ops) == 1 and isinstance(test.ops[0], ast.NotEq):
        return [(test.left, test.comparators[0])]
    if isinstance(test, ast.BoolOp) and isinstance(test.op, ast.Or):
        out = []
        for v in test.values:
            out += _holds_after(v)
        return out
    if isinstance(test, ast.UnaryOp) and isinstance(test.op, ast.Not):

        def conj(x):
            if isinstance(x, ast.BoolOp) and isinstance(x.op, ast.And):
                r = []
                for v in x.values:
                    r += conj(v)
                return r
            if isinstance(x, ast.Compare) and len(x.ops) == 1 and isinstance(x.ops[0], ast.Eq):
                return [(x.left, x.comparators[0])]
            return []

        return conj(test.operand)
    return []


def _ctor_equalities(node) -> list:
    out = []
    for x in walk_no_nested(node):
        if isinstance(x, ast.If) and any(isinstance(s_, ast.Raise) for s_ in x.body):
            out += _holds_after(x.test)
    return out


def class_rank_invariants(prog, ci: ClassInfo) -> dict[str, int]:
    """attr -> required rank, read from the constructor's own raising checks (helpers looked through, any
    logically equivalent spelling of the test)"""
    node = _ctor_node(prog, ci)
    out: dict[str, int] = {}
    if node is None:
        return out
    param_rank: dict[str, int] = {}
    for l, r in _ctor_equalities(node):
        for a_, b_ in ((l, r), (r, l)):
            if isinstance(a_, ast.Attribute) and a_.attr == "ndim" and isinstance(b_, ast.Constant) and isinstance(b_.value, int):
                param_rank[unparse(a_.value)] = b_.value
            if isinstance(a_, ast.Attribute) and a_.attr == "shape" and isinstance(b_, ast.Tuple):
                param_rank[unparse(a_.value)] = len(b_.elts)
    for x in walk_no_nested(node):
        if isinstance(x, ast.Assign):
            for t in x.targets:
                if isinstance(t, ast.Attribute) and isinstance(t.value, ast.Name) and t.value.id == "self":
                    if f"self.{t.attr}" in param_rank:
                        out[t.attr] = param_rank[f"self.{t.attr}"]
                    for nm in [y.id for y in ast.walk(x.value) if isinstance(y, ast.Name)]:
                        if nm in param_rank:
                            out[t.attr] = param_rank[nm]
    # parameter name -> rank, for positional/keyword checking of constructor calls
    out.update({f"<param>{k}": v for k, v in param_rank.items() if "." not in k})
    return out


def rank_of_index(rank: int, index: ast.AST, kinds: dict[str, str]) -> int:
    """rank after numpy indexing; kinds maps local names to 'int' | 'slice' | 'list'"""
    elts = index.elts if isinstance(index, ast.Tuple) else [index]

    def kind(e) -> str:
        if isinstance(e, ast.Slice):
            return "slice"
        if isinstance(e, ast.Name) and e.id in kinds:
            return kinds[e.id]
        if isinstance(e, (ast.List, ast.ListComp)):
            return "list"
        if isinstance(e, ast.Constant) and isinstance(e.value, int):
            return "int"
        if isinstance(e, ast.Constant) and e.value is None or (isinstance(e, ast.Attribute) and e.attr == "newaxis"):
            return "newaxis"
        if isinstance(e, ast.Constant) and e.value is Ellipsis:
            return "ellipsis"
        raise Unknown(f"index {unparse(e)}")

    ks = [kind(e) for e in elts]
    consumed = sum(1 for k in ks if k in ("slice", "int", "list"))
    if consumed > rank:
        raise Unknown("too many indices")
    kept = sum(1 for k in ks if k == "slice") + (rank - consumed) + sum(1 for k in ks if k == "newaxis")
    adv = 1 if any(k == "list" for k in ks) else 0
    return kept + adv


def rule_r2(prog, res) -> None:
    """rank typing through the indexers for index kinds {int, slice}"""
    n = 0
    for ci in _containers(prog):
        inv = class_rank_invariants(prog, ci)
        if not inv:
            continue
        for mname in ("_make_bin_slice", "_make_patch_slice"):
            m = ci.methods.get(mname)
            if m is None:
                continue
            item = m.param_names()[1]
            for idx_kind in ("int", "slice"):
                n += 1
                res.touch(m)
                try:
                    bad = _interp_indexer(prog, ci, m, item, idx_kind, inv)
                except Unknown as err:
                    raise AnalysisError(f"C17.R2: cannot interpret {m.short} for an {idx_kind} index ({err})")
                site = res.site(m, f"index kind {idx_kind}")
                if bad and bad[2] == -1:
                    node, attr, _, _ = bad
                    res.violation("C17.R2", m, node, f"the selection hands the wrong array to the constructor ({attr}): the sub-container mixes data of the two catalogs", key_extra=f"field-forwarding-{attr.split()[0]}")
                elif bad:
                    node, attr, got, want = bad
                    res.violation(
                        "C17.R2",
                        m,
                        node,
                        f"for an {idx_kind} index the array handed on as '{attr}' has rank {got}, the constructor of {ci.name} requires rank {want}: "
                        "indexing / iterating single items raises ValueError",
                        key_extra=f"rank-{attr}-{idx_kind}",
                    )
                else:
                    res.ok("C17.R2", site, "all arrays handed to the constructor have the rank it requires")
    if n < 8:
        raise AnalysisError(f"C17.R2: only {n} (indexer, index kind) instances interpreted, minimum 8")


def _interp_indexer(prog, ci, m: FuncInfo, item: str, idx_kind: str, inv: dict):
    kinds = {item: idx_kind}
    ranks: dict[str, int] = {f"self.{a}": r for a, r in inv.items() if not a.startswith("<param>")}
    problem = []

    def rank_expr(e) -> int | None:
        if isinstance(e, ast.Subscript):
            base = rank_expr(e.value)
            if base is None:
                return None
            return rank_of_index(base, e.slice, kinds)
        if isinstance(e, ast.Attribute):
            t = unparse(e)
            if t in ranks:
                return ranks[t]
            if e.attr == "T":
                return rank_expr(e.value)
            return None
        if isinstance(e, ast.Name):
            return ranks.get(e.id)
        if isinstance(e, ast.Call):
            fn = (dotted(e.func) or "").split(".")[-1]
            if fn in ("atleast_1d", "atleast_2d", "atleast_3d") and e.args:
                r = rank_expr(e.args[0])
                return None if r is None else max(r, int(fn[8]))
            if fn in ("asarray", "array", "copy", "ascontiguousarray") and e.args:
                return rank_expr(e.args[0])
            if isinstance(e.func, ast.Attribute) and e.func.attr in ("astype", "copy"):
                return rank_expr(e.func.value)
            return None
        return None

    def check_ctor(call: ast.Call) -> None:
        init = prog.find_method(ci, "__init__")
        pos = [p.arg for p in init.node.args.args][1:]
        for i, a in enumerate(call.args):
            if i < len(pos) and f"<param>{pos[i]}" in inv:
                r = rank_expr(a)
                if r is not None and r != inv[f"<param>{pos[i]}"]:
                    problem.append((a, pos[i], r, inv[f"<param>{pos[i]}"]))
                # same-named forwarding: parameter p of the constructor receives a selection of self.p
                attrs = {x.attr for x in ast.walk(a) if isinstance(x, ast.Attribute) and isinstance(x.value, ast.Name) and x.value.id == "self"}
                if attrs and pos[i] not in attrs and pos[i] in inv:
                    problem.append((a, f"{pos[i]} <- self.{sorted(attrs)[0]}", -1, -1))
        for k in call.keywords:
            if k.arg and f"<param>{k.arg}" in inv:
                r = rank_expr(k.value)
                if r is not None and r != inv[f"<param>{k.arg}"]:
                    problem.append((k.value, k.arg, r, inv[f"<param>{k.arg}"]))

    def block(stmts) -> None:
        for st in stmts:
            if isinstance(st, ast.If):
                t = st.test
                # isinstance(item, int) / isinstance(item, (int, np.integer, slice))
                val = None
                if isinstance(t, ast.Call) and isinstance(t.func, ast.Name) and t.func.id == "isinstance" and isinstance(t.args[0], ast.Name) and t.args[0].id == item:
                    names = {(dotted(x) or "").split(".")[-1] for x in (t.args[1].elts if isinstance(t.args[1], ast.Tuple) else [t.args[1]])}
                    val = (kinds[item] == "int" and bool(names & {"int", "integer"})) or (kinds[item] == "slice" and "slice" in names)
                elif isinstance(t, ast.UnaryOp) and isinstance(t.op, ast.Not) and isinstance(t.operand, ast.Call) and isinstance(t.operand.func, ast.Name) and t.operand.func.id == "isinstance":
                    tt = t.operand
                    names = {(dotted(x) or "").split(".")[-1] for x in (tt.args[1].elts if isinstance(tt.args[1], ast.Tuple) else [tt.args[1]])}
                    val = not ((kinds[item] == "int" and bool(names & {"int", "integer"})) or (kinds[item] == "slice" and "slice" in names))
                else:
                    env = {f"{k}.ndim": v for k, v in ranks.items()}
                    val = bool(ceval(t, env))
                block(st.body if val else st.orelse)
            elif isinstance(st, ast.Assign) and len(st.targets) == 1:
                tgt, v = st.targets[0], st.value
                if isinstance(tgt, ast.Name) and tgt.id == item:
                    if isinstance(v, ast.List):
                        kinds[item] = "list"
                    else:
                        raise Unknown(f"rebinding of {item}")
                    continue
                r = rank_expr(v)
                key = unparse(tgt)
                if r is not None:
                    ranks[key] = r
                    # instance built with __new__: attribute must satisfy the class invariant
                    if isinstance(tgt, ast.Attribute) and tgt.attr in inv and isinstance(tgt.value, ast.Name) and tgt.value.id != "self":
                        ranks[f"<final>{tgt.attr}"] = r
                        ranks[f"<node>{tgt.attr}"] = st
                for c in [x for x in ast.walk(v) if isinstance(x, ast.Call)]:
                    if isinstance(c.func, ast.Call) and isinstance(c.func.func, ast.Name) and c.func.func.id == "type":
                        check_ctor(c)
            elif isinstance(st, ast.Return) and st.value is not None:
                for c in [x for x in ast.walk(st.value) if isinstance(x, ast.Call)]:
                    if isinstance(c.func, ast.Call) and isinstance(c.func.func, ast.Name) and c.func.func.id == "type":
                        check_ctor(c)
            elif isinstance(st, (ast.Expr, ast.Raise, ast.Pass)):
                if isinstance(st, ast.Raise):
                    return
            else:
                raise Unknown(f"statement {norm_stmt(st)}")

    block(m.node.body)
    for a, want in inv.items():
        if a.startswith("<"):
            continue
        got = ranks.get(f"<final>{a}")
        if got is not None and got != want:
            problem.append((ranks[f"<node>{a}"], a, got, want))
    return problem[0] if problem else None


# ----------------------------------------------------------------------------- symbolic shapes (axis typing)


def class_shape_invariants(prog, ci: ClassInfo) -> dict[str, tuple]:
    """attribute / constructor parameter -> tuple of axis symbols, read from the constructor's own raising checks
    (`x.shape != (a, b)`, `x.ndim != k`, `x.shape[i] != e`, `x.shape != y.shape`); axes that the constructor relates
    to each other or to a named size get the same symbol. Keys: attribute names and '<param>name'."""
    init = prog.find_method(ci, "__init__")
    if init is None:
        return {}
    init_node = _ctor_node(prog, ci) or init.node
    params = set(init.param_names())
    alias: dict[str, str] = {}  # 'self.attr' -> param name it is built from
    for x in walk_no_nested(init_node):
        if isinstance(x, ast.Assign):
            for t in x.targets:
                if isinstance(t, ast.Attribute) and isinstance(t.value, ast.Name) and t.value.id == "self":
                    src = [y.id for y in ast.walk(x.value) if isinstance(y, ast.Name) and y.id in params]
                    if len(src) == 1:
                        alias[f"self.{t.attr}"] = src[0]

    def base(e) -> str | None:
        t = unparse(e)
        if t in alias:
            return alias[t]
        if isinstance(e, ast.Name) and e.id in params:
            return e.id
        if t.startswith("self.") and t.count(".") == 1:
            return t  # attribute without a parameter of its own
        return None

    rank: dict[str, int] = {}
    parent: dict = {}

    def find(k):
        parent.setdefault(k, k)
        while parent[k] != k:
            parent[k] = parent[parent[k]]
            k = parent[k]
        return k

    def union(a, b):
        ra, rb = find(a), find(b)
        if ra != rb:
            # named sizes win over anonymous axes
            if isinstance(ra, tuple) and not isinstance(rb, tuple):
                parent[ra] = rb
            else:
                parent[rb] = ra

    def sym(e) -> object:
        """a size expression as a node of the union-find: ('x', i) for x.shape[i], else its text"""
        if isinstance(e, ast.Subscript) and isinstance(e.value, ast.Attribute) and e.value.attr == "shape":
            b = base(e.value.value)
            try:
                i = ceval(e.slice, {})
            except Unknown:
                return None
            return (b, i) if b is not None and isinstance(i, int) else None
        t = unparse(e)
        return t[5:] if t.startswith("self.") else t

    pending = []
    for l, r in _ctor_equalities(init_node):
        for a, b in ((l, r), (r, l)):
            if isinstance(a, ast.Attribute) and a.attr == "ndim" and isinstance(b, ast.Constant) and isinstance(b.value, int):
                if base(a.value) is not None:
                    rank[base(a.value)] = b.value
            if isinstance(a, ast.Attribute) and a.attr == "shape" and isinstance(b, ast.Tuple) and base(a.value) is not None:
                rank[base(a.value)] = len(b.elts)
                for i, el in enumerate(b.elts):
                    pending.append(((base(a.value), i), sym(el)))
        if isinstance(l, ast.Attribute) and l.attr == "shape" and isinstance(r, ast.Attribute) and r.attr == "shape":
            pending.append(("same", base(l.value), base(r.value)))
        elif isinstance(l, ast.Subscript) or isinstance(r, ast.Subscript):
            a, b = sym(l), sym(r)
            if a is not None and b is not None and (isinstance(a, tuple) or isinstance(b, tuple)):
                pending.append((a, b))
    for it in pending:
        if it[0] == "same":
            _, a, b = it
            if a is None or b is None:
                continue
            k = rank.get(a, rank.get(b))
            if k is None:
                continue
            rank.setdefault(a, k)
            rank.setdefault(b, k)
            for i in range(k):
                union((a, i), (b, i))
        else:
            a, b = it
            if a is not None and b is not None:
                union(a, b)
    out: dict[str, tuple] = {}
    for name, k in rank.items():
        dims = []
        for i in range(k):
            r_ = find((name, i))
            dims.append(r_ if isinstance(r_, str) else f"{r_[0].replace('self.', '')}#{r_[1]}")
        shape = tuple(dims)
        if name.startswith("self."):
            out[name[5:]] = shape
        else:
            out[f"<param>{name}"] = shape
            for attr, par in alias.items():
                if par == name:
                    out[attr[5:]] = shape
    return out


def shape_of(e: ast.AST, inv: dict, kinds: dict) -> tuple | None:
    """symbolic shape of an expression over the instance's arrays: numpy basic/advanced indexing (a slice keeps the
    axis — marked as selected unless it is the full slice —, an integer drops it, a list selects), .T, atleast_kd,
    copies; None when the expression is not understood"""
    if isinstance(e, ast.Attribute):
        if isinstance(e.value, ast.Name) and e.value.id == "self" and e.attr in inv:
            return inv[e.attr]
        if e.attr == "T":
            b = shape_of(e.value, inv, kinds)
            return None if b is None else tuple(reversed(b))
        return None
    if isinstance(e, ast.Subscript):
        b = shape_of(e.value, inv, kinds)
        if b is None:
            return None
        elts = e.slice.elts if isinstance(e.slice, ast.Tuple) else [e.slice]
        out, ax = [], 0
        for k, el in enumerate(elts):
            if isinstance(el, ast.Constant) and el.value is Ellipsis:
                rest = sum(1 for x in elts[k + 1 :] if not (isinstance(x, ast.Constant) and x.value is None) and not (isinstance(x, ast.Attribute) and x.attr == "newaxis"))
                while len(b) - ax > rest:
                    out.append(b[ax])
                    ax += 1
                continue
            if (isinstance(el, ast.Constant) and el.value is None) or (isinstance(el, ast.Attribute) and el.attr == "newaxis"):
                out.append("1")
                continue
            if ax >= len(b):
                return None
            if isinstance(el, ast.Slice):
                full = el.lower is None and el.upper is None and el.step is None
                out.append(b[ax] if full else b[ax].rstrip("'") + "'")
            elif isinstance(el, ast.Constant) and isinstance(el.value, int):
                pass
            elif isinstance(el, ast.Name) and el.id in kinds:
                if kinds[el.id] != "int":
                    out.append(b[ax].rstrip("'") + "'")
            elif isinstance(el, (ast.List, ast.ListComp)):
                out.append(b[ax].rstrip("'") + "'")
            else:
                return None
            ax += 1
        out.extend(b[ax:])
        return tuple(out)
    if isinstance(e, ast.Call):
        fn = (dotted(e.func) or "").split(".")[-1]
        if fn in ("atleast_1d", "atleast_2d", "atleast_3d") and len(e.args) == 1:
            b = shape_of(e.args[0], inv, kinds)
            if b is None:
                return None
            k = int(fn[8])
            if len(b) >= k:
                return b
            if k == 1:
                return ("1",)
            if k == 2:
                return ("1", "1") if len(b) == 0 else ("1", b[0])
            return {0: ("1", "1", "1"), 1: ("1", b[0], "1") if b else None, 2: (b[0], b[1], "1") if len(b) == 2 else None}[len(b)]
        if fn in ("asarray", "array", "copy", "ascontiguousarray", "asanyarray") and e.args:
            return shape_of(e.args[0], inv, kinds)
        if fn == "transpose" and len(e.args) == 1 and not e.keywords:
            b = shape_of(e.args[0], inv, kinds)
            return None if b is None else tuple(reversed(b))
        if isinstance(e.func, ast.Attribute) and e.func.attr in ("astype", "copy") :
            return shape_of(e.func.value, inv, kinds)
        if isinstance(e.func, ast.Attribute) and e.func.attr == "transpose" and not e.args:
            b = shape_of(e.func.value, inv, kinds)
            return None if b is None else tuple(reversed(b))
        return None
    return None


def rule_r7(prog, res) -> None:
    """axis typing through the indexers: the constructor relates the axes of the arrays to each other and to the
    number of bins / patches (symbolic shapes read from its raising checks); after a selection with an integer or a
    slice every array must still have ITS axes in THEIR places (an axis may only be kept, selected, or become a
    length-1 axis), and an axis symbol shared by several arrays / positions must be treated alike everywhere —
    otherwise the sub-container holds transposed samples or is selected along one of its two patch axes only.
    Decided on the symbolic store of each indexer, for both documented index kinds."""
    from .. import symx

    n = 0
    for ci in _containers(prog):
        inv = class_shape_invariants(prog, ci)
        if not any(not k.startswith("<") for k in inv):
            continue
        init = prog.find_method(ci, "__init__")
        pos = [p_.arg for p_ in init.node.args.args][1:]
        for mname in ("_make_bin_slice", "_make_patch_slice"):
            m = ci.methods.get(mname)
            if m is None:
                continue
            item = m.param_names()[1]
            for idx_kind in ("int", "slice"):
                kinds = {item: idx_kind}

                def oracle(t, kinds=kinds, item=item, inv=inv):
                    if isinstance(t, ast.Call) and isinstance(t.func, ast.Name) and t.func.id == "isinstance" and len(t.args) == 2:
                        if isinstance(t.args[0], ast.Name) and t.args[0].id == item:
                            names = {(dotted(x) or "").split(".")[-1] for x in (t.args[1].elts if isinstance(t.args[1], ast.Tuple) else [t.args[1]])}
                            return bool(names & ({"int", "integer", "Integral"} if kinds[item] == "int" else {"slice"}))
                        return None
                    if isinstance(t, ast.Compare) and len(t.ops) == 1 and isinstance(t.left, ast.Attribute) and t.left.attr == "ndim":
                        sh = shape_of(t.left.value, inv, kinds)
                        if sh is not None:
                            try:
                                return bool(ceval(ast.Compare(left=ast.Constant(len(sh)), ops=t.ops, comparators=t.comparators), {}))
                            except Unknown:
                                return None
                    return None

                try:
                    paths = [p for p in symx.explore(prog, m, inline=symx.inline_private_helpers(prog), oracle=oracle) if p.outcome == "return" and p.value is not None]
                except symx.TooManyPaths:
                    continue
                for p in paths:
                    got: dict[str, tuple] = {}
                    where = p.node or m.node
                    v = p.value
                    if isinstance(v, ast.Call) and not (isinstance(v.func, ast.Attribute) and v.func.attr == "__new__"):
                        fn_ = unparse(v.func)
                        if fn_ in ("type(self)", "self.__class__", ci.name, "cls") or fn_.endswith(".__class__"):
                            for i, a in enumerate(v.args):
                                if i < len(pos):
                                    got[pos[i]] = a
                            for k in v.keywords:
                                if k.arg:
                                    got[k.arg] = k.value
                            got = {k: shape_of(a, inv, kinds) for k, a in got.items() if f"<param>{k}" in inv}
                            want = {k: inv[f"<param>{k}"] for k in got}
                    rv = p.node.value if isinstance(p.node, ast.Return) and isinstance(p.node.value, ast.Name) else v
                    if not got and isinstance(rv, ast.Name):
                        for key, val in p.store.items():
                            if isinstance(key, str) and key.startswith(rv.id + ".") and key.count(".") == 1 and key.split(".")[1] in inv:
                                got[key.split(".")[1]] = shape_of(val, inv, kinds)
                        want = {k: inv[k] for k in got}
                    got = {k: g for k, g in got.items() if g is not None}
                    if not got:
                        continue
                    n += 1
                    res.touch(m)
                    site = res.site(m, f"index kind {idx_kind}")
                    bad = None
                    sigma: dict[str, set] = {}
                    for k, g in sorted(got.items()):
                        w = want[k]
                        if len(g) != len(w):
                            continue  # a rank error: reported by R2
                        for i, (gs, ws) in enumerate(zip(g, w)):
                            if gs == "1":
                                sigma.setdefault(ws, set()).add("selected")
                            elif gs.rstrip("'") != ws:
                                bad = bad or f"axis {i} of '{k}' holds the {gs.rstrip(chr(39))} axis where the constructor of {ci.name} expects the {ws} axis (shape {g} for {w})"
                            else:
                                sigma.setdefault(ws, set()).add("selected" if gs.endswith("'") else "kept")
                    if bad is None:
                        mixed = sorted(s_ for s_, how in sigma.items() if len(how) > 1)
                        if mixed:
                            bad = f"the {mixed[0]} axis is selected in one array / position and kept whole in another ({ {k: g for k, g in sorted(got.items())} })"
                    if bad:
                        res.violation(
                            "C17.R7",
                            m,
                            where,
                            f"for an {idx_kind} index: {bad} — the sub-container is inconsistent (transposed or partially selected data)",
                            key_extra=f"axes-{mname}-{idx_kind}",
                        )
                    else:
                        res.ok("C17.R7", site, "every array keeps its axes in place: " + ", ".join(f"{k}{g}" for k, g in sorted(got.items())))
    if n < 6:
        raise AnalysisError(f"C17.R7: only {n} (indexer, index kind, path) instances could be shape-typed, minimum 6")


def rule_r3(prog, res) -> None:
    """compatibility check dominates every binary operator; is_compatible(require=True) cannot return False"""
    n = 0
    for ci in _containers(prog):
        for op in ("__add__", "__sub__"):
            m = ci.methods.get(op)
            if m is None:
                continue
            n += 1
            res.touch(m)
            # decided on the symbolic store (private helpers such as a shared _combine(other, op) looked through): every
            # path that returns a newly built container has called is_compatible(other, require=True) before — or has
            # passed a comparison of the operands whose other outcome raises
            from .. import symx

            paths = symx.explore(prog, m, inline=symx.inline_private_helpers(prog, public={"is_compatible"}))
            rets = [p for p in paths if p.outcome == "return" and p.value is not None and not (isinstance(p.value, ast.Name) and p.value.id in ("NotImplemented", "self")) and not (isinstance(p.value, ast.Constant))]
            other_p = m.param_names()[1] if len(m.param_names()) > 1 else "other"
            bad = []
            for p in rets:
                checked = any(isinstance(ev.expr.func, ast.Attribute) and ev.expr.func.attr == "is_compatible" and isinstance(kwarg(ev.expr, "require"), ast.Constant) and kwarg(ev.expr, "require").value is True for ev in p.calls("is_compatible"))
                if not checked:
                    for t, pol_, _ in symx.raising_guards(paths, p):
                        # (t, pol_): the decision taken on this (returning) path whose other outcome raises — it must be
                        # "the operands are equal": `a != b` false, or `a == b` true
                        for x in ast.walk(t):
                            if isinstance(x, ast.Compare) and len(x.ops) == 1 and isinstance(x.ops[0], (ast.NotEq, ast.Eq)) and symx.mentions(x, lambda y: isinstance(y, ast.Name) and y.id == other_p):
                                neg = sum(1 for y in ast.walk(t) if isinstance(y, ast.UnaryOp) and isinstance(y.op, ast.Not) and any(z is x for z in ast.walk(y)))
                                holds_equal = (isinstance(x.ops[0], ast.Eq)) == (pol_ if neg % 2 == 0 else not pol_)
                                if holds_equal:
                                    checked = True
                if not checked:
                    bad.append(p)
            if bad:
                res.violation("C17.R3", m, bad[0].node or m.node, f"{ci.name}.{op} builds its result without a preceding raising compatibility check: containers with different binning / patches are combined silently", key_extra=f"{op}-no-compat-check")
            elif not rets:
                raise AnalysisError(f"C17.R3: {ci.name}.{op} has no path that returns a result")
            else:
                res.ok("C17.R3", res.site(m), f"is_compatible(other, require=True) (or a raising comparison) precedes the result on all {len(rets)} path(s)")
    if n < 5:
        raise AnalysisError(f"C17.R3: only {n} binary operators found, minimum 5")
    k = 0
    for ci in prog.classes:
        m = ci.methods.get("is_compatible")
        if m is None or "require" not in m.param_names():
            continue
        k += 1
        res.touch(m)
        # compatible means compatible in EVERY respect (binning and patches): the partial verdicts are joined by `and`
        from .common import eq_is_conjunction

        eq_is_conjunction(prog, res, "C17.R3", ci, m)
        # an override refines the verdict of its base classes, it does not replace it: every path that answers True has
        # asked each base implementation (and got True)
        bases_with = [b for b in prog.mro(ci)[1:] if isinstance(b, ClassInfo) and "is_compatible" in b.methods and not b.methods["is_compatible"].is_abstract]
        if bases_with:
            from .. import symx as _sx2

            def base_true(fi_, call, funcs):
                return None

            tpaths = [p for p in _sx2.explore(prog, m, inline=_sx2.inline_private_helpers(prog, public={"is_compatible"})) if p.outcome == "return" and p.value is not None and not (isinstance(p.value, ast.Constant) and p.value.value is False) and not (isinstance(p.value, ast.Name) and p.value.id == "NotImplemented")]
            skipped = []
            for p in tpaths:
                asked = [ev for ev in p.calls("is_compatible") if isinstance(ev.expr.func, ast.Attribute) and (isinstance(ev.expr.func.value, ast.Call) and isinstance(ev.expr.func.value.func, ast.Name) and ev.expr.func.value.func.id == "super" or (isinstance(ev.expr.func.value, ast.Name) and ev.expr.func.value.id[:1].isupper()))]
                in_value = any(isinstance(y, ast.Call) and isinstance(y.func, ast.Attribute) and y.func.attr == "is_compatible" for y in ast.walk(p.value))
                denied = any(pol is False and any(isinstance(y, ast.Call) and isinstance(y.func, ast.Attribute) and y.func.attr == "is_compatible" for y in ast.walk(t)) for t, pol in p.literals())
                # … and every answer that was asked for counts: it is part of the returned verdict or was tested true
                vtxt = unparse(p.value)
                ignored = [ev for ev in asked if unparse(ev.expr) not in vtxt and not any(unparse(ev.expr) in unparse(t) for t, pol in p.literals())]
                if (not asked and not in_value) or ignored or (denied and not (isinstance(p.value, ast.Constant) and p.value.value is False)):
                    skipped.append(p)
            if skipped and tpaths:
                res.violation("C17.R3", m, skipped[0].node or m.node, f"{ci.name}.is_compatible can accept without a positive answer of {', '.join(b.name for b in bases_with)}.is_compatible (not asked, or asked and overruled): the binning / patch comparison of the base class does not count, containers with another binning pass as compatible and are combined", key_extra=f"is-compatible-skips-base-{ci.name}")
            elif tpaths:
                res.ok("C17.R3", res.site(m, "base verdict"), f"every accepting path has asked {', '.join(b.name for b in bases_with)}.is_compatible", nontrivial=False)
        cfg = cfg_of(m.node)
        # nested checks must forward `require`, otherwise their False result is returned instead of an exception
        nested = [c for c in calls_in(m) if isinstance(c.func, ast.Attribute) and c.func.attr == "is_compatible"]
        lost = [c for c in nested if not (kwarg(c, "require") is not None and unparse(kwarg(c, "require")) in ("require", "True"))]
        if lost:
            res.violation(
                "C17.R3",
                m,
                lost[0],
                f"{ci.name}.is_compatible calls {unparse(lost[0].func)} without forwarding require=: with require=True an incompatibility is reported by returning False, which callers that rely on the exception ignore",
                key_extra="require-not-forwarded",
            )
            continue
        # a forwarded is_compatible(..., require=require) call raises instead of returning False (checked on its own);
        # helpers of the module are looked through with require bound to True
        from .. import symx

        def forwarded_true(fi_, call, funcs):
            if isinstance(call.func, ast.Attribute) and call.func.attr == "is_compatible":
                return ast.Constant(value=True)
            return None

        paths = symx.explore(prog, m, env={"require": True}, inline=symx.inline_private_helpers(prog, public={"is_compatible"}), call_value=forwarded_true)
        # what the verdict is based on: on a path that has found the operands to DIFFER in a compared component (or to be
        # of another type) the answer is an exception with require=True and False without; on a path that accepts, every
        # compared component was found equal
        oth_ = m.param_names()[1] if len(m.param_names()) > 1 else "other"

        def verdict_of(t, pol):
            """True: this decision says 'the operands agree here'; False: 'they differ'; None: not a comparison of the two"""
            if isinstance(t, ast.Call) and isinstance(t.func, ast.Name) and t.func.id == "isinstance" and t.args and isinstance(t.args[0], ast.Name) and t.args[0].id == oth_:
                return pol
            if isinstance(t, ast.Compare) and len(t.ops) == 1 and isinstance(t.ops[0], (ast.Eq, ast.NotEq)):
                names = {y.id for y in ast.walk(t) if isinstance(y, ast.Name)}
                if "self" in names and oth_ in names:
                    return isinstance(t.ops[0], ast.Eq) == pol
            return None

        wrong = None
        for req in (True, False):
            rp_ = paths if req else symx.explore(prog, m, env={"require": False}, inline=symx.inline_private_helpers(prog, public={"is_compatible"}), call_value=forwarded_true)
            for p in rp_:
                vs = [v_ for v_ in (verdict_of(t, pol) for t, pol in p.literals()) if v_ is not None]
                if not vs:
                    continue
                accepts = p.outcome == "return" and not (isinstance(p.value, ast.Constant) and p.value.value is False)
                if accepts and not all(vs):
                    wrong = wrong or (p, f"accepts (returns {unparse(p.value)[:20] if p.value is not None else None}) although a compared component differs [{p.cond_text()[:70]}]")
                if not accepts and all(vs) and p.outcome in ("raise", "return"):
                    wrong = wrong or (p, f"{'raises' if p.outcome == 'raise' else 'answers False'} although every compared component agrees [{p.cond_text()[:70]}]")
        if wrong is not None:
            res.violation("C17.R3", m, wrong[0].node or m.node, f"{ci.name}.is_compatible {wrong[1]}: the verdict is inverted for that comparison — operands that do not belong together are combined, matching ones are refused", key_extra=f"is-compatible-polarity-{ci.name}")
            continue
        bad = [p for p in paths if p.outcome == "return" and isinstance(p.value, ast.Constant) and p.value.value is False]
        if bad:
            res.violation("C17.R3", m, bad[0].node or m.node, f"{ci.name}.is_compatible(require=True) can return False instead of raising: callers that rely on the exception combine incompatible containers", key_extra="require-returns-false")
        else:
            res.ok("C17.R3", res.site(m), "with require=True no `return False` is reachable")
    if k < 4:
        raise AnalysisError(f"C17.R3: only {k} is_compatible implementations found, minimum 4")


def rule_r4(prog, res) -> None:
    """__eq__ covers all data slots"""
    names = ["Binning", "PatchedSumWeights", "PatchedCounts", "NormalisedCounts", "CorrFunc", "SampledData"]
    for nme in names:
        eq_covers_slots(prog, res, "C17.R4", prog.find_class(nme))


def rule_r5(prog, res) -> None:
    """rank guards of the constructors are effective"""
    n = 0
    for ci in _containers(prog):
        init = ci.methods.get("__init__")
        if init is None:
            continue
        init_node = _ctor_node(prog, ci) or init.node  # (an extracted shape-check helper is expanded in place)
        for x in walk_no_nested(init_node):
            if not (isinstance(x, ast.If) and any(isinstance(s, ast.Raise) for s in x.body)):
                continue
            texts = sorted({unparse(a) for a in ast.walk(x.test) if isinstance(a, ast.Attribute) and a.attr == "ndim"})
            if not texts:
                continue
            cmps = [c for c in ast.walk(x.test) if isinstance(c, ast.Compare)]
            if any(not any(isinstance(a, ast.Attribute) and a.attr == "ndim" for a in ast.walk(c)) for c in cmps):
                continue  # a guard that mixes the rank with other conditions (length, values) is not a pure rank guard
            lits = sorted({c.value for c in ast.walk(x.test) if isinstance(c, ast.Constant) and isinstance(c.value, int) and not isinstance(c.value, bool)})
            if len(lits) != 1:
                raise AnalysisError(f"C17.R5: rank guard {unparse(x.test)} in {init.short} has no single rank literal")
            k = lits[0]
            n += 1
            res.touch(init)
            misses = []
            for combo in itertools.product(range(5), repeat=len(texts)):
                try:
                    fired = bool(ceval(x.test, dict(zip(texts, combo))))
                except Unknown as err:
                    raise AnalysisError(f"C17.R5: cannot fold {unparse(x.test)} ({err})")
                should = any(r != k for r in combo)
                if fired != should:
                    misses.append(combo)
            if misses:
                res.violation(
                    "C17.R5",
                    init,
                    x.test,
                    f"rank guard `{unparse(x.test)}` gives the wrong answer for ranks {misses[:4]} of {texts} (required rank {k}): arrays of the wrong dimension are accepted",
                    key_extra="rank-guard-ineffective",
                )
            else:
                res.ok("C17.R5", res.site(init, unparse(x.test)), f"guard fires exactly when some rank differs from {k} (folded over ranks 0..4)")
    if n < 3:
        raise AnalysisError(f"C17.R5: only {n} rank guards found, minimum 3")


ARITH_DUNDERS = ("__add__", "__radd__", "__sub__", "__rsub__", "__mul__", "__rmul__", "__truediv__", "__neg__", "__iadd__", "__isub__", "__imul__", "__itruediv__")


def _ctor_alias_param(prog, ci: ClassInfo, attr: str) -> str | None:
    """the constructor parameter whose array object is kept as `self.<attr>` without a copy (plain store, np.asarray,
    astype(..., copy=False)); None when the constructor stores a fresh array"""
    node = _ctor_node(prog, ci)
    if node is None:
        return None
    init = prog.find_method(ci, "__init__")
    params = set(init.param_names()[1:])
    for x in walk_no_nested(node):
        if isinstance(x, ast.Assign) and any(isinstance(t, ast.Attribute) and t.attr == attr and isinstance(t.value, ast.Name) and t.value.id == "self" for t in x.targets):
            v = x.value
            while True:
                if isinstance(v, ast.Name):
                    return v.id if v.id in params else None
                if isinstance(v, ast.Call):
                    fn = (dotted(v.func) or unparse(v.func)).split(".")[-1]
                    if fn in ("asarray", "asanyarray", "atleast_1d", "atleast_2d") and v.args:
                        v = v.args[0]
                        continue
                    if fn == "astype" and isinstance(v.func, ast.Attribute) and isinstance(kwarg(v, "copy"), ast.Constant) and kwarg(v, "copy").value is False:
                        v = v.func.value
                        continue
                return None
    return None


def rule_r6(prog, res) -> None:
    """container arithmetic never modifies an operand: the operator methods (including augmented assignment
    operators, which `total += part` and sum() fall back to) build a new container and leave the arrays of
    `self` and `other` untouched"""
    n = 0
    for ci in _containers(prog):
        for name in ARITH_DUNDERS:
            m = ci.methods.get(name)
            if m is None:
                continue
            n += 1
            res.touch(m)
            params = set(m.param_names()[:2])
            bad = None
            for x in walk_no_nested(m.node):
                tgt = None
                if isinstance(x, ast.AugAssign):
                    tgt = x.target
                elif isinstance(x, ast.Assign):
                    tgt = next((t for t in x.targets if isinstance(t, (ast.Attribute, ast.Subscript))), None)
                if tgt is None:
                    continue
                root = tgt
                while isinstance(root, (ast.Attribute, ast.Subscript)):
                    root = root.value
                if isinstance(root, ast.Name) and root.id in params:
                    bad = x
                    break
                if isinstance(x, ast.AugAssign) and isinstance(root, ast.Name):
                    # a local that aliases an operand's array: x = self.counts; x += …
                    from ..dataflow import all_def_values

                    for v in all_def_values(m.node, root.id):
                        r2 = v
                        while isinstance(r2, (ast.Attribute, ast.Subscript)):
                            r2 = r2.value
                        if v is not None and isinstance(v, (ast.Attribute, ast.Subscript)) and isinstance(r2, ast.Name) and r2.id in params:
                            bad = x
            if bad is None:
                # a new container built from an operand's array and then updated in place: harmless only if the
                # constructor stores a copy — `astype(t, copy=False)`, np.asarray(x) or a plain store keep the operand's array
                for x in walk_no_nested(m.node):
                    if not (isinstance(x, ast.AugAssign) and isinstance(x.target, (ast.Attribute, ast.Subscript))):
                        continue
                    tgt = x.target
                    while isinstance(tgt, ast.Subscript):
                        tgt = tgt.value
                    if not (isinstance(tgt, ast.Attribute) and isinstance(tgt.value, ast.Name) and tgt.value.id not in params):
                        continue
                    from ..dataflow import all_def_values

                    for v in all_def_values(m.node, tgt.value.id):
                        if not (isinstance(v, ast.Call) and unparse(v.func) in ("type(self)", "self.__class__", ci.name, "cls")):
                            continue
                        par = _ctor_alias_param(prog, ci, tgt.attr)
                        if par is None:
                            continue
                        init_ = prog.find_method(ci, "__init__")
                        pos_ = [q.arg for q in init_.node.args.args][1:]
                        arg = kwarg(v, par) or (v.args[pos_.index(par)] if par in pos_ and pos_.index(par) < len(v.args) else None)
                        r2 = arg
                        while isinstance(r2, (ast.Attribute, ast.Subscript)):
                            r2 = r2.value
                        if arg is not None and isinstance(arg, (ast.Attribute, ast.Subscript)) and isinstance(r2, ast.Name) and r2.id in params:
                            bad = x
            if bad is not None:
                res.violation(
                    "C17.R6",
                    m,
                    bad,
                    f"{ci.name}.{name} modifies an operand in place (`{norm_stmt(bad)[:60]}`): a container that is also referenced elsewhere (e.g. the first element given to sum(), or a measurement "
                    "that is accumulated into a total) silently changes its counts",
                    key_extra=f"operator-mutates-{ci.name}-{name}",
                )
            else:
                res.ok("C17.R6", res.site(m), "builds its result without storing into self / other")
    if n < 8:
        raise AnalysisError(f"C17.R6: only {n} arithmetic operator methods found on the containers, minimum 8")


def rule_r8(prog, res) -> None:
    """derived containers keep the state of the original: an instance method that builds a new instance of its own
    class (type(self)(…), self.__class__(…), ClassName(…)) passes every constructor parameter that has a default and
    names an attribute of the instance — otherwise the copy / selection / sum silently carries the default (e.g. a
    copied binning that is always closed on the right) and no longer equals or combines with its source"""
    n = 0
    for fi in prog.funcs:
        if fi.cls is None or fi.is_staticmethod or fi.is_classmethod or not fi.module.name.startswith("yaw."):
            continue
        init = prog.find_method(fi.cls, "__init__")
        if init is None:
            continue
        a = init.node.args
        pos = [p_.arg for p_ in a.args][1:]
        dflt = {p_.arg for p_ in a.args[len(a.args) - len(a.defaults) :]} | {p_.arg for p_, d in zip(a.kwonlyargs, a.kw_defaults) if d is not None}
        attrs = set(prog.all_slots(fi.cls)) | {m_ for c_ in prog.mro(fi.cls) if isinstance(c_, ClassInfo) for m_ in c_.methods} | {x for c_ in prog.mro(fi.cls) if isinstance(c_, ClassInfo) for x in getattr(c_, "inst_attrs", {})}
        state = dflt & attrs
        for c in calls_in(fi):
            f = unparse(c.func)
            if f not in ("type(self)", "self.__class__", fi.cls.name):
                continue
            if any(isinstance(x, ast.Starred) for x in c.args) or any(k.arg is None for k in c.keywords):
                continue
            n += 1
            res.touch(fi)
            given = set(pos[: len(c.args)]) | {k.arg for k in c.keywords}
            missing = sorted(state - given)
            if missing:
                res.violation(
                    "C17.R8",
                    fi,
                    c,
                    f"{fi.cls.name}.{fi.name} builds a new {fi.cls.name} without passing {missing}: the new object silently takes the constructor default instead of the value of the original",
                    key_extra=f"derived-drops-{fi.cls.name}-{fi.name}-{'-'.join(missing)}",
                )
            else:
                res.ok("C17.R8", res.site(fi, f"{f}(…)"), f"passes all state-carrying defaulted parameters ({sorted(state) or 'none'})", nontrivial=bool(state))
    if n < 15:
        raise AnalysisError(f"C17.R8: only {n} constructions of the method's own class found, minimum 15")


R9_SCOPE = ("yaw.utils.abc", "yaw.binning", "yaw.correlation", "yaw.redshifts", "yaw.catalog.readers", "yaw.randoms")


def rule_r9(prog, res) -> None:
    """iterators restart on iter(): a class that implements the iterator protocol on itself (`__iter__` returns self)
    resets in `__iter__`, on every path, each counter that `__next__` advances — an iterator that only rewinds when it
    is exhausted resumes in the middle after a partial pass (peek, break, zip with a shorter sequence), so a second
    loop over the same indexer silently yields only the trailing bins / patches. Decided on the symbolic store of
    `__iter__` (helpers such as a reset method looked through)."""
    from .. import symx

    n = 0
    for ci in prog.classes:
        nxt = ci.methods.get("__next__") or (prog.find_method(ci, "__next__") if ci.methods.get("__iter__") else None)
        it = prog.find_method(ci, "__iter__")
        if nxt is None or it is None or nxt.is_abstract or not ci.module.name.startswith("yaw."):
            continue
        # the property speaks of selecting bins / patches (and chunks of a reader) by iteration: the indexers of the
        # container modules and the readers. A single-use iterator elsewhere (e.g. one that drains a message queue) is
        # consumed once by construction and owes no restart.
        if not any(ci.module.name == m_ or ci.module.name.startswith(m_ + ".") for m_ in R9_SCOPE):
            continue
        # counters: attributes of self that __next__ both reads and advances
        adv = set()
        for x in walk_no_nested(nxt.node):
            if isinstance(x, ast.AugAssign) and isinstance(x.target, ast.Attribute) and isinstance(x.target.value, ast.Name) and x.target.value.id == "self":
                adv.add(x.target.attr)
            if isinstance(x, ast.Assign):
                for t in x.targets:
                    if isinstance(t, ast.Attribute) and isinstance(t.value, ast.Name) and t.value.id == "self" and any(isinstance(y, ast.Attribute) and y.attr == t.attr and isinstance(y.value, ast.Name) and y.value.id == "self" for y in ast.walk(x.value)):
                        adv.add(t.attr)
        if not adv:
            continue
        paths = [p for p in symx.explore(prog, it, inline=lambda caller, call, callee: callee.cls is not None and callee.name not in ("__next__", "__iter__")) if p.outcome == "return"]
        if not paths:
            continue
        returns_self = all(isinstance(p.value, ast.Name) and p.value.id == "self" for p in paths)
        if not returns_self:
            continue  # a fresh iterator object per pass
        n += 1
        res.touch(it)
        # a reset method that subclasses override is not looked through by the symbolic store: a call of a method of
        # the hierarchy that stores the counter counts as the reset (that overrides chain up is C18.R2's business)
        def resets_via_call(p, attr) -> bool:
            for ev in p.calls():
                f_ = ev.expr.func
                if isinstance(f_, ast.Attribute) and isinstance(f_.value, ast.Name) and f_.value.id == "self":
                    for c_ in [k for k in prog.mro(ci) if isinstance(k, ClassInfo)]:
                        m_ = c_.methods.get(f_.attr)
                        if m_ is not None and any(isinstance(y, ast.Attribute) and isinstance(y.ctx, ast.Store) and y.attr == attr for y in walk_no_nested(m_.node)):
                            return True
            return False

        missing = sorted(a_ for a_ in adv if any(f"self.{a_}" not in p.store and not resets_via_call(p, a_) for p in paths))
        # … to the value the constructor starts from (an iterator reset to 1 skips the first bin / patch on every pass)
        init_m = prog.find_method(ci, "__init__")
        if not missing and init_m is not None:
            for a_ in sorted(adv):
                inits = [x.value for x in walk_no_nested(init_m.node) if isinstance(x, ast.Assign) and any(isinstance(t, ast.Attribute) and t.attr == a_ and isinstance(t.value, ast.Name) and t.value.id == "self" for t in x.targets)]
                resets = [p.store.get(f"self.{a_}") for p in paths if p.store.get(f"self.{a_}") is not None]
                if len(inits) == 1 and isinstance(inits[0], ast.Constant) and resets and any(isinstance(r_, ast.Constant) and r_.value != inits[0].value for r_ in resets):
                    res.violation("C17.R9", it, it.node, f"{ci.name}.__iter__ resets self.{a_} to {[unparse(r_) for r_ in resets][0]} while the constructor starts from {unparse(inits[0])}: every explicit pass over the indexer starts one item late (the first bin / patch is skipped)", key_extra=f"iter-reset-value-{ci.name}-{a_}")
                    missing = ["<reported>"]
        if missing == ["<reported>"]:
            continue
        if missing:
            res.violation(
                "C17.R9",
                it,
                it.node,
                f"{ci.name}.__iter__ returns self without resetting {missing}, which __next__ advances: after a partial pass a new loop over the same object resumes where the last one stopped "
                "and yields only the remaining items",
                key_extra=f"iter-no-reset-{ci.name}",
            )
        else:
            res.ok("C17.R9", res.site(it), f"every pass starts with {sorted(adv)} reset")
    if n < 2:
        raise AnalysisError(f"C17.R9: only {n} self-iterators found, minimum 2")


def rule_r10(prog, res) -> None:
    """a selection of bins keeps each selected bin's own left edge: the edges handed to the new binning by
    `Binning.__getitem__` are (the left edges of the selection, then the last right edge) — so that
    `binning[sel].left == binning.left[sel]` for every selection, contiguous or not (the data arrays are selected by the
    same index; any other splice attaches the values to other redshift intervals without changing any shape).
    Decided on the symbolic return value."""
    from .. import symx

    b = prog.find_class("Binning")
    gi = b.methods.get("__getitem__")
    if gi is None:
        raise AnalysisError("C17.R10: Binning.__getitem__ vanished")
    res.touch(gi)
    item = gi.param_names()[1]

    def part(e):
        """-> (side, 'whole' | ('elem', k) | ('slice', text)) for an expression derived from self.left[item] / self.right[item]"""
        e = symx.strip_wrappers(e)
        while isinstance(e, ast.Call) and (dotted(e.func) or "").split(".")[-1] in ("atleast_1d", "asarray", "array", "ravel") and e.args:
            e = e.args[0]
        how = "whole"
        if isinstance(e, ast.Subscript) and not (isinstance(e.value, ast.Attribute) and isinstance(e.value.value, ast.Name) and e.value.value.id == "self"):
            sl = e.slice
            if isinstance(sl, ast.Constant) and isinstance(sl.value, int):
                how = ("elem", sl.value)
            elif isinstance(sl, ast.UnaryOp) and isinstance(sl.op, ast.USub) and isinstance(sl.operand, ast.Constant):
                how = ("elem", -sl.operand.value)
            else:
                how = ("slice", unparse(sl))
            e = e.value
            while isinstance(e, ast.Call) and (dotted(e.func) or "").split(".")[-1] in ("atleast_1d", "asarray", "array", "ravel") and e.args:
                e = e.args[0]
        if isinstance(e, ast.Subscript) and isinstance(e.value, ast.Attribute) and isinstance(e.value.value, ast.Name) and e.value.value.id == "self" and unparse(e.slice) == item:
            if e.value.attr in ("left", "right"):
                return e.value.attr, how
        return None

    n = 0
    for p in symx.explore(prog, gi, inline=symx.inline_private_helpers(prog)):
        if p.outcome != "return" or p.value is None:
            continue
        v = symx.strip_wrappers(p.value)
        if not (isinstance(v, ast.Call) and v.args):
            raise AnalysisError(f"C17.R10: value returned by Binning.__getitem__ not recognised ({unparse(v)[:60]})")
        E = symx.strip_wrappers(v.args[0])
        parts = None
        if isinstance(E, ast.Call) and (dotted(E.func) or "").split(".")[-1] in ("append", "concatenate", "hstack", "r_"):
            parts = list(E.args[0].elts) if len(E.args) == 1 and isinstance(E.args[0], (ast.Tuple, ast.List)) else list(E.args[:2])
        if parts is None and isinstance(E, ast.Call) and (dotted(E.func) or "").split(".")[-1] in ("union1d", "unique", "sort", "sorted") and any(part(y) is not None for y in ast.walk(E)):
            # a set union / a re-sorted merge of the selected left and right edges: equal to the splice only for a
            # contiguous selection in ascending order — a strided selection keeps the edges of the bins that were left
            # out (more bins than data), a reversed one is silently re-ordered instead of rejected
            res.violation("C17.R10", gi, p.node or gi.node, f"the edges of a bin selection are `{unparse(E)[:70]}`, a sorted set of all selected left and right edges instead of the left edges followed by the last right edge: for a strided selection the result has the edges of the omitted bins as well (the binning no longer matches the selected data), a reversed selection is re-ordered instead of refused", key_extra="getitem-edges-set-union")
            n += 1
            continue
        if parts is None or len(parts) != 2:
            raise AnalysisError(f"C17.R10: the edges of a bin selection are not spliced from left / right edges in a recognised way ({unparse(E)[:80]})")
        got = [part(x) for x in parts]
        if any(g is None for g in got):
            raise AnalysisError(f"C17.R10: parts of the spliced edges not recognised ({[unparse(x)[:40] for x in parts]})")
        n += 1
        ok = got[0] == ("left", "whole") and got[1][0] == "right" and (got[1][1] == ("elem", -1) or (isinstance(got[1][1], tuple) and got[1][1][0] == "slice" and got[1][1][1].replace(" ", "") in ("-1:",)))
        if ok:
            res.ok("C17.R10", res.site(gi), "edges of a selection = left edges of the selected bins + the last right edge")
        else:
            res.violation(
                "C17.R10",
                gi,
                p.node or gi.node,
                f"the edges of a bin selection are spliced as {got}: for a selection that skips bins (a step, an index list) the selected bins no longer keep their own left edges — values are attached to other redshift intervals, no shape changes",
                key_extra="binning-getitem-splice",
            )
    if n == 0:
        raise AnalysisError("C17.R10: Binning.__getitem__ has no returning path")


OP_OF = {"__add__": ast.Add, "__sub__": ast.Sub, "__mul__": ast.Mult, "__truediv__": ast.Div, "__iadd__": ast.Add, "__isub__": ast.Sub, "__imul__": ast.Mult}


def rule_r12(prog, res) -> None:
    """the operators compute what they are named after: in `__add__` the members of the operands are combined with `+`,
    in `__sub__` with `-`, in `__mul__` with `*` (decided on the symbolic return value: every binary operation that
    joins a member of `self` with `other` / a member of `other` inside the constructor call that builds the result)"""
    from .. import symx

    n = 0
    for ci in _containers(prog):
        for op, want in OP_OF.items():
            m = ci.methods.get(op)
            if m is None or len(m.param_names()) < 2:
                continue
            me, oth = m.param_names()[:2]
            res.touch(m)
            for p in symx.explore(prog, m, inline=symx.inline_private_helpers(prog, public={"is_compatible"})):
                if p.outcome != "return" or p.value is None:
                    continue
                v = symx.strip_wrappers(p.value)
                if not isinstance(v, ast.Call):
                    continue
                joins = []
                for x in ast.walk(v):
                    if isinstance(x, ast.BinOp) and isinstance(x.op, (ast.Add, ast.Sub, ast.Mult, ast.Div, ast.FloorDiv, ast.MatMult, ast.Pow, ast.Mod)):
                        # one operand is (a member of) the other operand of the operator, the other side is not: a member
                        # of self, directly or through what self.to_dict() / its slots hand out
                        l_ot = any(isinstance(y, ast.Name) and y.id == oth for y in ast.walk(x.left))
                        r_ot = any(isinstance(y, ast.Name) and y.id == oth for y in ast.walk(x.right))
                        if l_ot != r_ot:
                            joins.append(x)
                for x in joins:
                    n += 1
                    if isinstance(x.op, want):
                        res.ok("C17.R12", res.site(m, f"{ci.name}.{op} {unparse(x)[:40]}"), f"members combined with {want.__name__}", nontrivial=False)
                    else:
                        res.violation("C17.R12", m, p.node or m.node, f"{ci.name}.{op} combines `{unparse(x)[:60]}` with {type(x.op).__name__} instead of {want.__name__}: the operator does not compute what it is named after (a sum of containers does not add their counts / a scaled container is not scaled)", key_extra=f"operator-arith-{ci.name}-{op}")
    if n < 6:
        raise AnalysisError(f"C17.R12: only {n} member combinations found in the operators of the containers, minimum 6")


def rule_r13(prog, res) -> None:
    """the size properties name the right axis: `num_patches` of a container that holds arrays is the length of an axis
    that is NOT the bin axis of that array (the axis typing of R7: first axis of counts / sums of weights = bins), and
    `num_samples` is the length of the samples axis — a property that reads the bin axis makes every patch loop, zeros()
    and jackknife run over the number of bins"""
    n = 0
    for ci in _containers(prog):
        shapes = {k: v for k, v in class_shape_invariants(prog, ci).items() if not k.startswith("<param>")}
        if not shapes:
            continue
        for pname, forbidden, wanted in (("num_patches", "num_bins", None), ("num_samples", "num_bins", None)):
            m = ci.methods.get(pname)
            if m is None or not m.is_property:
                continue
            rets = [r.value for r in walk_no_nested(m.node) if isinstance(r, ast.Return) and r.value is not None]
            for rv in rets:
                arr, k = None, None
                if isinstance(rv, ast.Subscript) and isinstance(rv.value, ast.Attribute) and rv.value.attr == "shape" and isinstance(rv.value.value, ast.Attribute) and isinstance(rv.slice, ast.Constant):
                    arr, k = rv.value.value.attr, rv.slice.value
                elif isinstance(rv, ast.Call) and isinstance(rv.func, ast.Name) and rv.func.id == "len" and rv.args and isinstance(rv.args[0], ast.Attribute):
                    arr, k = rv.args[0].attr, 0
                if arr is None or arr not in shapes:
                    continue
                axes = shapes[arr]
                n += 1
                res.touch(m)
                if not (-len(axes) <= k < len(axes)):
                    res.violation("C17.R13", m, rv, f"{ci.name}.{pname} reads axis {k} of self.{arr}, which has the axes {axes}", key_extra=f"size-axis-{ci.name}-{pname}")
                elif axes[k] == forbidden:
                    res.violation("C17.R13", m, rv, f"{ci.name}.{pname} returns the length of the {axes[k]} axis of self.{arr} (axes {axes}): the number of bins is reported as the number of {pname[4:]}, loops over patches / samples and arrays sized by it cover the wrong range", key_extra=f"size-axis-{ci.name}-{pname}")
                else:
                    res.ok("C17.R13", res.site(m, f"{ci.name}.{pname}"), f"length of axis {k} ({axes[k]}) of self.{arr}")
    if n < 2:
        raise AnalysisError(f"C17.R13: only {n} size properties typed, minimum 2")


def rule_r14(prog, res) -> None:
    """a correlation function only holds pair counts that belong together: on every path of `CorrFunc.__init__` that
    stores an optional member (dr / rd / rr that is given), a raising compatibility check of that member against `dd`
    (`is_compatible(…, require=True)`) has been passed before — decided on the symbolic paths (helpers and the closure
    that carries the check looked through)"""
    from .. import symx

    cf = prog.find_class("CorrFunc")
    init = cf.methods.get("__init__")
    if init is None:
        raise AnalysisError("C17.R14: CorrFunc.__init__ vanished")
    res.touch(init)
    members = [q for q in init.param_names()[2:]]
    if len(members) < 3:
        raise AnalysisError(f"C17.R14: optional members of CorrFunc not recognised ({members})")
    n = 0
    from ..inline import inlined

    init_an = inlined(prog, init, desugar=True)
    for given in members:
        env = {q: (ast.Name(id=q, ctx=ast.Load()) if q == given else ast.Constant(value=None)) for q in members}
        paths = [p for p in symx.Explorer(prog, inline=symx.inline_private_helpers(prog, public={"is_compatible"})).run(init_an, env) if p.outcome != "raise"]
        if not paths:
            raise AnalysisError(f"C17.R14: CorrFunc.__init__ has no completing path with only {given} given")
        n += 1
        unchecked = []
        for p in paths:
            ok = False
            for ev in p.calls("is_compatible"):
                req = kwarg(ev.expr, "require")
                if isinstance(req, ast.Constant) and req.value is True and symx.mentions(ev.expr, lambda y: isinstance(y, ast.Name) and y.id == given):
                    ok = True
            if not ok:
                unchecked.append(p)
        if unchecked:
            res.violation("C17.R14", init, init.node, f"CorrFunc(dd, …, {given}=…) completes without a raising compatibility check of `{given}` against `dd`: pair counts with another binning / other patches are accepted and combined by the estimator bin by bin, patch by patch", key_extra=f"corrfunc-member-unchecked-{given}")
        else:
            res.ok("C17.R14", res.site(init, given), "checked against dd with require=True before it is stored")
    if n < 3:
        raise AnalysisError("C17.R14: fewer than 3 members analysed")


NB = 3  # number of bins of the witness binning
# class -> [(what is wrong, {parameter: shape | {attribute: value}})]; confirmed against the constructors of the pinned
# tree, frozen here as the reference for any later change (first entry of each list: a valid input, must be accepted)
CTOR_WITNESSES = {
    "PatchedCounts": [
        ("valid", {"counts": (NB, 4, 4)}),
        ("counts of rank 2", {"counts": (NB, 4)}),
        ("counts of rank 4", {"counts": (NB, 4, 4, 1)}),
        ("counts whose first axis is not the number of bins", {"counts": (NB + 1, 4, 4)}),
        ("counts that are not square in the patch axes", {"counts": (NB, 4, 5)}),
    ],
    "PatchedSumWeights": [
        ("valid", {"sum_weights1": (NB, 4), "sum_weights2": (NB, 4)}),
        ("sum_weights1 of rank 1", {"sum_weights1": (NB,), "sum_weights2": (NB, 4)}),
        ("sum_weights2 of rank 1", {"sum_weights1": (NB, 4), "sum_weights2": (NB,)}),
        ("sums of weights for different numbers of patches", {"sum_weights1": (NB, 4), "sum_weights2": (NB, 5)}),
        ("sums of weights whose first axis is not the number of bins", {"sum_weights1": (NB + 1, 4), "sum_weights2": (NB + 1, 4)}),
    ],
    "NormalisedCounts": [
        ("valid", {"counts": {"num_patches": 4, "num_bins": NB}, "sum_weights": {"num_patches": 4, "num_bins": NB}}),
        ("counts and sums of weights for different numbers of patches", {"counts": {"num_patches": 4, "num_bins": NB}, "sum_weights": {"num_patches": 5, "num_bins": NB}}),
        ("counts and sums of weights for different numbers of bins", {"counts": {"num_patches": 4, "num_bins": NB}, "sum_weights": {"num_patches": 4, "num_bins": NB + 1}}),
    ],
    "SampledData": [
        ("valid", {"data": (NB,), "samples": (7, NB)}),
        ("data with one value too many", {"data": (NB + 1,), "samples": (7, NB)}),
        ("two-dimensional data", {"data": (NB, 1), "samples": (7, NB)}),
        ("samples of rank 1", {"data": (NB,), "samples": (NB,)}),
        ("samples whose second axis is not the number of bins", {"data": (NB,), "samples": (7, NB + 1)}),
    ],
}


def rule_r11(prog, res) -> None:
    """containers reject arrays of the wrong shape: each constructor is confronted with a fixed list of shape witnesses
    (wrong rank, wrong number of bins, non-square patch axes, operands for different numbers of patches); its raising
    tests (helpers looked through) are folded for each witness — a valid input must pass all of them, every invalid
    one must trip at least one.  The list is the set of checks found on the pinned tree, kept as the reference."""
    n = 0
    for cname, wits in CTOR_WITNESSES.items():
        ci = prog.find_class(cname)
        node = _ctor_node(prog, ci)
        init = prog.find_method(ci, "__init__")
        if node is None or init is None:
            raise AnalysisError(f"C17.R11: constructor of {cname} not found")
        res.touch(init)
        guards = [x for x in ast.walk(node) if isinstance(x, ast.If) and any(isinstance(s_, ast.Raise) for s_ in x.body)]
        # locals of the (expanded) constructor that stand for a parameter: `_h1_counts = counts`, np.asarray(param) …
        alias = {}
        for x in ast.walk(node):
            if isinstance(x, ast.Assign) and len(x.targets) == 1:
                v = x.value
                while isinstance(v, ast.Call) and (dotted(v.func) or "").split(".")[-1] in ("asarray", "array", "asanyarray", "astype", "atleast_1d") and (v.args or isinstance(v.func, ast.Attribute)):
                    v = v.args[0] if v.args and (dotted(v.func) or "").split(".")[-1] != "astype" else v.func.value
                if isinstance(v, ast.Name):
                    alias[unparse(x.targets[0])] = v.id
        for what, shapes in wits:
            env = {"self.num_bins": NB, "len(self.binning)": NB, "self.binning.num_bins": NB, "len(binning)": NB, "binning.num_bins": NB}
            for prm, shp in shapes.items():
                names = [prm, f"self.{prm}"] + [k for k, v in alias.items() if v == prm or alias.get(v) == prm]
                for nm in names:
                    if isinstance(shp, dict):
                        for a_, v_ in shp.items():
                            env[f"{nm}.{a_}"] = v_
                    else:
                        env[f"{nm}.shape"] = tuple(shp)
                        env[f"{nm}.ndim"] = len(shp)
                        env[f"len({nm})"] = shp[0]
                        env[f"{nm}.size"] = int(__import__("math").prod(shp))
                        for k_, d_ in enumerate(shp):
                            env[f"{nm}.shape[{k_}]"] = d_
            # locals that hold a known quantity (`num_bins = self.num_bins`, `expected = (num_bins,)`)
            for _ in range(3):
                for x in ast.walk(node):
                    if isinstance(x, ast.Assign) and len(x.targets) == 1 and isinstance(x.targets[0], ast.Name) and x.targets[0].id not in env:
                        try:
                            env[x.targets[0].id] = ceval(x.value, env)
                        except (Unknown, TypeError, IndexError):
                            pass
            fired = []
            undecided = []
            for g in guards:
                try:
                    if bool(ceval(g.test, env)):
                        fired.append(g)
                except (Unknown, TypeError, IndexError) as err:
                    undecided.append((g, err))
                    continue
            if not fired and undecided and what != "valid":
                # a check that cannot be folded for this witness may be the one that rejects it: no verdict
                raise AnalysisError(f"C17.R11: cannot fold `{unparse(undecided[0][0].test)[:60]}` of {cname}.__init__ for the witness '{what}' ({undecided[0][1]})")
            n += 1
            if what == "valid":
                if fired:
                    res.violation("C17.R11", init, fired[0], f"{cname}(…) rejects a valid input ({ {k: v for k, v in shapes.items()} } for {NB} bins) through `{unparse(fired[0].test)[:60]}`: the check is inverted or looks at the wrong axis, so what it is meant to reject passes", key_extra=f"ctor-rejects-valid-{cname}")
                    break
                continue
            if fired:
                res.ok("C17.R11", res.site(init, what), f"rejected by `{unparse(fired[0].test)[:50]}`")
            else:
                res.violation("C17.R11", init, init.node, f"{cname}(…) accepts {what} ({ {k: v for k, v in shapes.items()} }): none of its {len(guards)} raising checks fires — a container of inconsistent shape is built, selections and sums over it mix bins and patches or fail far from the cause", key_extra=f"ctor-accepts-{cname}-{what[:30]}")
    if n < 15 and not any(f.rule == "C17.R11" for f in res.findings):
        raise AnalysisError(f"C17.R11: only {n} witnesses evaluated")


RULES = [
    ("C17.R1", rule_r1, QUICK),
    ("C17.R2", rule_r2, QUICK),
    ("C17.R3", rule_r3, QUICK),
    ("C17.R4", rule_r4, QUICK),
    ("C17.R5", rule_r5, QUICK),
    ("C17.R6", rule_r6, QUICK),
    ("C17.R7", rule_r7, QUICK),
    ("C17.R8", rule_r8, QUICK),
    ("C17.R9", rule_r9, QUICK),
    ("C17.R10", rule_r10, QUICK),
    ("C17.R11", rule_r11, QUICK),
    ("C17.R12", rule_r12, QUICK),
    ("C17.R13", rule_r13, QUICK),
    ("C17.R14", rule_r14, QUICK),
]
