"""CLI:  python -m yawsa check <id> [--tier quick|thorough] [--root /repo]
        python -m yawsa replay <path>
        python -m yawsa list-rules
        python -m yawsa selftest [--jobs N] [--only <id>]
Exit codes: 0 held / 1 VIOLATION printed / 2 ANALYSIS-ERROR."""

from __future__ import annotations

import argparse
import importlib
import json
import os
import sys
import time
import traceback

from .model import AnalysisError, load_program
from .report import Result, emit

PROPS = ["C01", "C02", "C03", "C04", "C05", "C06", "C07", "C08", "C09", "C10", "C11", "C12", "C15", "C16", "C17", "C18"]


def rules_module(prop: str):
    return importlib.import_module(f"yawsa.rules.{prop.lower()}")


def run_check(prop: str, tier: str, root: str, *, write_evidence: bool = True, only_rules=None) -> int:
    t0 = time.time()
    seed = int(os.environ.get("VERIF_SEED", "0") or 0)
    res = Result(prop, None, tier)
    explanation = ""
    error = None
    try:
        mod = rules_module(prop)
        explanation = mod.EXPLANATION + (
            " In addition the generic rule R0 is applied to every function of the files the property is anchored in (and every function the rules above consulted):"
            " names read at run time are bound (compiler symbol tables; imports under TYPE_CHECKING do not count), attributes exist on self and on receivers of an inferred package class,"
            " resolved internal calls fit their signature, no named parameter is ignored, no local is computed and dropped, optional members are tested before they are dereferenced,"
            " values do not cross between sibling roles (ra/dec, left/right, weights/redshifts, min/max, 1/2 …) and no expression is duplicated where its sibling was meant,"
            " data columns and conventions (weights, redshifts, closed, degrees, cosmology, unit) are handed on at internal calls, no integer-typed buffer is filled with computed values."
        )
        prog = load_program(root)
        res.prog = prog
        res.assume(*getattr(mod, "ASSUMPTIONS", []))
        for name, fn, tiers in mod.RULES:
            if tier not in tiers:
                continue
            if only_rules and name not in only_rules:
                continue
            res.rules_run.append(name)
            try:
                fn(prog, res)
            except AnalysisError as err:
                # one rule losing its anchor must not hide what the other rules decide
                error = f"{error}; {err}" if error else f"{err}"
        if not only_rules or f"{prop}.R0" in only_rules:
            # the code the rules consulted is well-formed: a rule that reads the shape of a function says nothing about a
            # name in it that does not exist (the tests do not reach most of these functions)
            from .totality import check_names_bound

            res.rules_run.append(f"{prop}.R0")
            check_names_bound(prog, res, f"{prop}.R0")
    except AnalysisError as err:
        error = f"{err}"
    except Exception as err:  # a crash of the checker is never a verdict
        tb = traceback.format_exc(limit=6)
        error = f"checker crashed: {type(err).__name__}: {err} | {tb.splitlines()[-3].strip() if len(tb.splitlines()) > 3 else ''}"
        sys.stderr.write(tb)
    if tier == "thorough" and write_evidence and not only_rules and not os.environ.get("YAWSA_SELFTEST_CHILD"):
        # checker self-validation on mutated / refactored scratch copies of the current tree
        from . import selftest

        st = selftest.run_selftest(root, only=prop, jobs=min(16, os.cpu_count() or 1), quiet=True)
        res.notes.append({"self_validation": dict(selftest.LAST_SUMMARY)})
        if st != 0:
            msg = f"checker self-validation failed for {selftest.LAST_SUMMARY.get('failed')}"
            error = f"{error}; {msg}" if error else msg
    code = emit(res, wall_s=time.time() - t0, seed=seed, explanation=explanation or f"static analysis of {prop}", error=error, root=root, write_evidence=write_evidence)
    if code == 0:
        n = len(res.obligations)
        print(f"OK property={prop} tier={tier} obligations={n} discharged={sum(1 for o in res.obligations if o.verdict == 'discharged')} rules={len(res.rules_run)} wall={time.time() - t0:.2f}s")
    return code


def main(argv=None) -> int:
    ap = argparse.ArgumentParser(prog="yawsa")
    sub = ap.add_subparsers(dest="cmd", required=True)
    c = sub.add_parser("check")
    c.add_argument("prop")
    c.add_argument("--tier", default=os.environ.get("VERIF_TIER") or "quick", choices=["quick", "thorough"])
    c.add_argument("--root", default="/repo")
    c.add_argument("--no-evidence", action="store_true")
    c.add_argument("--rule", action="append")
    r = sub.add_parser("replay")
    r.add_argument("path")
    sub.add_parser("list-rules")
    s = sub.add_parser("selftest")
    s.add_argument("--jobs", type=int, default=min(16, os.cpu_count() or 1))
    s.add_argument("--only")
    s.add_argument("--root", default="/repo")
    a = ap.parse_args(argv)

    if a.cmd == "check":
        return run_check(a.prop, a.tier, a.root, write_evidence=not a.no_evidence, only_rules=a.rule)
    if a.cmd == "replay":
        with open(a.path, encoding="utf-8") as f:
            j = json.load(f)
        print(json.dumps(j, indent=1))
        root = j.get("root", "/repo")
        if not os.path.isdir(os.path.join(root, "src", "yaw")):
            print(f"(recorded source root {root} no longer exists, replaying against /repo)")
            root = "/repo"
        prop = j["property"]
        print(f"--- re-running rule {j.get('rule')} of {prop} on {root}")
        res_code = run_check(prop, "quick", root, write_evidence=False, only_rules=[j["rule"]] if j.get("rule") else None)
        path = os.path.join(root, j["file"])
        if os.path.exists(path) and j.get("line"):
            lines = open(path, encoding="utf-8").read().splitlines()
            lo, hi = max(0, j["line"] - 4), min(len(lines), j["line"] + 4)
            print("--- source excerpt", j["file"])
            for k in range(lo, hi):
                print(f"{k + 1:5d} {'>>' if k + 1 == j['line'] else '  '} {lines[k]}")
        return res_code
    if a.cmd == "list-rules":
        for p in PROPS:
            try:
                m = rules_module(p)
            except ModuleNotFoundError:
                continue
            for name, fn, tiers in m.RULES:
                print(f"{p} {name:10s} {','.join(tiers):15s} {(fn.__doc__ or '').strip().splitlines()[0] if fn.__doc__ else ''}")
        return 0
    if a.cmd == "selftest":
        from .selftest import run_selftest

        return run_selftest(a.root, only=a.only, jobs=a.jobs)
    return 2


if __name__ == "__main__":
    sys.exit(main())
