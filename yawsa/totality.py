"""Generic totality rules: attribute existence and keyword/arity existence on resolved
receivers and callees.  Used by C15.R1 / C17.R1 (and package-wide in the thorough tier)."""

from __future__ import annotations

import ast

from .model import ClassInfo, External, FuncInfo, Program, dotted, unparse, walk_no_nested


def _narrowed_names(fi: FuncInfo) -> dict[str, ClassInfo]:
    """names narrowed to the class of self by `isinstance(x, type(self))` guards that return/raise otherwise"""
    out = {}
    if fi.cls is None:
        return out
    for x in walk_no_nested(fi.node):
        if isinstance(x, ast.Call) and isinstance(x.func, ast.Name) and x.func.id == "isinstance" and len(x.args) == 2:
            a, t = x.args
            if isinstance(a, ast.Name) and isinstance(t, ast.Call) and isinstance(t.func, ast.Name) and t.func.id == "type":
                out[a.id] = fi.cls
            elif isinstance(a, ast.Name) and isinstance(t, ast.Name) and t.id == fi.cls.name:
                out[a.id] = fi.cls
    return out


def concrete_subclasses(prog: Program, ci: ClassInfo) -> list[ClassInfo]:
    subs = [c for c in [ci] + prog.subclasses(ci)]
    out = []
    for c in subs:
        abstract = any(m.is_abstract for m in _all_methods(prog, c).values())
        if not abstract:
            out.append(c)
    return out


def _all_methods(prog: Program, ci: ClassInfo) -> dict:
    out = {}
    for c in reversed(prog.mro(ci)):
        if isinstance(c, ClassInfo):
            out.update(c.methods)
    return out


_RUNS_ON: dict = {}


def runs_on(prog: Program, fi: FuncInfo, sub: ClassInfo) -> bool:
    """can the method `fi` of a base class run with an instance of the concrete class `sub` as self?  Not when `sub`
    overrides it; and a private method (single underscore) only when a public / special method that `sub` resolves
    reaches it through calls on self — or when something outside the hierarchy mentions the name at all."""
    key = (prog.uid, fi.key, sub.name, id(sub))
    if key in _RUNS_ON:
        return _RUNS_ON[key]
    out = True
    name = fi.name
    if prog.find_method(sub, name) is not fi:
        out = False
    elif name.startswith("_") and not (name.startswith("__") and name.endswith("__")):
        mro = [k for k in prog.mro(sub) if isinstance(k, ClassInfo)]
        names = {n for k in mro for n in k.methods}
        resolved = {n: prog.find_method(sub, n) for n in names}
        hier = {id(m.node) for k in mro for m in k.methods.values()}
        def own(g):  # the name under which a method of another class refers to its own instance
            return (g.param_names() or [None])[0] if g.cls is not None and not g.is_staticmethod else None

        outside = any(
            isinstance(x, ast.Attribute) and x.attr == name and not (isinstance(x.value, ast.Name) and x.value.id == own(g))
            for g in prog.funcs
            if id(g.node) not in hier and (g.parent is None or id(g.parent.node) not in hier)
            for x in ast.walk(g.node)
        )
        if not outside:
            seen: set = set()
            todo = [m for n, m in resolved.items() if m is not None and (not n.startswith("_") or (n.startswith("__") and n.endswith("__")))]
            out = False
            while todo:
                m = todo.pop()
                if id(m) in seen:
                    continue
                seen.add(id(m))
                if m is fi:
                    out = True
                    break
                first = (m.param_names() or [None])[0]
                for x in ast.walk(m.node):
                    if isinstance(x, ast.Attribute) and isinstance(x.value, ast.Name) and x.value.id == first and resolved.get(x.attr) is not None:
                        todo.append(resolved[x.attr])
                    elif isinstance(x, ast.Call) and isinstance(x.func, ast.Name) and x.func.id == "getattr" and len(x.args) >= 2 and isinstance(x.args[0], ast.Name) and x.args[0].id == first:
                        # getattr(self, <name>): any method may be meant unless the name is a literal
                        if isinstance(x.args[1], ast.Constant):
                            if resolved.get(x.args[1].value) is not None:
                                todo.append(resolved[x.args[1].value])
                        else:
                            lits = _iterated_literals(prog, mro, m, first, x.args[1])
                            if lits is not None:
                                todo.extend(resolved[n_] for n_ in lits if resolved.get(n_) is not None)
                            else:
                                todo.extend(v for v in resolved.values() if v is not None)
    _RUNS_ON[key] = out
    return out


def _iterated_literals(prog: Program, mro: list, m: FuncInfo, first: str, name: ast.AST):
    """the strings a loop variable takes when it runs over a literal tuple / a class-level tuple of strings read
    through self (`for name in self._limit_names`); None when that cannot be told"""
    if not isinstance(name, ast.Name):
        return None
    its = [g.iter for x in ast.walk(m.node) if isinstance(x, (ast.GeneratorExp, ast.ListComp, ast.SetComp, ast.DictComp)) for g in x.generators if isinstance(g.target, ast.Name) and g.target.id == name.id]
    its += [x.iter for x in ast.walk(m.node) if isinstance(x, ast.For) and isinstance(x.target, ast.Name) and x.target.id == name.id]
    stores = [x for x in ast.walk(m.node) if isinstance(x, ast.Name) and x.id == name.id and isinstance(x.ctx, ast.Store)]
    if len(its) != 1 or len(stores) != 1:
        return None
    it = its[0]
    if isinstance(it, ast.Attribute) and isinstance(it.value, ast.Name) and it.value.id == first:
        val = None
        for k in mro:
            for st in k.node.body:
                if isinstance(st, ast.Assign) and len(st.targets) == 1 and isinstance(st.targets[0], ast.Name) and st.targets[0].id == it.attr:
                    val = st.value
                elif isinstance(st, ast.AnnAssign) and isinstance(st.target, ast.Name) and st.target.id == it.attr and st.value is not None:
                    val = st.value
            if val is not None:
                break
        it = val
    if isinstance(it, (ast.Tuple, ast.List)) and it.elts and all(isinstance(e, ast.Constant) and isinstance(e.value, str) for e in it.elts):
        return [e.value for e in it.elts]
    return None


def missing_attributes(prog: Program, fi: FuncInfo):
    """[(node, receiver text, attr, classes lacking it)] for attribute loads on receivers typed as
    in-repo classes where the attribute exists in none of the possible classes (for `self`: is missing
    in some concrete class the method can run on)."""
    hits = []
    if fi.cls is None:
        return hits
    env = prog.func_env(fi)
    params = fi.param_names()
    selfname = params[0] if params and not fi.is_staticmethod and not fi.is_classmethod else None
    narrowed = _narrowed_names(fi)
    seen = set()
    for x in walk_no_nested(fi.node):
        if not (isinstance(x, ast.Attribute) and isinstance(x.ctx, ast.Load)):
            continue
        recv = x.value
        classes: list[ClassInfo] = []
        mode = None
        if isinstance(recv, ast.Name) and recv.id == selfname:
            classes = concrete_subclasses(prog, fi.cls) or [fi.cls]
            mode = "self"
        elif isinstance(recv, ast.Name) and recv.id in narrowed:
            classes = concrete_subclasses(prog, fi.cls) or [fi.cls]
            mode = "self"
        else:
            continue
        if x.attr.startswith("__") and x.attr.endswith("__"):
            continue
        if mode == "self" and len(classes) > 1:
            classes = [c for c in classes if c is fi.cls or runs_on(prog, fi, c)] or [fi.cls]
        lacking = [c for c in classes if x.attr not in prog.class_attr_names(c)]
        if lacking and len(lacking) == len(classes) or (mode == "self" and lacking):
            key = (unparse(recv), x.attr)
            if key in seen:
                continue
            seen.add(key)
            hits.append((x, unparse(recv), x.attr, lacking))
    return hits


def _signature(fi: FuncInfo, *, bound: bool):
    a = fi.node.args
    pos = [p.arg for p in [*a.posonlyargs, *a.args]]
    if bound and pos:
        pos = pos[1:]
    kwonly = [p.arg for p in a.kwonlyargs]
    n_defaults = len(a.defaults)
    required_pos = pos[: len(pos) - n_defaults] if n_defaults else list(pos)
    required_kw = [p.arg for p, d in zip(a.kwonlyargs, a.kw_defaults) if d is None]
    posonly = [p.arg for p in a.posonlyargs][(1 if bound else 0) :]
    return dict(pos=pos, kwonly=kwonly, vararg=a.vararg is not None, kwarg=a.kwarg is not None, required_pos=required_pos, required_kw=required_kw, posonly=posonly)


def callee_signatures(prog: Program, fi: FuncInfo, call: ast.Call):
    """[(label, signature)] for precisely resolved in-repo callees; `type(self)(…)` and `cls(…)`
    expand to all concrete subclasses."""
    f = call.func
    out = []
    classes: list[ClassInfo] = []
    if isinstance(f, ast.Call) and isinstance(f.func, ast.Name) and f.func.id == "type" and len(f.args) == 1 and fi.cls is not None:
        a = f.args[0]
        if isinstance(a, ast.Name) and a.id == (fi.param_names() or [None])[0]:
            classes = concrete_subclasses(prog, fi.cls) or [fi.cls]
    elif isinstance(f, ast.Name) and fi.is_classmethod and fi.param_names() and f.id == fi.param_names()[0] and fi.cls is not None:
        classes = concrete_subclasses(prog, fi.cls) or [fi.cls]
    if classes:
        for c in classes:
            init = prog.find_method(c, "__init__")
            if init is not None:
                out.append((f"{c.name}.__init__", _signature(init, bound=True)))
        return out
    tg = prog.resolve_call(fi, call)
    if not tg.precise:
        return out
    for t in tg.targets:
        if isinstance(t, ClassInfo):
            if t.is_dataclass:
                continue
            init = prog.find_method(t, "__init__")
            if init is not None:
                out.append((f"{t.name}.__init__", _signature(init, bound=True)))
        elif isinstance(t, FuncInfo):
            if any(d not in ("classmethod", "staticmethod", "property", "abstractmethod", "abc.abstractmethod") for d in t.decorators()):
                continue  # decorated: signature may be changed
            bound = t.cls is not None and not t.is_staticmethod
            # Class.method(self, …) called through the class: not bound
            if bound and isinstance(f, ast.Attribute):
                env = prog.func_env(fi)
                bt = env.type_of(f.value)
                if any(x[0] == "type" for x in bt) and not t.is_classmethod:
                    bound = False
            out.append((t.short, _signature(t, bound=bound)))
    return out


def bad_arguments(prog: Program, fi: FuncInfo, call: ast.Call):
    """[(label, problem)] for keyword names / positional counts the callee does not accept."""
    probs = []
    has_star = any(isinstance(a, ast.Starred) for a in call.args)
    has_dstar = any(k.arg is None for k in call.keywords)
    npos = len([a for a in call.args if not isinstance(a, ast.Starred)])
    for label, sig in callee_signatures(prog, fi, call):
        for k in call.keywords:
            if k.arg is None:
                continue
            if k.arg not in sig["pos"] and k.arg not in sig["kwonly"] and not sig["kwarg"]:
                probs.append((label, f"unexpected keyword argument '{k.arg}'"))
            if k.arg in sig["posonly"]:
                probs.append((label, f"positional-only parameter '{k.arg}' passed by keyword"))
        if not sig["vararg"] and npos > len(sig["pos"]):
            probs.append((label, f"{npos} positional arguments but only {len(sig['pos'])} accepted"))
        if not has_star and not has_dstar:
            given = set(sig["pos"][:npos]) | {k.arg for k in call.keywords if k.arg}
            miss = [p for p in sig["required_pos"] if p not in given] + [p for p in sig["required_kw"] if p not in given]
            if miss:
                probs.append((label, f"missing required argument(s) {miss}"))
    return probs


# ----------------------------------------------------------------------------- names are bound

_UNBOUND: dict = {}
_MODULE_DUNDERS = {"__file__", "__name__", "__doc__", "__class__", "__package__", "__spec__", "__loader__", "__builtins__", "__path__", "__debug__", "__annotations__", "__dict__", "__qualname__", "__module__"}


def _type_checking_only(tree: ast.Module) -> set:
    """module-level names that are bound ONLY inside `if TYPE_CHECKING:` blocks (they do not exist at run time)"""
    tc: set = set()
    other: set = set()

    def binds(stmts, into) -> None:
        for st in stmts:
            if isinstance(st, (ast.FunctionDef, ast.AsyncFunctionDef, ast.ClassDef)):
                into.add(st.name)
                continue
            for x in ast.walk(st):
                if isinstance(x, (ast.Import, ast.ImportFrom)):
                    for a in x.names:
                        into.add((a.asname or a.name).split(".")[0])
                elif isinstance(x, (ast.FunctionDef, ast.AsyncFunctionDef, ast.ClassDef)):
                    into.add(x.name)
                elif isinstance(x, ast.Name) and isinstance(x.ctx, ast.Store):
                    into.add(x.id)

    for st in tree.body:
        if isinstance(st, ast.If) and any(isinstance(y, (ast.Name, ast.Attribute)) and (getattr(y, "id", None) or getattr(y, "attr", None)) == "TYPE_CHECKING" for y in ast.walk(st.test)) and not any(isinstance(y, ast.Not) for y in ast.walk(st.test)):
            binds(st.body, tc)
            binds(st.orelse, other)
        else:
            binds([st], other)
    return tc - other


def unbound_names(module) -> list:
    """[(scope name, first line of the scope, name)] for names that a function / class body of the module reads at
    run time although nothing binds them: not a local, not a variable of an enclosing function, not a module-level
    name (definitions, imports — those under `if TYPE_CHECKING:` do not count), not a builtin.  Decided with the
    compiler's own symbol tables (`symtable`): annotations are not run-time reads (`from __future__ import
    annotations`), comprehension scopes, global / nonlocal declarations and class scopes are treated as the compiler
    treats them.  A module with a star import is not judged."""
    import builtins
    import symtable

    key = (module.path, hash(module.src))
    if key in _UNBOUND:
        return _UNBOUND[key]
    out: list = []
    try:
        tree = ast.parse(module.src)
        top = symtable.symtable(module.src, module.path, "exec")
    except SyntaxError:
        _UNBOUND[key] = out
        return out
    if any(isinstance(x, ast.ImportFrom) and any(a.name == "*" for a in x.names) for x in ast.walk(tree)):
        _UNBOUND[key] = out
        return out
    future_ann = any(isinstance(x, ast.ImportFrom) and x.module == "__future__" and any(a.name == "annotations" for a in x.names) for x in tree.body)
    bound = {s.get_name() for s in top.get_symbols() if s.is_assigned() or s.is_imported() or s.is_namespace()}
    # names declared `global` in a function and assigned there are module-level names as well
    def walk(t):
        yield t
        for c in t.get_children():
            yield from walk(c)

    for t in walk(top):
        if t is not top:
            for s in t.get_symbols():
                if s.is_declared_global() and s.is_assigned():
                    bound.add(s.get_name())
    tc_only = _type_checking_only(tree) if future_ann else set()
    for t in walk(top):
        if t is top:
            continue
        for s in t.get_symbols():
            n = s.get_name()
            if not (s.is_referenced() and s.is_global()):
                continue
            if n in _MODULE_DUNDERS or hasattr(builtins, n):
                continue
            if n not in bound or n in tc_only:
                out.append((t.get_name(), t.get_lineno(), n))
    _UNBOUND[key] = out
    return out


def check_names_bound(prog: Program, res, rule: str) -> None:
    """every name read at run time in the functions the rules of this check consulted is bound (see unbound_names)"""
    touched = set(res.functions_analysed)
    # … and every function of the files the property is anchored in (properties.jsonl)
    anchored: set = set()
    try:
        import json
        import os

        with open(os.path.join(os.path.dirname(os.path.dirname(os.path.abspath(__file__))), "properties.jsonl"), encoding="utf-8") as fh:
            for line in fh:
                d = json.loads(line)
                if d.get("id") == res.prop:
                    anchored = {a for a in d.get("anchors", {}).get("files", [])}
    except OSError:
        anchored = set()
    mods = {}
    for fi in prog.funcs:
        if fi.key in touched or fi.module.relpath in anchored:
            mods.setdefault(fi.module.path, (fi.module, []))[1].append(fi)
    n = 0
    for _path, (module, funcs) in sorted(mods.items()):
        hits = unbound_names(module)
        spans = [(f, f.node.lineno, getattr(f.node, "end_lineno", f.node.lineno) or f.node.lineno) for f in funcs]
        n += len(funcs)
        for scope, line, name in hits:
            owner = [f for f, lo, hi in spans if lo <= line <= hi]
            if not owner:
                continue
            f = min(owner, key=lambda g: (getattr(g.node, "end_lineno", 0) or 0) - g.node.lineno)
            use = next((x for x in ast.walk(f.node) if isinstance(x, ast.Name) and x.id == name and isinstance(x.ctx, ast.Load)), f.node)
            res.violation(rule, f, use, f"`{name}` is read in {f.short} but nothing binds it (no local, enclosing, module-level or builtin name; imports under `if TYPE_CHECKING:` do not exist at run time): the first call that reaches this line raises NameError", construct=name, key_extra=f"unbound-name-{name}")
    n_attr = 0
    for _path, (module, funcs) in sorted(mods.items()):
        for f in funcs:
            for x, recv, attr, lacking in missing_attributes(prog, f):
                n_attr += 1
                res.violation(rule, f, x, f"{recv}.{attr} does not exist on {', '.join(c.name for c in lacking)} (no method, property, slot, field or instance store): {f.short} raises AttributeError when it gets here", construct=f"{recv}.{attr}", key_extra=f"missing-attr-{attr}")
            for x, recv, attr, classes in missing_attributes_typed(prog, f):
                n_attr += 1
                res.violation(rule, f, x, f"`{recv}.{attr}`: the receiver is a {' | '.join(sorted(c.name for c in classes))}, which has no attribute `{attr}` (no method, property, field, slot or instance store in its hierarchy or its subclasses): {f.short} raises AttributeError when it gets here", construct=f"{recv}.{attr}", key_extra=f"missing-attr-{recv[-30:]}.{attr}")
    for _path, (module, funcs) in sorted(mods.items()):
        for f in funcs:
            for x, place, val, pa, pb in crossed_roles(f):
                res.violation(rule, f, x, f"`{place}` receives `{unparse(val)[:60]}` in {f.short}: what is named after `{pb}` is handed on as `{pa}` (and nothing named after `{pa}` is in it) — the two roles are swapped / one is used twice, silently", construct=f"{place}={unparse(val)[:40]}", key_extra=f"crossed-roles-{place}")
            for x, nm in dropped_locals(f):
                res.violation(rule, f, x, f"`{unparse(x)[:70]}` in {f.short}: the local `{nm}` is never read — what was computed / taken from the input here is dropped instead of being handed on", construct=f"{nm} = …", key_extra=f"dropped-local-{nm}")
            for x, attr in unguarded_optional_members(prog, f):
                res.violation(rule, f, x, f"`{unparse(x)[:50]}` in {f.short}: `{attr}` is an optional constituent of the object (None when it was not given) and nothing on the way here has tested it — AttributeError on None for every object without `{attr}`", construct=unparse(x)[:50], key_extra=f"optional-member-unguarded-{attr}")
            for alloc, store in integer_buffers(f):
                res.violation(rule, f, alloc, f"`{unparse(alloc)[:70]}` allocates an integer-typed buffer and `{unparse(store)[:60]}` stores computed values into it: numpy truncates floating-point values (weighted counts, sums of weights, histograms of weighted objects) on the store, silently — the result is right only for integer-valued data", key_extra=f"integer-buffer-{alloc.targets[0].id}")
            for x, txt, sib in duplicated_siblings(f):
                res.violation(rule, f, x, f"`{txt[:50]}` appears twice in `{unparse(x)[:70]}` of {f.short} although `{sib}` is at hand: one of the two was meant to be the sibling — a check that tests one side twice, a pair built from one member", construct=unparse(x)[:60], key_extra=f"duplicated-sibling-{txt[:30]}")
            for q in ignored_parameters(prog, f):
                res.violation(rule, f, f.node, f"parameter `{q}` of {f.short} is accepted but never read: a caller that sets it gets the behaviour of the default, silently", construct=f"def {f.name}(… {q} …)", key_extra=f"ignored-parameter-{q}")
            for c, lab, opt in dropped_companions(prog, f):
                res.violation(rule, f, c, f"{f.short} has `{opt}` at hand but calls {lab} without it: the callee falls back to its default (no weights / the default convention) — the result is computed as if the caller had not been given `{opt}`, silently", key_extra=f"dropped-{opt}-{lab}")
            for c in [y for y in walk_no_nested(f.node) if isinstance(y, ast.Call)]:
                for lab, pr in bad_arguments(prog, f, c):
                    res.violation(rule, f, c, f"call of {lab} in {f.short}: {pr} — raises TypeError when it gets here", key_extra=f"bad-call-{lab}-{pr[:40]}")
    if n:
        res.ok(rule, "names bound", f"in the {n} consulted functions ({len(mods)} modules): every name read at run time is bound, attributes exist on receivers of a known package class, calls to resolved package callees fit their signature, no named parameter is ignored, no value crosses over between sibling roles (ra/dec, left/right, weights/redshifts, 1/2, …)", nontrivial=False)


def missing_attributes_typed(prog: Program, fi: FuncInfo) -> list:
    """[(node, receiver text, attr, classes)] for attribute loads on receivers OTHER than self whose inferred type is a
    set of classes of the package (annotations, constructor calls, return annotations of resolved callees) none of
    which has the attribute — no method, property, class attribute, slot, annotated field or instance store anywhere
    in its hierarchy, no `__getattr__`, and every external base class known to the analysing interpreter"""
    hits = []
    env = prog.func_env(fi)
    params = fi.param_names()
    selfname = params[0] if params and fi.cls is not None and not fi.is_staticmethod else None
    seen = set()
    base_attrs = set(dir(object))
    for x in walk_no_nested(fi.node):
        if not (isinstance(x, ast.Attribute) and isinstance(x.ctx, ast.Load)):
            continue
        if isinstance(x.value, ast.Name) and x.value.id == selfname:
            continue
        if x.attr.startswith("__") and x.attr.endswith("__"):
            continue
        try:
            ts = env.type_of(x.value)
        except Exception:  # noqa: BLE001
            continue
        if not ts or not all(t[0] == "cls" and isinstance(t[1], ClassInfo) for t in ts):
            continue
        classes = [t[1] for t in ts]
        ok_ = True
        for c in classes:
            subs = [c] + prog.subclasses(c)  # a value typed as C may be an instance of any subclass
            for k in subs:
                for b in prog.mro(k):
                    if isinstance(b, ClassInfo):
                        if "__getattr__" in b.methods or "__getattribute__" in b.methods:
                            ok_ = False
                    elif b.split(".")[-1] not in ("object", "ABC", "Generic", "Protocol") and prog.external_attrs(b) <= base_attrs:
                        ok_ = False
                if x.attr in prog.class_attr_names(k):
                    ok_ = False
        if not ok_:
            continue
        key = (unparse(x.value), x.attr)
        if key in seen:
            continue
        seen.add(key)
        hits.append((x, unparse(x.value), x.attr, classes))
    return hits


# ----------------------------------------------------------------------------- sibling roles, ignored options

import re as _re

_FAMILIES = [
    {"ra", "dec"},
    {"left", "right"},
    {"weights", "redshifts"},
    {"min", "max"},
    {"zmin", "zmax"},
    {"rmin", "rmax"},
    {"lower", "upper"},
    {"ref", "unk"},
    {"dd", "dr", "rd", "rr"},
    {"1", "2"},
]
_CANON = {"weight": "weights", "redshift": "redshifts", "reference": "ref", "unknown": "unk"}


def _role_tokens(name: str) -> set:
    out = set()
    for part in _re.split(r"_+", name):
        part = part.lower()
        m = _re.match(r"^([a-z]+)(\d)$", part)
        if m:
            out.update((m.group(1), m.group(2)))
        elif part:
            out.add(part)
            # a one-letter prefix keeps the role: zleft, zmin, rmax
            for m_ in ("left", "right", "min", "max", "lower", "upper"):
                if part.endswith(m_) and len(part) == len(m_) + 1:
                    out.add(m_)
    return {_CANON.get(t, t) for t in out}


def _thin(e: ast.AST) -> bool:
    """a value that only hands data on: names, attribute chains, subscripts, tuples of those, and tuple()/list() of a
    generator over an attribute — no arithmetic, no other call"""
    if isinstance(e, (ast.Name, ast.Constant)):
        return True
    if isinstance(e, ast.Attribute):
        return _thin(e.value)
    if isinstance(e, ast.Subscript):
        # an element / a keyed member / the whole array (`x[i]`, `x["k"]`, `x[:]`) keeps the role of x; a proper slice
        # (`left[1:]`) is a derived quantity and may legitimately be the sibling (the right edges of contiguous bins)
        sl = e.slice
        if isinstance(sl, ast.Slice) and not (sl.lower is None and sl.upper is None and sl.step is None):
            return False
        if isinstance(sl, ast.Tuple) and any(isinstance(x, ast.Slice) and not (x.lower is None and x.upper is None and x.step is None) for x in sl.elts):
            return False
        return _thin(e.value)
    if isinstance(e, ast.Starred):
        return _thin(e.value)
    if isinstance(e, (ast.Tuple, ast.List)):
        return all(_thin(x) for x in e.elts)
    if isinstance(e, (ast.GeneratorExp, ast.ListComp)):
        return _thin(e.elt) and all(_thin(g.iter) or isinstance(g.iter, ast.Call) and isinstance(g.iter.func, ast.Attribute) and g.iter.func.attr in ("values", "items", "keys") for g in e.generators)
    if isinstance(e, ast.Call) and isinstance(e.func, ast.Name) and e.func.id in ("tuple", "list", "all", "any", "len", "str", "float", "int") and len(e.args) == 1 and not e.keywords:
        return _thin(e.args[0])
    if isinstance(e, ast.Call) and isinstance(e.func, ast.Attribute) and e.func.attr in ("tolist", "squeeze", "copy", "item", "ravel", "flatten") and not e.args and not e.keywords:
        return _thin(e.func.value)
    # layout-only numpy wrappers of one array
    if isinstance(e, ast.Call) and (dotted(e.func) or "").split(".")[0] in ("np", "numpy") and (dotted(e.func) or "").split(".")[-1] in ("transpose", "asarray", "array", "squeeze", "atleast_1d", "atleast_2d", "ascontiguousarray", "copy") and len(e.args) == 1 and not e.keywords:
        return _thin(e.args[0])
    return False


def crossed_roles(fi: FuncInfo) -> list:
    """[(node, place, value)] where a value named after one member of a sibling family (ra / dec, left / right,
    weights / redshifts, min / max, ref / unk, dd / dr / rd / rr, 1 / 2) is handed on — by a keyword binding, an
    attribute store or an assignment of a thin value — to a place named after ANOTHER member and nothing of the place's
    own member is in it.  A plain `name = other_name` is the fallback idiom (`if rd is None: rd = dr`) and is left alone"""
    out = []
    for x in walk_no_nested(fi.node):
        pairs = []
        if isinstance(x, ast.Assign) and len(x.targets) == 1 and isinstance(x.targets[0], (ast.Name, ast.Attribute)):
            t = x.targets[0]
            if not (isinstance(t, ast.Name) and isinstance(x.value, ast.Name)):
                pairs.append((t.id if isinstance(t, ast.Name) else t.attr, x.value))
        elif isinstance(x, ast.Assign) and len(x.targets) == 1 and isinstance(x.targets[0], ast.Subscript) and isinstance(x.targets[0].slice, ast.Constant) and isinstance(x.targets[0].slice.value, str):
            pairs.append((x.targets[0].slice.value, x.value))  # d["zmin"] = …
        if isinstance(x, ast.Dict):
            pairs += [(k.value, v) for k, v in zip(x.keys, x.values) if isinstance(k, ast.Constant) and isinstance(k.value, str)]
        if isinstance(x, ast.Call):
            pairs += [(k.arg, k.value) for k in x.keywords if k.arg]
            # positional arguments of calls to functions of the package, under the callee's parameter names
            pos = getattr(x, "_kwpos", None) or {}
            pairs += [(q, x.args[i]) for q, i in pos.items() if i < len(x.args) and not any(isinstance(a_, ast.Starred) for a_ in x.args[: i + 1])]
        if isinstance(x, ast.Return) and x.value is not None and not (fi.name.startswith("__") and fi.name.endswith("__")):
            # an accessor named after one member hands out that member
            pairs.append((fi.name, x.value))
        # both arms of a conditional expression are values of the place — and so is the name whose presence its test
        # asks about (`self.zmin if zmin is NotSet else zmin`)
        # a conditional expression: the fallback idiom `rd = dr if rd is None else rd` (one arm is the place's own member)
        # is left alone like its statement form; otherwise both arms are values of the place. The name whose presence the
        # test asks about is a value of the place as well (`self.zmin if zmax is NotSet else zmin`)
        def _arms(pl, v):
            if not isinstance(v, ast.IfExp):
                return [v]
            out_ = []
            own = _role_tokens(pl)
            arm_tokens = [set().union(*[_role_tokens(y.id if isinstance(y, ast.Name) else y.attr) for y in ast.walk(a_) if isinstance(y, (ast.Name, ast.Attribute))] or [set()]) for a_ in (v.body, v.orelse)]
            fam_own = [fam & own for fam in _FAMILIES if len(fam & own) == 1]
            fallback = any(any(f <= t for f in fam_own) for t in arm_tokens)
            if not fallback:
                out_ += [v.body, v.orelse]
            if isinstance(v.test, ast.Compare) and len(v.test.ops) == 1 and isinstance(v.test.ops[0], (ast.Is, ast.IsNot)) and isinstance(v.test.left, ast.Name):
                out_.append(v.test.left)
            return out_

        pairs = [(pl, arm) for pl, v in pairs for arm in _arms(pl, v)]
        for place, val in pairs:
            if not _thin(val):
                continue
            called = {id(c.func) for c in ast.walk(val) if isinstance(c, ast.Call)}
            vt: set = set()
            for y in ast.walk(val):
                if id(y) in called:
                    continue
                if isinstance(y, ast.Name):
                    vt |= _role_tokens(y.id)
                elif isinstance(y, ast.Attribute):
                    vt |= _role_tokens(y.attr)
                elif isinstance(y, ast.Subscript) and isinstance(y.slice, ast.Constant) and isinstance(y.slice.value, str) and y.slice.value.isidentifier():
                    vt |= _role_tokens(y.slice.value)  # source["totals1"]
            pt = _role_tokens(place)
            for fam in _FAMILIES:
                a, b = pt & fam, vt & fam
                if len(a) == 1 and b and not (a & b):
                    out.append((x, place, val, next(iter(a)), sorted(b)[0]))
    return out


_used_as_value: dict = {}


def _value_uses(tree: ast.Module) -> set:
    """names that are loaded somewhere in the module other than as the function of a call"""
    called = {id(c.func) for c in ast.walk(tree) if isinstance(c, ast.Call)}
    decos = {id(d) for f in ast.walk(tree) if isinstance(f, (ast.FunctionDef, ast.AsyncFunctionDef, ast.ClassDef)) for d in f.decorator_list}
    return {x.id for x in ast.walk(tree) if isinstance(x, ast.Name) and isinstance(x.ctx, ast.Load) and id(x) not in called and id(x) not in decos}


def ignored_parameters(prog: Program, fi: FuncInfo) -> list:
    """named parameters that the body never reads.  Not judged: `*args` / `**kwargs`, `_`-prefixed names, special
    methods, stubs (abstract, overloads, bodies that only raise / pass), and methods whose signature is imposed by an
    interface (they override a method of a base class or are overridden in a subclass)"""
    node = fi.node
    if fi.name.startswith("__") and fi.name.endswith("__") and fi.name not in ("__init__", "__post_init__", "__call__", "__new__"):
        return []
    if fi.is_abstract or any(d.split(".")[-1] in ("overload", "abstractmethod", "singledispatch", "register") for d in fi.decorators()):
        return []
    body = [s for s in node.body if not (isinstance(s, ast.Expr) and isinstance(s.value, ast.Constant))]
    if not body or all(isinstance(s, (ast.Pass, ast.Raise)) or (isinstance(s, ast.Return) and (s.value is None or isinstance(s.value, ast.Constant))) for s in body):
        return []
    imposed: set = set()  # parameters that another version of the method in the hierarchy declares as well
    if fi.cls is not None:
        for k in prog.mro(fi.cls)[1:]:
            if isinstance(k, ClassInfo) and fi.name in k.methods:
                imposed |= set(k.methods[fi.name].param_names())
            if not isinstance(k, ClassInfo) and fi.name in prog.external_attrs(k) and fi.name not in dir(object):
                return []
        for k in prog.subclasses(fi.cls):
            if fi.name in k.methods:
                imposed |= set(k.methods[fi.name].param_names())
    # a function that is handed around as a value (stored in a table of strategies, passed as a callback) has the
    # signature its users call it with
    for x in ast.walk(fi.module.tree):
        if isinstance(x, ast.Name) and x.id == fi.name and isinstance(x.ctx, ast.Load) and fi.cls is None:
            _used_as_value.setdefault((fi.module.path, id(fi.module.tree)), _value_uses(fi.module.tree))
            break
    if fi.cls is None and fi.name in _used_as_value.get((fi.module.path, id(fi.module.tree)), set()):
        return []
    if fi.name in ("__init__", "__post_init__", "__new__"):
        imposed = set()  # a constructor's parameters are its own: what the base takes as well is handed to super()
    a = node.args
    params = [q.arg for q in [*a.posonlyargs, *a.args, *a.kwonlyargs]]
    if fi.cls is not None and not fi.is_staticmethod and params:
        params = params[1:]
    used = {y.id for s in node.body for y in ast.walk(s) if isinstance(y, ast.Name)}
    if any(isinstance(y, ast.Call) and isinstance(y.func, ast.Name) and y.func.id in ("locals", "vars") for s in node.body for y in ast.walk(s)):
        return []
    return [q for q in params if not q.startswith("_") and q not in used and q not in imposed]


# one named exception, confirmed by reading: crosscorrelate builds its log line with `", RR" if count_dr and count_dr`
# (meant: count_dr and count_rd). The value only selects a piece of the message — RR is counted whenever both random
# catalogs are given, whatever the message says — so no property is touched; a rewrite that keeps the expression but
# moves it out of the logger call must stay silent as well
_DUPLICATE_EXCEPTIONS = {("crosscorrelate", "count_dr and count_dr")}


def duplicated_siblings(fi: FuncInfo) -> list:
    """[(node, text, sibling)]: a sequence — the elements of a tuple / list, the arguments of a call, the operands of a
    boolean operation or comparison — holds the SAME expression twice, the expression is named after one member of a
    sibling family and the function has the like-named other member at hand (`(zmin, zmin)` where `zmax` exists,
    `a.ndim != 2 or a.ndim != 2` where `b` exists): one of the two was meant to be the sibling.  Log / warning calls are
    not judged"""
    bound = {x.id for x in ast.walk(fi.node) if isinstance(x, ast.Name)} | {a.arg for a in ast.walk(fi.node) if isinstance(a, ast.arg)} | {x.attr for x in ast.walk(fi.node) if isinstance(x, ast.Attribute)}
    logs: set = set()
    for c in ast.walk(fi.node):
        if isinstance(c, ast.Call) and ((isinstance(c.func, ast.Attribute) and isinstance(c.func.value, ast.Name) and c.func.value.id in ("logger", "logging", "warnings", "log")) or (isinstance(c.func, ast.Name) and c.func.id in ("print", "warn"))):
            logs |= {id(y) for y in ast.walk(c)}
    for c in ast.walk(fi.node):
        # … nor the test of a conditional expression that only chooses between pieces of text (message building)
        if isinstance(c, ast.IfExp) and all(isinstance(a_, ast.Constant) and isinstance(a_.value, str) for a_ in (c.body, c.orelse)):
            logs |= {id(y) for y in ast.walk(c.test)}
    out = []
    for x in walk_no_nested(fi.node):
        if id(x) in logs:
            continue
        if isinstance(x, (ast.Tuple, ast.List)):
            seq = x.elts
        elif isinstance(x, ast.Call):
            seq = list(x.args)
        elif isinstance(x, ast.BoolOp):
            seq = x.values
        elif isinstance(x, ast.Compare):
            seq = [x.left, *x.comparators]
        else:
            continue
        if len(seq) < 2:
            continue
        txt = [unparse(e) for e in seq]
        if (fi.name, unparse(x)) in _DUPLICATE_EXCEPTIONS:
            continue
        for i in range(len(seq)):
            for j in range(i + 1, len(seq)):
                if txt[i] != txt[j] or isinstance(seq[i], ast.Constant):
                    continue
                for y in ast.walk(seq[i]):
                    nm = y.id if isinstance(y, ast.Name) else y.attr if isinstance(y, ast.Attribute) else None
                    if not nm:
                        continue
                    for fam in _FAMILIES:
                        for a in fam:
                            if not _re.search(rf"(^|_|[a-z]){a}($|_|\d)" if not a.isdigit() else rf"[A-Za-z_]{a}$", nm):
                                continue
                            for b in fam - {a}:
                                cand = (nm[:-1] + b) if a.isdigit() else _re.sub(rf"{a}(?=$|_|\d)", b, nm, count=1)
                                if cand != nm and cand in bound and not any(o[0] is x for o in out):
                                    out.append((x, txt[i], cand))
    return out


# ----------------------------------------------------------------------------- data and conventions travel along

CARRIED = ("weights", "redshifts", "closed", "degrees", "cosmology", "unit")


def dropped_companions(prog: Program, fi: FuncInfo) -> list:
    """[(call, callee label, parameter)]: an internal call whose (precisely resolved) callee declares one of the
    optional data columns / conventions of the package — weights, redshifts (data that travel with the coordinates),
    closed, degrees, cosmology, unit (conventions with a default) — and the call leaves it to the default.  On the
    pinned tree every one of the 77 such calls binds them (confirmed by reading; the callee's default is for the end
    user, not for internal hand-overs): a call that drops one computes silently without the weights / with the default
    convention although the caller was given another"""
    from .rules.common import calls_in, named_args

    out = []
    for c in calls_in(fi):
        if any(k.arg is None for k in c.keywords) or any(isinstance(a, ast.Starred) for a in c.args):
            continue
        try:
            tg = prog.resolve_call(fi, c)
        except Exception:  # noqa: BLE001
            continue
        callees = []
        if tg.precise:
            callees = [t for t in list(tg.funcs()) + [prog.find_method(ci, "__init__") for ci in tg.classes() if not ci.is_dataclass] if t is not None]
        dispatched = False
        if not callees and isinstance(c.func, ast.Name):
            # a method picked by name: f = getattr(<object of a package class>, <name>) — any public method may be meant
            from .dataflow import all_def_values

            vals = [v for v in all_def_values(fi.node, c.func.id) if v is not None]
            if len(vals) == 1 and isinstance(vals[0], ast.Call) and isinstance(vals[0].func, ast.Name) and vals[0].func.id == "getattr" and len(vals[0].args) >= 2:
                ts = prog.func_env(fi).type_of(vals[0].args[0])
                if ts and all(t[0] == "cls" and isinstance(t[1], ClassInfo) for t in ts):
                    callees = [m for t in ts for m in t[1].methods.values() if not m.name.startswith("_") and not m.is_property]
                    dispatched = bool(callees)
            elif len(vals) == 1 and isinstance(vals[0], ast.Call):
                # … or by a selector method of the class that returns getattr(self, <name>)
                try:
                    sel = [t for t in prog.resolve_call(fi, vals[0]).funcs() if t.cls is not None]
                except Exception:  # noqa: BLE001
                    sel = []
                for m_ in sel:
                    rets = [y.value for y in walk_no_nested(m_.node) if isinstance(y, ast.Return) and y.value is not None]
                    me_ = (m_.param_names() or [None])[0]
                    if rets and all(isinstance(r_, ast.Call) and isinstance(r_.func, ast.Name) and r_.func.id == "getattr" and len(r_.args) >= 2 and isinstance(r_.args[0], ast.Name) and r_.args[0].id == me_ for r_ in rets):
                        callees += [m for m in m_.cls.methods.values() if not m.name.startswith("_") and not m.is_property and m is not m_ and not m.is_classmethod and not m.is_staticmethod]
                dispatched = bool(callees)
        if not callees or (getattr(c, "_kwpos", None) is None and not dispatched):
            continue
        bound = {pn for pn, _ in named_args(c)} | {k.arg for k in c.keywords if k.arg}
        for opt in CARRIED:
            if not all(opt in t.param_names() for t in callees):
                continue
            # conventions: the caller has something to hand on (a parameter, local or attribute of that name); data
            # columns are handed on wherever the callee takes them
            has = opt in fi.param_names() or any((isinstance(y, ast.Name) and y.id == opt) or (isinstance(y, ast.Attribute) and y.attr == opt) or (isinstance(y, ast.Constant) and y.value == opt) for y in ast.walk(fi.node))
            if opt not in bound and (has or opt in ("weights", "redshifts")):
                out.append((c, callees[0].short, opt))
    return out


# ----------------------------------------------------------------------------- integer buffers

_INT_DTYPES = {"int", "int8", "int16", "int32", "int64", "intp", "int_", "uint8", "uint16", "uint32", "uint64", "bool", "bool_", "short", "intc", "longlong", "byte", "ubyte"}


def _is_int_dtype(e) -> bool:
    if isinstance(e, ast.Constant) and isinstance(e.value, str):
        return e.value.lstrip("<>=|")[:1] in ("i", "u", "b", "?") and not e.value.startswith("f")
    d = dotted(e)
    if d is None:
        return False
    parts = d.split(".")
    return (len(parts) == 1 and parts[0] in ("int", "bool")) or (len(parts) == 2 and parts[0] in ("np", "numpy") and parts[1] in _INT_DTYPES)


def integer_buffers(fi: FuncInfo) -> list:
    """[(allocation, store)]: an array allocated with an explicit integer / boolean element type (np.empty / zeros /
    full / ones(…, dtype=int…)) into which the function then stores computed values by subscript assignment — weighted
    counts, sums of weights and histograms are floating-point in this package, numpy truncates them silently on the
    store.  Stores of integer literals, lengths and loop indices are not judged"""
    out = []
    allocs = {}
    for x in walk_no_nested(fi.node):
        if isinstance(x, ast.Assign) and len(x.targets) == 1 and isinstance(x.targets[0], ast.Name) and isinstance(x.value, ast.Call):
            fn = (dotted(x.value.func) or "").split(".")
            if fn[0] in ("np", "numpy") and fn[-1] in ("empty", "zeros", "ones", "full", "empty_like", "zeros_like", "ones_like", "full_like"):
                dt = next((k.value for k in x.value.keywords if k.arg == "dtype"), None)
                if dt is not None and _is_int_dtype(dt):
                    allocs[x.targets[0].id] = x
    if not allocs:
        return out
    for x in walk_no_nested(fi.node):
        if isinstance(x, (ast.Assign, ast.AugAssign)):
            tgts = x.targets if isinstance(x, ast.Assign) else [x.target]
            for t in tgts:
                if isinstance(t, ast.Subscript) and isinstance(t.value, ast.Name) and t.value.id in allocs:
                    v = x.value
                    trivially_int = isinstance(v, ast.Constant) and isinstance(v.value, (int, bool)) or (isinstance(v, ast.Call) and isinstance(v.func, ast.Name) and v.func.id in ("len", "int", "bool", "range"))
                    if not trivially_int:
                        out.append((allocs[t.value.id], x))
    return out


# ----------------------------------------------------------------------------- dropped values, optional members


def dropped_locals(fi: FuncInfo) -> list:
    """[(assignment, name)]: a local that is assigned once-or-more by `name = <expr>` and never read anywhere in the
    function (nested functions included): what was computed / taken from the input is dropped — typically the hand-over
    to the constructor or to the next call was lost.  `_`-prefixed names, global / nonlocal names and tuple targets are
    not judged.  (No instance on the pinned tree.)"""
    loads = {x.id for x in ast.walk(fi.node) if isinstance(x, ast.Name) and isinstance(x.ctx, (ast.Load, ast.Del))}
    outer = {n_ for x in ast.walk(fi.node) if isinstance(x, (ast.Global, ast.Nonlocal)) for n_ in x.names}
    uses_locals = any(isinstance(y, ast.Call) and isinstance(y.func, ast.Name) and y.func.id in ("locals", "vars") for y in ast.walk(fi.node))
    out = []
    if uses_locals:
        return out
    for x in walk_no_nested(fi.node):
        if isinstance(x, ast.Assign) and len(x.targets) == 1 and isinstance(x.targets[0], ast.Name):
            nm = x.targets[0].id
            if nm not in loads and nm not in outer and not nm.startswith("_") and not any(o[1] == nm for o in out):
                out.append((x, nm))
    return out


def unguarded_optional_members(prog: Program, fi: FuncInfo) -> list:
    """[(node, attr)]: `self.<member>.<x>` where <member> is an optional constituent of the object (a constructor
    parameter annotated `… | None` that is kept under its own name, or a field annotated so) and no test on
    `self.<member>` guards the access on the way to it"""
    from .cfg import cfg_of

    ci = fi.cls
    if ci is None:
        return []
    if fi.name in ("__init__", "__post_init__", "__new__", "__setstate__"):
        return []  # while the object is built the tests are on the parameters
    opt = set()
    init = prog.find_method(ci, "__init__")
    names = prog.class_attr_names(ci)
    if init is not None:
        a = init.node.args
        optional_params = {q.arg for q in [*a.args, *a.kwonlyargs] if q.annotation is not None and "None" in unparse(q.annotation)}
        generic_store = any(isinstance(y, ast.Call) and isinstance(y.func, ast.Name) and y.func.id == "setattr" and len(y.args) == 3 and isinstance(y.args[1], ast.Name) for y in ast.walk(init.node))
        for y in ast.walk(init.node):
            # the member is stored as it was given: self.x = x (a raw optional parameter) or self.x = None
            if isinstance(y, ast.Assign) and len(y.targets) == 1 and isinstance(y.targets[0], ast.Attribute) and isinstance(y.targets[0].value, ast.Name) and y.targets[0].value.id == init.param_names()[0]:
                if isinstance(y.value, ast.Name) and y.value.id in optional_params and not any(isinstance(z, ast.Name) and z.id == y.value.id and isinstance(z.ctx, ast.Store) for z in ast.walk(init.node)):
                    opt.add(y.targets[0].attr)
        if generic_store:
            opt |= {q for q in optional_params if q in names and q in (ci.slots or [])}
    for k in [c for c in prog.mro(ci) if isinstance(c, ClassInfo) and c.is_dataclass]:
        for nm, ann in k.class_ann.items():
            if "None" in unparse(ann):
                opt.add(nm)
    # an attribute that some method re-assigns is not judged (it may be filled in later)
    for m in [m_ for k in prog.mro(ci) if isinstance(k, ClassInfo) for m_ in k.methods.values() if m_.name not in ("__init__", "__post_init__")]:
        for y in ast.walk(m.node):
            if isinstance(y, (ast.Assign, ast.AugAssign, ast.AnnAssign)):
                for t in (y.targets if isinstance(y, ast.Assign) else [y.target]):
                    if isinstance(t, ast.Attribute) and isinstance(t.value, ast.Name) and t.attr in opt:
                        opt.discard(t.attr)
    if not opt:
        return []
    params = fi.param_names()
    me = params[0] if params and not fi.is_staticmethod and not fi.is_classmethod else None
    if me is None:
        return []
    out = []
    cfg = None
    for x in walk_no_nested(fi.node):
        if isinstance(x, ast.Attribute) and isinstance(x.ctx, ast.Load) and isinstance(x.value, ast.Attribute) and isinstance(x.value.value, ast.Name) and x.value.value.id == me and x.value.attr in opt:
            cfg = cfg or cfg_of(fi.node)
            txt = f"{me}.{x.value.attr}"
            guarded = any(txt in unparse(t) for nd in cfg.node_containing(x) for t, _pol in cfg.guards(nd))
            if not guarded:
                # a guard inside the same expression: `m is not None and m.x`, `m.x if m is not None else …`
                for y in ast.walk(fi.node):
                    if isinstance(y, (ast.BoolOp, ast.IfExp)) and any(z is x for z in ast.walk(y)):
                        tests = y.values[:-1] if isinstance(y, ast.BoolOp) else [y.test]
                        if any(txt in unparse(t) for t in tests):
                            guarded = True
            if not guarded and not any(o[1] == x.value.attr for o in out):
                out.append((x, x.value.attr))
    return out
