"""Reproducers for findings #12-#16 (C09/C08/C12).  Development aid, not a registered check.
usage: YAW_NUM_THREADS=<n> /venv/bin/python findings/demos/c09_fail_stop.py <case>
cases: rmtree | marker_on_failure | hang | exit_status | centres
exit 0 = behaves as the property demands, 1 = defect reproduced"""
import os, sys, tempfile, shutil
import numpy as np, pandas as pd

case = sys.argv[1]
tmp = tempfile.mkdtemp(prefix="yawdemo_")
import yaw
from yaw import Catalog, AngularCoordinates

def frame(n=200, nan_at=None, seed=1):
    rng = np.random.default_rng(seed)
    df = pd.DataFrame(dict(ra=rng.uniform(0, 20, n), dec=rng.uniform(-10, 10, n), z=rng.uniform(0.1, 1, n)))
    if nan_at is not None:
        df.loc[nan_at, "ra"] = np.nan
    return df

centers = AngularCoordinates(np.deg2rad([[5.0, 0.0], [15.0, 0.0]]))
rc = 0
try:
    if case == "rmtree":
        victim = os.path.join(tmp, "not_a_cache"); os.makedirs(os.path.join(victim, "sub"))
        open(os.path.join(victim, "sub", "precious.txt"), "w").write("x")
        try:
            Catalog.from_dataframe(victim, frame(), ra_name="ra", dec_name="dec", patch_centers=centers, overwrite=True)
            print("no error raised")
        except Exception as e:
            print("raised", type(e).__name__, e)
        if not os.path.exists(os.path.join(victim, "sub", "precious.txt")):
            print("DEFECT: unrelated directory tree was deleted"); rc = 1
    elif case == "marker_on_failure":
        path = os.path.join(tmp, "cat")
        try:
            Catalog.from_dataframe(path, frame(nan_at=150), ra_name="ra", dec_name="dec", patch_centers=centers, chunksize=50)
            print("DEFECT: no error for NaN"); rc = 1
        except ValueError as e:
            print("raised", e)
        try:
            cat = Catalog(path)
            print("DEFECT: failed creation re-opens as catalog with", sum(cat.get_num_records()), "records"); rc = 1
        except Exception as e:
            print("re-open fails as it should:", type(e).__name__)
    elif case == "hang":
        path = os.path.join(tmp, "cat")
        try:
            Catalog.from_dataframe(path, frame(nan_at=150), ra_name="ra", dec_name="dec", patch_centers=centers, chunksize=50)
            print("DEFECT: no error"); rc = 1
        except ValueError as e:
            print("raised (no hang):", e)
        try:
            Catalog(path); print("DEFECT: partial catalog opens"); rc = 1
        except Exception as e:
            print("re-open fails as it should:", type(e).__name__)
    elif case == "exit_status":
        path = os.path.join(tmp, "cat")
        Catalog.from_dataframe(path, frame(seed=1), ra_name="ra", dec_name="dec", patch_centers=centers)
        old = sum(Catalog(path).get_num_records())
        try:
            cat = Catalog.from_dataframe(path, frame(n=300, seed=2), ra_name="ra", dec_name="dec", patch_centers=centers, overwrite=False)
            print("DEFECT: no FileExistsError; returned catalog with", sum(cat.get_num_records()), "records (old data had", old, ")"); rc = 1
        except FileExistsError as e:
            print("raised FileExistsError as it should")
        except Exception as e:
            print("raised", type(e).__name__, e)
    elif case == "centres":
        path = os.path.join(tmp, "cat")
        c3 = AngularCoordinates(np.deg2rad([[5.0, 0.0], [15.0, 0.0], [200.0, 60.0], [10.0, 8.0]]))
        try:
            cat = Catalog.from_dataframe(path, frame(), ra_name="ra", dec_name="dec", patch_centers=c3)
            ids = sorted(cat.keys())
            got = cat.get_centers().data
            print("patch ids", ids)
            for pid, c in zip(ids, got):
                if not np.allclose(c, c3.data[pid]):
                    print(f"DEFECT: patch {pid} has centre {np.rad2deg(c)} but centre {pid} is {np.rad2deg(c3.data[pid])}"); rc = 1
            if rc == 0: print("DEFECT: centre without objects accepted silently"); rc = 1
        except Exception as e:
            print("raised", type(e).__name__, e)
            try:
                Catalog(path); print("DEFECT: failed creation leaves a valid catalog"); rc = 1
            except Exception as e2:
                print("re-open fails as it should:", type(e2).__name__)
finally:
    shutil.rmtree(tmp, ignore_errors=True)
sys.exit(rc)
