"""C16 — random catalogs: exact size, footprint, joint attributes, reproducible by seed (structural part).

R1 RNG discipline: every draw in the generator classes is a method of the seeded self.rng.
R2 a reseed dominates the first draw of every pass; the generator state derives from the seed only.
R3 weights and redshifts are indexed by one single draw of the row index, within [0, data_size).
R4 last-chunk size affine form (= C18.R2 part 6).
R5 unit typing: window limits deg->rad, sin/arcsin pair on the latitude axis, sizes = probe_size, degrees=False.
Not decided: uniformity, window containment.
"""

from __future__ import annotations

import ast

from ..cfg import cfg_of
from ..dataflow import all_def_values, depends_on
from ..effects import classify_call, summaries
from ..model import AnalysisError, dotted, norm_stmt, unparse, walk_no_nested
from . import c18
from .common import QUICK, calls_in, kwarg

EXPLANATION = (
    "Static effect and def-use analysis of the random generators on /repo's current source (the healpy based "
    "generator is analysed although healpy cannot be imported here). R1 classifies every call into numpy.random / "
    "random: draws must be methods of the generator object self.rng, module-level draws use the global, unseeded "
    "state and break reproducibility by seed (a positive fixture proves the classifier still recognises such a call). "
    "R2: reseed() is called on every path before the first draw of a pass and builds self.rng from self.seed only. "
    "R3: one single index draw feeds both attribute columns. R4/R5: sizes and units."
    ' R2 also explores reseed() with the seed parameter at its own default: the stored seed must not change.'
)
ASSUMPTIONS = [
    "numpy.random.default_rng(seed) with a fixed seed sequence produces a deterministic stream; numpy.random.<function> at module level uses the global state",
    "Generator.integers(low, high) excludes high",
]

FIXTURE = """
import numpy as np
class Fixture:
    def draw(self, n):
        return np.random.choice(np.arange(10), size=n)
"""


def _generator_classes(prog):
    base = prog.find_class("RandomsBase")
    return base, [base] + prog.subclasses(base)


def rule_r1(prog, res) -> None:
    """all randomness through the seeded generator object"""
    # positive fixture: the classifier must flag a module-level draw
    import tempfile, os, shutil
    from ..model import Program

    tmp = tempfile.mkdtemp(prefix="yawsa_fixture_")
    try:
        os.makedirs(os.path.join(tmp, "src", "yaw"))
        with open(os.path.join(tmp, "src", "yaw", "fixture.py"), "w") as f:
            f.write(FIXTURE)
        fp = Program(tmp)
        ffi = fp.func("Fixture.draw")
        hit = [e for c in calls_in(ffi) for e in classify_call(fp, ffi, c) if e.kind == "rng" and e.op.startswith("global:")]
        if not hit:
            raise AnalysisError("C16.R1: positive fixture (np.random.choice) is no longer recognised by the effect table")
    finally:
        shutil.rmtree(tmp, ignore_errors=True)
    base, classes = _generator_classes(prog)
    S = summaries(prog)
    draws = 0
    for ci in classes:
        for m in ci.methods.values():
            res.touch(m)
            for e in S.direct(m):
                if e.kind != "rng":
                    continue
                if e.op.startswith("global:"):
                    name = e.op.split(":", 1)[1]
                    if m.name == "reseed" and name.split(".")[-1] in ("SeedSequence", "default_rng"):
                        continue
                    draws += 1
                    res.violation(
                        "C16.R1",
                        m,
                        e.call,
                        f"{name} draws from numpy's global random state instead of the generator seeded by this object: the points are not reproducible by seed",
                        key_extra=f"global-rng-{name}",
                    )
                else:
                    draws += 1
                    res.ok("C16.R1", res.site(m, norm_stmt(e.call)[:50]), "draw is a method of the seeded self.rng")
            # stdlib random / os.urandom / time based entropy
            for c in calls_in(m):
                for n in prog.resolve_call(m, c).ext_names():
                    if n.startswith(("random.", "secrets.", "os.urandom", "time.")):
                        res.violation("C16.R1", m, c, f"{n} introduces entropy that does not come from the seed", key_extra=f"entropy-{n}")
    if draws < 4:
        raise AnalysisError(f"C16.R1: only {draws} random draws found in the generator classes, minimum 4")


def S_reach(prog, fi):
    """functions reachable from fi through precisely resolved calls, restricted to the reader / generator classes"""
    return [f for f in summaries(prog).reachable(fi) if f.cls is not None]


def rule_r2(prog, res) -> None:
    """reseed dominates the first draw of every pass; generator state from the seed only"""
    base, classes = _generator_classes(prog)
    rs = base.methods.get("reseed")
    if rs is None:
        raise AnalysisError("C16.R2: RandomsBase.reseed vanished")
    res.touch(rs)
    # decided on the symbolic store (a helper that builds the generator is looked through): on every path the new
    # generator is default_rng(<something derived from the seed that is stored / was just given>)
    from .. import symx as _sx

    rpaths0 = [p for p in _sx.explore(prog, rs, inline=lambda caller, call_, callee: callee.module is caller.module and not callee.is_property) if p.outcome != "raise"]
    ok = bool(rpaths0)
    stale_spawn = None
    for p in rpaths0:
        v = p.store.get("self.rng")
        if not (isinstance(v, ast.Call) and (dotted(v.func) or "").split(".")[-1] == "default_rng" and v.args):
            ok = False
            continue
        seed_now = p.store.get("self.seed")
        texts = {"self.seed"} | ({unparse(seed_now)} if seed_now is not None else set())
        if not any(t in unparse(v.args[0]) for t in texts):
            ok = False
        # SeedSequence.spawn is stateful (each call hands out the NEXT child): a sequence that is spawned must be built
        # afresh from the seed inside reseed, not kept on the object between calls
        for y in ast.walk(v):
            if isinstance(y, ast.Call) and isinstance(y.func, ast.Attribute) and y.func.attr == "spawn":
                rcv = y.func.value
                if not (isinstance(rcv, ast.Call) and (dotted(rcv.func) or "").split(".")[-1] == "SeedSequence"):
                    stale_spawn = y
    if stale_spawn is not None:
        res.violation("C16.R2", rs, rs.node, f"reseed spawns its generator seed from a SeedSequence that lives on the object (`{unparse(stale_spawn)[:60]}`): spawn() is stateful, every reseed hands out the NEXT child stream — the same seed gives other points on the second pass / after any earlier use", key_extra="reseed-stateful-spawn")
    elif ok:
        res.ok("C16.R2", res.site(rs), "self.rng = default_rng(<derived from self.seed>)")
    else:
        res.violation("C16.R2", rs, rs.node, "reseed does not rebuild the generator from self.seed alone (e.g. default_rng() without seed)", key_extra="reseed-not-from-seed")
    seedst = [x for x in walk_no_nested(rs.node) if isinstance(x, ast.Assign) and any(unparse(t) == "self.seed" for t in x.targets)]
    cfg = cfg_of(rs.node)
    if seedst and all(any("seed is not None" in unparse(t) and pol for t, pol in cfg.guards(n)) for s_ in seedst for n in cfg.nodes_of(s_)):
        res.ok("C16.R2", res.site(rs, "seed"), "the stored seed only changes when a new seed is given")
    else:
        res.violation("C16.R2", rs, rs.node, "reseed() without argument changes the stored seed", key_extra="reseed-changes-seed")
    # the argument-less call (what the reader issues at the start of every pass) leaves the stored seed alone: explored
    # with the parameter bound to its own default
    a_ = rs.node.args
    pnames = [q.arg for q in a_.args]
    dflt = dict(zip(pnames[len(pnames) - len(a_.defaults) :], a_.defaults))
    dflt.update({q.arg: d for q, d in zip(a_.kwonlyargs, a_.kw_defaults) if d is not None})
    sp = next((q for q in rs.param_names()[1:]), None)
    if sp is None or sp not in dflt:
        res.violation("C16.R2", rs, rs.node, "reseed cannot be called without a seed any more: the reader's re-seeding at the start of a pass fails or has to invent a seed", key_extra="reseed-needs-argument")
    else:
        changed = None
        for p in _sx.Explorer(prog, inline=lambda caller, call_, callee: callee.module is caller.module and not callee.is_property).run(rs, {sp: dflt[sp]}):
            if p.outcome == "raise":
                continue
            for ev in p.events:
                if ev.kind == "store" and isinstance(ev.expr, ast.Attribute) and ev.expr.attr == "seed" and isinstance(ev.expr.value, ast.Name) and ev.expr.value.id == "self":
                    if not (ev.value is not None and _sx.mentions(ev.value, lambda y: isinstance(y, ast.Attribute) and y.attr == "seed")):
                        changed = ev
        if changed is not None:
            res.violation(
                "C16.R2",
                rs,
                changed.node,
                f"reseed() without argument stores {unparse(changed.value)[:40] if changed.value is not None else '?'} as the seed (default of `{sp}` is {unparse(dflt[sp])}): every pass of a reader over a generator created with another seed silently continues with this one — catalogs of different seeds are identical",
                key_extra="reseed-default-overwrites-seed",
            )
        else:
            res.ok("C16.R2", res.site(rs, "argument-less"), f"reseed() with {sp} left at its default ({unparse(dflt[sp])}) keeps the stored seed")
    init = base.methods["__init__"]
    if any(isinstance(c.func, ast.Attribute) and c.func.attr == "reseed" for c in calls_in(init)):
        res.ok("C16.R2", res.site(init), "generator is seeded at construction")
    else:
        res.violation("C16.R2", init, init.node, "generator is not seeded at construction", key_extra="init-no-seed")
    rr = prog.find_class("RandomReader")
    n = 0
    for m in rr.methods.values():
        cfgm = cfg_of(m.node)
        draws = [nd for nd in cfgm.nodes if any(isinstance(c.func, ast.Attribute) and unparse(c.func) == "self.generator" or unparse(c.func) == "self.generator" for c in nd.calls())]
        if not draws or m.name == "_get_next_chunk":
            continue
        n += 1
        res.touch(m)
        seeds = [nd for nd in cfgm.nodes if any(isinstance(c.func, ast.Attribute) and c.func.attr == "reseed" for c in nd.calls())]
        if seeds and all(any(cfgm.dominates(s_, d) for s_ in seeds) for d in draws):
            res.ok("C16.R2", res.site(m), "generator.reseed() dominates the draw")
        else:
            res.violation("C16.R2", m, draws[0].ast, f"RandomReader.{m.name} draws without re-seeding first: the probe depends on how often the generator was used before", key_extra=f"{m.name}-no-reseed")
    rst = rr.methods.get("_reset_iter_state")
    from .. import symx

    skipping = None
    if rst is not None:
        # every normal return of the reset passes the re-seed (an early return that depends on the iteration state skips it)
        rpaths = [p for p in symx.explore(prog, rst, inline=symx.inline_private_helpers(prog)) if p.outcome != "raise"]
        skipping = [p for p in rpaths if not p.calls("reseed")]
    if rst is None or skipping is None or skipping or not rpaths:
        why = f" (skipped when {skipping[0].cond_text()[:80]})" if skipping else ""
        res.violation("C16.R2", rst or rr.methods["__init__"], (rst or rr.methods["__init__"]).node, f"starting a pass over the random reader does not always re-seed the generator{why}: the points then depend on what was drawn from the generator before", key_extra="pass-no-reseed")
    else:
        res.ok("C16.R2", res.site(rst), f"every pass (_reset_iter_state) re-seeds the generator on all {len(rpaths)} path(s)")
    # chunks of one pass continue one random stream: nothing reachable from the chunk generation re-seeds
    gnc = rr.methods.get("_get_next_chunk")
    if gnc is None:
        raise AnalysisError("C16.R2: RandomReader._get_next_chunk vanished")
    res.touch(gnc)
    reseeders = [f for f in S_reach(prog, gnc) if any(isinstance(c.func, ast.Attribute) and c.func.attr in ("reseed", "default_rng", "seed") for c in calls_in(f))]
    if reseeders:
        res.violation(
            "C16.R2",
            gnc,
            gnc.node,
            f"generating a chunk reaches {sorted(f.qualname for f in reseeders)}, which re-seeds the generator: every chunk restarts the random stream, a catalog of several chunks repeats the same points "
            "(not uniform, not independent)",
            key_extra="chunk-reseeds",
        )
    else:
        res.ok("C16.R2", res.site(gnc, "no reseed"), "no re-seeding is reachable from the generation of a chunk: the chunks of a pass are consecutive draws of one stream")
    if n < 1:
        raise AnalysisError("C16.R2: no direct draw outside the chunk loop found (get_probe vanished?)")


def rule_r3(prog, res) -> None:
    """weights and redshifts indexed by one single draw"""
    base, _ = _generator_classes(prog)
    da = base.methods.get("_draw_attributes")
    if da is None:
        raise AnalysisError("C16.R3: _draw_attributes vanished")
    res.touch(da)
    # decided on the symbolic store of _draw_attributes with both attribute arrays present: the returned dictionary
    # holds self.weights[I] and self.redshifts[I] for ONE expression I, which is a single draw
    # rng.integers(0, data_size, size=<requested>) on that path
    from .. import symx
    from ..effects import ceval as _ceval

    size_p = da.param_names()[1]
    fenv = {"self.has_weights": True, "self.has_redshifts": True, "self.data_size": 100}

    def oracle(e):
        try:
            return bool(_ceval(e, fenv))
        except Exception:  # noqa: BLE001
            return None

    paths = [p for p in symx.explore(prog, da, oracle=oracle, inline=symx.inline_private_helpers(prog)) if p.outcome == "return" and p.value is not None]
    if not paths:
        raise AnalysisError("C16.R3: attribute selections not recognised (no returning path with both attribute arrays)")
    for p in paths:
        v = p.value
        if isinstance(v, ast.Call) and isinstance(v.func, ast.Name) and v.func.id == "dict" and not v.args:
            v = ast.Dict(keys=[ast.Constant(value=k.arg) for k in v.keywords], values=[k.value for k in v.keywords])
        if not (isinstance(v, ast.Dict) and all(isinstance(k, ast.Constant) for k in v.keys)):
            raise AnalysisError(f"C16.R3: attribute selections not recognised (returns {unparse(p.value)[:60]})")
        got = {k.value: x for k, x in zip(v.keys, v.values)}
        sel = {}
        for key in ("weights", "redshifts"):
            x = got.get(key)
            if not (isinstance(x, ast.Subscript) and isinstance(x.value, ast.Attribute) and x.value.attr == key and unparse(x.value.value) == "self"):
                raise AnalysisError(f"C16.R3: attribute selections not recognised ('{key}' is {unparse(x)[:50] if x is not None else 'missing'})")
            sel[key] = x.slice
        if unparse(sel["weights"]) != unparse(sel["redshifts"]):
            res.violation("C16.R3", da, p.node or da.node, f"weights and redshifts are selected with different indices [{unparse(sel['weights'])[:40]}] / [{unparse(sel['redshifts'])[:40]}]: they are not drawn jointly from one source row", key_extra="joint-index")
            return
        draws = [ev for ev in p.calls("integers")] + [ev for ev in p.calls() if ev.callee in ("choice", "randint", "random", "permutation")]
        if len(draws) != 1:
            res.violation("C16.R3", da, p.node or da.node, f"the row index is drawn {len(draws)} times on one path: weights and redshifts may come from different rows", key_extra="index-redrawn")
            return
        d = sel["weights"]
        ok = isinstance(d, ast.Call) and unparse(d.func) == "self.rng.integers" and (
            (len(d.args) >= 2 and isinstance(d.args[0], ast.Constant) and d.args[0].value == 0 and unparse(d.args[1]) == "self.data_size")
            or (len(d.args) == 1 and unparse(d.args[0]) == "self.data_size" and kwarg(d, "high") is None)  # integers(high): low defaults to 0
            or (not d.args and kwarg(d, "low") is not None and unparse(kwarg(d, "low")) == "0" and kwarg(d, "high") is not None and unparse(kwarg(d, "high")) == "self.data_size")
        )
        size = kwarg(d, "size") if isinstance(d, ast.Call) else None
        if ok and size is not None and unparse(size) == size_p and kwarg(d, "endpoint") is None:
            res.ok("C16.R3", res.site(da), f"one draw {unparse(d)} indexes both attribute columns")
        else:
            res.violation("C16.R3", da, draws[0].node, f"row index is drawn as {unparse(d)[:80]}: expected self.rng.integers(0, self.data_size, size=<requested size>)", key_extra="index-draw-shape")
    # the attribute arrays are kept row-aligned: what is stored is each array as given (or a length- and
    # order-preserving conversion of it), never an independently filtered / reordered copy
    from .. import symx

    init = base.methods.get("__init__")
    if init is None:
        raise AnalysisError("C16.R3: RandomsBase.__init__ vanished")
    res.touch(init)
    KEEP = {"asarray", "asanyarray", "array", "ascontiguousarray", "astype", "float64", "atleast_1d", "copy", "asarray_chkfinite"}
    REORDER = {"compress", "delete", "extract", "unique", "sort", "sorted", "take", "choice", "permutation", "shuffle", "nonzero", "where", "dropna", "flatnonzero"}

    def aligned(e, param) -> bool | None:
        e = symx.strip_wrappers(e)
        if isinstance(e, ast.Name):
            return e.id == param
        if isinstance(e, ast.Constant) and e.value is None:
            return True
        if isinstance(e, ast.Call):
            nm = (dotted(e.func) or unparse(e.func)).split(".")[-1]
            if nm in KEEP:
                inner = e.func.value if isinstance(e.func, ast.Attribute) and (dotted(e.func.value) or "").split(".")[0] not in ("np", "numpy") else (e.args[0] if e.args else None)
                return aligned(inner, param) if inner is not None else None
            if nm in REORDER:
                return False
            return None
        if isinstance(e, ast.Subscript):
            return False  # a selection of rows of one array on its own
        if isinstance(e, ast.IfExp):
            a_, b_ = aligned(e.body, param), aligned(e.orelse, param)
            return False if False in (a_, b_) else (True if a_ and b_ else None)
        return None

    n_attr = 0
    for p in symx.explore(prog, init, inline=symx.inline_private_helpers(prog)):
        for ev in p.events:
            if ev.kind == "store" and isinstance(ev.expr, ast.Attribute) and ev.expr.attr in ("weights", "redshifts") and unparse(ev.expr.value) == "self":
                n_attr += 1
                v = aligned(ev.value, ev.expr.attr)
                if v is False:
                    res.violation(
                        "C16.R3",
                        init,
                        ev.node,
                        f"self.{ev.expr.attr} is stored as {unparse(ev.value)[:70]}: rows are selected / reordered in this array independently of the other attribute array, so row k of the weights no longer "
                        "belongs to row k of the redshifts and a common index pairs values of different source rows",
                        key_extra=f"attribute-array-filtered-{ev.expr.attr}",
                    )
                elif v is None:
                    raise AnalysisError(f"C16.R3: cannot decide whether `self.{ev.expr.attr} = {unparse(ev.value)[:60]}` keeps the rows of the input aligned")
    if n_attr < 2:
        raise AnalysisError("C16.R3: the constructor no longer stores the weights and redshifts arrays")
    if not any(f.rule == "C16.R3" and "attribute-array-filtered" in f.key for f in res.findings):
        res.ok("C16.R3", res.site(init, "stored arrays"), "weights and redshifts are stored as given (row k of both belongs to source row k)")
    gs = base.methods.get("get_data_size")
    if gs is not None:
        res.touch(gs)

        attrs = ("self.weights", "self.redshifts")
        facts = {}
        for a_ in attrs:
            facts[f"{a_} is None"] = False
            facts[f"{a_} is not None"] = True
        paths = symx.explore(prog, gs, facts=facts, inline=symx.inline_private_helpers(prog))
        rets = [p for p in paths if p.outcome != "raise"]
        want = {f"len({a_})" for a_ in attrs}

        def lengths_equal(p) -> bool:
            for t, pol, _ in p.conds:
                if isinstance(t, ast.Compare) and len(t.ops) == 1 and {unparse(t.left), unparse(t.comparators[0])} == want:
                    if (isinstance(t.ops[0], ast.NotEq) and not pol) or (isinstance(t.ops[0], ast.Eq) and pol):
                        return True
            return False

        if rets and all(lengths_equal(p) for p in rets) and any(p.outcome == "raise" for p in paths):
            res.ok("C16.R3", res.site(gs), "with both attribute arrays given, every returning path has passed len(weights) == len(redshifts); the other outcome raises")
        else:
            res.violation("C16.R3", gs, gs.node, "attribute arrays of different length are accepted: a common row index is not meaningful", key_extra="attribute-lengths")


def rule_r4(prog, res) -> None:
    """last-chunk size (shared with C18.R2)"""
    sub = type(res)("C18", prog, res.tier)
    c18.rule_r2(prog, sub)
    for o in sub.obligations:
        if "chunk" in o.site and ("RandomReader" in o.site or "random" in o.why):
            o.rule = "C16.R4"
            res.obligations.append(o)
            res.count("C16.R4")
    for f in sub.findings:
        if "random-" in f.key or "RandomReader" in f.function:
            f.prop, f.rule = "C16", "C16.R4"
            f.key = f.key.replace("C18.R2", "C16.R4", 1)
            res.findings.append(f)
    res.functions_analysed |= sub.functions_analysed
    if not res.rule_counts.get("C16.R4") and not [f for f in res.findings if f.rule == "C16.R4"]:
        raise AnalysisError("C16.R4: random reader obligations not produced")


def rule_r5(prog, res) -> None:
    """unit typing and sizes of the generators"""
    base, classes = _generator_classes(prog)
    box = prog.find_class("BoxRandoms")
    init = box.methods["__init__"]
    res.touch(init)
    # decided on the symbolic store with every helper of the module looked through (methods or module functions
    # alike): the four window limits are stored as x = deg2rad(ra), y = sin(deg2rad(dec)) of the matching corner, and
    # the drawn point is (U(x_min, x_max), arcsin(U(y_min, y_max))) — the cylindrical equal-area map and its inverse
    from .. import symx

    def inl(caller, call_, callee):
        return callee.module is caller.module and not callee.is_property and callee.name not in ("__call__",)

    ipaths = [p for p in symx.explore(prog, init, inline=inl) if p.outcome != "raise"]
    if not ipaths:
        raise AnalysisError("C16.R5: BoxRandoms.__init__ has no completing path")
    want = {
        "self.x_min": ("ra_min", False),
        "self.x_max": ("ra_max", False),
        "self.y_min": ("dec_min", True),
        "self.y_max": ("dec_max", True),
    }
    params = init.param_names()
    bad = None
    for p in ipaths:
        for key, (par, sine) in want.items():
            v = p.store.get(key)
            if v is None:
                raise AnalysisError(f"C16.R5: BoxRandoms.__init__ does not store {key}")
            e = v
            if sine:
                if not (isinstance(e, ast.Call) and (dotted(e.func) or "").split(".")[-1] == "sin" and len(e.args) == 1):
                    bad = bad or (key, v)
                    continue
                e = e.args[0]
            if not (isinstance(e, ast.Call) and (dotted(e.func) or "").split(".")[-1] in ("deg2rad", "radians") and len(e.args) == 1 and isinstance(e.args[0], ast.Name) and e.args[0].id == par and par in params):
                bad = bad or (key, v)
    if bad is None:
        res.ok("C16.R5", res.site(init), "window limits stored as x = deg2rad(ra), y = sin(deg2rad(dec)) for the min and the max corner (equal-area cylinder)")
    else:
        res.violation(
            "C16.R5",
            init,
            init.node,
            f"window limit {bad[0]} is stored as {unparse(bad[1])[:60]}: expected {'sin(deg2rad(' + want[bad[0]][0] + '))' if want[bad[0]][1] else 'deg2rad(' + want[bad[0]][0] + ')'} "
            "(limits not converted from degrees, wrong corner, or not the equal-area map)",
            key_extra="window-limits",
        )
    dc = box.methods["_draw_coords"]
    res.touch(dc)
    size_p = dc.param_names()[1]
    dpaths = [p for p in symx.explore(prog, dc, inline=inl) if p.outcome == "return" and p.value is not None]
    ok = bool(dpaths)
    shown = None
    for p in dpaths:
        ret = p.value
        shown = unparse(ret)[:120]
        if not (isinstance(ret, ast.Tuple) and len(ret.elts) == 2):
            ok = False
            break
        ra_e, dec_e = ret.elts
        if not (isinstance(dec_e, ast.Call) and (dotted(dec_e.func) or "").split(".")[-1] == "arcsin" and len(dec_e.args) == 1):
            ok = False
            break
        u = [ra_e, dec_e.args[0]]
        if not all(isinstance(c, ast.Call) and unparse(c.func) == "self.rng.uniform" for c in u):
            ok = False
            break
        lims = [[unparse(a_) for a_ in c.args[:2]] if len(c.args) >= 2 else [unparse(kwarg(c, "low")), unparse(kwarg(c, "high"))] for c in u]
        sizes = [unparse(c.args[2]) if len(c.args) > 2 else unparse(kwarg(c, "size")) for c in u]
        ok = ok and lims == [["self.x_min", "self.x_max"], ["self.y_min", "self.y_max"]] and sizes == [size_p, size_p]
    if ok:
        res.ok("C16.R5", res.site(dc), "ra ~ U(x_min, x_max), dec = arcsin(U(y_min, y_max)), each of the requested size")
    else:
        res.violation("C16.R5", dc, dc.node, f"coordinates are not drawn as (uniform(x_min, x_max, n), arcsin(uniform(y_min, y_max, n))): {shown}", key_extra="draw-coords")
    call = base.methods["__call__"]
    res.touch(call)
    p_ = call.param_names()[1]
    cpaths = [p for p in symx.explore(prog, call, inline=symx.inline_private_helpers(prog, public={"_draw_coords", "_draw_attributes", "create"})) if p.outcome == "return"]
    dcs = [ev for p in cpaths for ev in p.calls() if ev.callee in ("_draw_coords", "_draw_attributes")]
    if len(dcs) == 2 * len(cpaths) and dcs and all(len(ev.expr.args) == 1 and unparse(ev.expr.args[0]) == p_ for ev in dcs):
        res.ok("C16.R5", res.site(call), "coordinates and attributes are drawn with the same requested size")
    else:
        res.violation("C16.R5", call, call.node, "coordinates and attributes are not drawn with the same requested size", key_extra="call-sizes")
    create = [ev for p in cpaths for ev in p.calls("create")]

    def coord_part(e, i) -> bool:
        return isinstance(e, ast.Subscript) and isinstance(e.slice, ast.Constant) and e.slice.value == i and isinstance(e.value, ast.Call) and (dotted(e.value.func) or "").split(".")[-1] == "_draw_coords"

    def coord_arg(c_, i, name):
        pos = [a_ for a_ in c_.args if not isinstance(a_, ast.Starred)]
        return pos[i] if len(pos) > i else kwarg(c_, name)

    if create and all(
        coord_arg(ev.expr, 0, "ra") is not None
        and coord_arg(ev.expr, 1, "dec") is not None
        and coord_part(coord_arg(ev.expr, 0, "ra"), 0)
        and coord_part(coord_arg(ev.expr, 1, "dec"), 1)
        and isinstance(kwarg(ev.expr, "degrees"), ast.Constant)
        and kwarg(ev.expr, "degrees").value is False
        for ev in create
    ):
        res.ok("C16.R5", res.site(call, "create"), "chunk created from (ra, dec) in radian")
    else:
        res.violation("C16.R5", call, call.node, "generated coordinates are not stored as (ra, dec) radian", key_extra="call-create")
    hp = prog.find_class("HealPixRandoms")
    hdc = hp.methods["_draw_coords"]
    res.touch(hdc)
    ret = [r.value for r in walk_no_nested(hdc.node) if isinstance(r, ast.Return)]
    ll = [c for c in calls_in(hdc) if (dotted(c.func) or "").endswith("pix2ang")]
    if ret and isinstance(ret[0], ast.Tuple) and all(isinstance(e, ast.Call) and (dotted(e.func) or "").endswith("deg2rad") for e in ret[0].elts) and ll and isinstance(kwarg(ll[0], "lonlat"), ast.Constant) and kwarg(ll[0], "lonlat").value is True:
        res.ok("C16.R5", res.site(hdc), "healpy lon/lat degrees converted to radian")
    else:
        res.violation("C16.R5", hdc, hdc.node, "HealPix coordinates are not converted from lon/lat degrees to radian", key_extra="healpix-units")


def rule_r6(prog, res) -> None:
    """(a) the number of attribute rows to draw from: "none" (-1) exactly when neither weights nor redshifts are given,
    otherwise the common length — folded on the symbolic paths of the size method for the four combinations (given only
    one of the two, the generator must still draw it); (b) HealPix sub-pixels: a parent pixel p at order o is refined to
    the finest order M by p * 4**(M - o) + U{0, …, 4**(M - o) - 1} and read back with nside = 2**M in the nested
    scheme — any other arithmetic puts the points into other pixels than the map selects (decided on the expressions;
    healpy is not needed, and not available here)."""
    from .. import symx
    from ..effects import Unknown, ceval
    from ..norm import poly

    base, classes = _generator_classes(prog)
    ds = base.methods.get("get_data_size") or base.methods.get("data_size")
    n = 0
    if ds is None:
        raise AnalysisError("C16.R6: the method that sizes the attribute table (get_data_size) vanished")
    res.touch(ds)
    for w_given in (False, True):
        for z_given in (False, True):
            def orc(t, w_given=w_given, z_given=z_given):
                if isinstance(t, ast.Compare) and len(t.ops) == 1 and isinstance(t.comparators[0], ast.Constant) and t.comparators[0].value is None and isinstance(t.left, ast.Attribute):
                    g = {"weights": w_given, "redshifts": z_given}.get(t.left.attr)
                    if g is not None:
                        return (not g) == isinstance(t.ops[0], ast.Is)
                if isinstance(t, ast.Compare) and len(t.ops) == 1 and isinstance(t.ops[0], (ast.NotEq, ast.Eq)) and all(isinstance(x, ast.Call) and isinstance(x.func, ast.Name) and x.func.id == "len" for x in (t.left, t.comparators[0])):
                    return isinstance(t.ops[0], ast.Eq)  # both tables have the same length
                return None

            rets = [p for p in symx.explore(prog, ds, oracle=orc, inline=symx.inline_private_helpers(prog)) if p.outcome == "return" and p.value is not None]
            n += 1
            site = res.site(ds, f"weights {'given' if w_given else 'None'}, redshifts {'given' if z_given else 'None'}")
            if not rets:
                res.violation("C16.R6", ds, ds.node, f"the size of the attribute table is never returned for weights {'given' if w_given else 'None'} / redshifts {'given' if z_given else 'None'}", key_extra=f"data-size-{w_given}-{z_given}")
                continue
            vals = {unparse(symx.strip_wrappers(p.value)) for p in rets}
            none_marker = all(("-1" in v or "NO_DATA" in v.upper()) and "len(" not in v for v in vals)
            is_len = all(v.startswith("len(") and (("weights" in v and w_given) or ("redshifts" in v and z_given)) for v in vals)
            if (not w_given and not z_given and none_marker) or ((w_given or z_given) and is_len):
                res.ok("C16.R6", site, f"-> {sorted(vals)[0]}")
            else:
                res.violation("C16.R6", ds, rets[0].node or ds.node, f"with weights {'given' if w_given else 'None'} and redshifts {'given' if z_given else 'None'} the attribute table is sized {sorted(vals)}: " + ("the column that was given is never drawn, the random catalog silently lacks it" if (w_given or z_given) else "there is nothing to draw from"), key_extra=f"data-size-{w_given}-{z_given}")
    # (b)
    hp = next((c for c in classes if "heal" in c.name.lower()), None)
    if hp is None:
        raise AnalysisError("C16.R6: the HealPix generator class was not found")
    dm = next((m for m in hp.methods.values() if any((dotted(c.func) or "").endswith("pix2ang") for c in calls_in(m))), None)
    if dm is None:
        raise AnalysisError("C16.R6: the HealPix draw method (pix2ang) was not found")
    res.touch(dm)
    # on the symbolic store: locals, module-level constants and private helpers are substituted
    evs = [ev for p_ in symx.explore(prog, dm, inline=symx.inline_private_helpers(prog)) for ev in p_.calls("pix2ang")]
    if not evs:
        raise AnalysisError("C16.R6: no explored path of the HealPix draw method reaches pix2ang")
    p2a = evs[0].expr
    ipix = kwarg(p2a, "ipix") or (p2a.args[1] if len(p2a.args) > 1 else None)
    nside = kwarg(p2a, "nside") or (p2a.args[0] if p2a.args else None)
    nest = kwarg(p2a, "nest")
    probs = []
    full = symx.strip_wrappers(ipix) if ipix is not None else None
    draws = [y for y in ast.walk(full) if isinstance(y, ast.Call) and isinstance(y.func, ast.Attribute) and y.func.attr == "integers"] if full is not None else []
    order_scale = None
    if full is None or len(draws) != 1 or not (isinstance(full, ast.BinOp) and isinstance(full.op, ast.Add)):
        probs.append(f"the pixel index handed to pix2ang is not <parent> * scale + <draw> ({unparse(full)[:60] if full is not None else None})")
    else:
        drw = draws[0]
        par = full.left if any(y is drw for y in ast.walk(full.right)) else full.right
        dside = full.right if par is full.left else full.left
        if dside is not drw:
            probs.append(f"the sub-pixel draw enters as `{unparse(dside)[:40]}`, not added as it is")
        lo = kwarg(drw, "low") or (drw.args[0] if drw.args else None)
        hi = kwarg(drw, "high") or (drw.args[1] if len(drw.args) > 1 else None)
        if not (isinstance(lo, ast.Constant) and lo.value == 0) or hi is None:
            probs.append(f"the sub-pixel draw is integers({unparse(lo) if lo is not None else '?'}, {unparse(hi) if hi is not None else '?'}), not integers(0, scale)")
        if not (isinstance(par, ast.BinOp) and isinstance(par.op, ast.Mult)):
            probs.append(f"the parent pixel is refined as `{unparse(par)[:50]}`, not multiplied by the number of sub-pixels")
        elif hi is not None:
            sc = par.right if any(isinstance(y, ast.Call) and isinstance(y.func, ast.Attribute) and y.func.attr == "choice" for y in ast.walk(par.left)) else par.left
            if unparse(sc) != unparse(hi):
                probs.append(f"the parent pixel is multiplied by `{unparse(sc)[:40]}` but the sub-pixel is drawn below `{unparse(hi)[:40]}`")
            order_scale = sc
    if order_scale is not None:
        # scale = 4 ** (M - order), nside asked = 2 ** M
        sc = order_scale
        if not (isinstance(sc, ast.BinOp) and isinstance(sc.op, ast.Pow) and isinstance(sc.left, ast.Constant) and sc.left.value == 4 and isinstance(sc.right, ast.BinOp) and isinstance(sc.right.op, ast.Sub)):
            probs.append(f"the number of sub-pixels is `{unparse(sc)[:50]}`, not 4 ** (finest order - order of the map)")
        else:
            try:
                M = ceval(sc.right.left, {})
                N = ceval(nside, {}) if nside is not None else None
            except Unknown:
                M = N = None
            if M is None or N is None:
                if not (isinstance(nside, ast.BinOp) and isinstance(nside.op, ast.Pow) and isinstance(nside.left, ast.Constant) and nside.left.value == 2 and unparse(nside.right) == unparse(sc.right.left)):
                    probs.append(f"pix2ang is asked at nside = `{unparse(nside)[:40] if nside is not None else None}`, not 2 ** (the finest order `{unparse(sc.right.left)}`)")
            elif N != 2**M:
                probs.append(f"pix2ang is asked at nside = {N}, not 2 ** {M} (the finest order of the refinement)")
    if not (isinstance(nest, ast.Constant) and nest.value is True):
        probs.append(f"pix2ang is asked with nest={unparse(nest) if nest is not None else 'False (default)'}: the refinement p * 4**k + r is only valid in the nested scheme")
    n += 1
    if probs:
        res.violation("C16.R6", dm, evs[0].node, "HealPix points are not drawn inside the selected pixels: " + "; ".join(probs), key_extra="healpix-subpixel")
    else:
        res.ok("C16.R6", res.site(dm, "sub-pixels"), "parent * 4**(M - order) + integers(0, 4**(M - order)), read back at nside 2**M, nested")
    if n < 5:
        raise AnalysisError("C16.R6: fewer than 5 facts folded")


RULES = [
    ("C16.R1", rule_r1, QUICK),
    ("C16.R2", rule_r2, QUICK),
    ("C16.R3", rule_r3, QUICK),
    ("C16.R4", rule_r4, QUICK),
    ("C16.R5", rule_r5, QUICK),
    ("C16.R6", rule_r6, QUICK),
]
