"""Defect #31 (C15): comoving binning with a custom cosmology (documented to return plain Mpc values) raised
UnitConversionError: the target distances were coerced to a Quantity while the inverted function returns floats.
Development aid only (not a registered check). Exit 0 = behaviour correct."""
import sys

import numpy as np
from astropy.cosmology import Planck15

from yaw import Configuration
from yaw.cosmology import CustomCosmology


class My(CustomCosmology):
    def comoving_distance(self, z):
        return Planck15.comoving_distance(z).value

    def angular_diameter_distance(self, z):
        return Planck15.angular_diameter_distance(z).value


kw = dict(rmin=100, rmax=1000, zmin=0.1, zmax=1.0, num_bins=5, method="comoving")
try:
    a = Configuration.create(cosmology=My(), **kw).binning.edges
except Exception as err:  # noqa: BLE001
    print("FAIL: custom cosmology + comoving binning raised", type(err).__name__, err)
    sys.exit(1)
b = Configuration.create(cosmology=Planck15, **kw).binning.edges
if not np.allclose(a, b, rtol=1e-9):
    print("FAIL: edges differ", a, b)
    sys.exit(1)
print("ok", a)
