"""C09 — catalog creation is fail-stop (structural core).

Decided clauses: R1 sentinel/terminate on every exit between writer start and join,
R2 helper exit status checked, R3 rmtree guarded by the catalog marker (+ nothing is touched
before the overwrite refusal), R4 completeness marker unreachable on the failure exit,
R5 validation must-calls, R6 centre<->patch pairing by id or guarded, R7 sibling agreement.
Not decided: an actual time bound.
"""

from __future__ import annotations

import ast

from ..cfg import cfg_of
from ..dataflow import all_def_values, depends_on
from ..effects import Unknown, ceval, classify_call, path_leaf, summaries
from ..model import AnalysisError, ClassInfo, FuncInfo, dotted, norm_stmt, unparse, walk_no_nested
from .common import (
    QUICK,
    branch_nodes_of,
    calls_in,
    catalog_marker_leaf,
    exc_env,
    fmt_path,
    is_sentinel_put,
    kwarg,
    mentions_name,
    pruned_reach,
    raise_dominated_by,
    single_def_resolver,
)

EXPLANATION = (
    "Static analysis of the structural core of C09 on /repo's current source (both the multiprocessing "
    "and the MPI variant are parsed): per-function CFGs with exception edges decide (R1) that every path "
    "between starting the writer process and joining it puts the end-of-queue sentinel (normal exits) or "
    "terminates the writer (exceptional exits), (R2) that the writer's exit status is tested and raises, "
    "(R3) that every rmtree is dominated by a raising test on the catalog marker file and nothing on disk is "
    "touched before the overwrite refusal, (R4) that the completeness marker is unreachable from the writer's "
    "__exit__ when an exception is in flight, (R5) the validation must-calls of chunk creation, (R6) that patch "
    "centres are paired with patches by id or behind a raising guard, (R7) sibling agreement of the creation "
    "pipelines. Each clause is a necessary condition of the property; no time bound is decided."
    ' R3 additionally requires the overwrite flag to be true on every path to the rmtree; R8: the number of generated patch ids is range-checked where the patch mode is decided; R9: the id list is published only after a raising test for empty patches.'
)
ASSUMPTIONS = [
    "multiprocessing.Process.join blocks until the child exits; a child blocked in Queue.get never exits by itself",
    "Process.terminate makes a later join return; a terminated child runs no further Python code (no finalisation)",
    "an exception in a with-body runs __exit__ with the exception triple set; __exit__ methods in this repo do not suppress",
    "statements containing a call, subscript, raise, assert or import may raise; for-headers and with-enter/exit may raise",
]


# ----------------------------------------------------------------------------- R1 / R2


def _writer_process_classes(prog) -> list[ClassInfo]:
    S = summaries(prog)
    out = []
    for ci in prog.classes:
        en, ex = ci.methods.get("__enter__"), ci.methods.get("__exit__")
        if en is None or ex is None:
            continue
        if any(e.kind == "ipc" and e.op == "process.start" for e, _ in S.may(en)) and any(
            e.kind == "ipc" and e.op == "process.join" for e, _ in S.may(ex)
        ):
            out.append(ci)
    return out


def _with_users(prog, ci: ClassInfo):
    for fi in prog.funcs:
        if ci.variant and fi.variant not in (None, ci.variant):
            continue
        env = prog.func_env(fi)
        for x in walk_no_nested(fi.node):
            if isinstance(x, ast.withitem):
                if any(t[0] == "cls" and t[1] is ci for t in env.type_of(x.context_expr)):
                    yield fi, x


def _node_has(prog, fi, n, pred_effect=None, pred_call=None) -> bool:
    for c in n.calls():
        if pred_call is not None and pred_call(c):
            return True
        if pred_effect is not None:
            S = summaries(prog)
            tg = prog.resolve_call(fi, c)
            effs = classify_call(prog, fi, c)
            # one level through straight-line in-repo helpers (e.g. self.join() -> self.process.join())
            for t in tg.funcs():
                if tg.precise:
                    effs = effs + [e for e, _ in S.may(t)]
            if any(pred_effect(e) for e in effs):
                return True
    return False


def rule_r1(prog, res) -> None:
    """sentinel on normal exits / terminate on exceptional exits between writer start and join"""
    classes = _writer_process_classes(prog)
    n_inst = 0
    for ci in classes:
        ex = ci.methods["__exit__"]
        xcfg = cfg_of(ex.node)
        res.touch(ex)
        is_join = lambda e: e.kind == "ipc" and e.op == "process.join"  # noqa: E731
        is_term = lambda e: e.kind == "ipc" and e.op in ("process.terminate", "process.kill")  # noqa: E731
        jnodes = [n for n in xcfg.nodes if _node_has(prog, ex, n, is_join)]
        if not jnodes:
            raise AnalysisError(f"C09.R1: {ci.name}.__exit__ may join but no join site found in its CFG")

        def exit_ok(present: bool) -> bool:
            """True if within __exit__ the join is always preceded by the right release."""
            if present:
                avoid = lambda n: _node_has(prog, ex, n, is_term)  # noqa: E731
            else:
                avoid = lambda n: _node_has(prog, ex, n, None, lambda c: is_sentinel_put(prog, ex, c))  # noqa: E731
            reach = pruned_reach(xcfg, xcfg.entry, exc_env(ex, present), avoid=avoid, defs=single_def_resolver(ex.node))
            return not any(j.id in reach for j in jnodes)

        for fi, item in _with_users(prog, ci):
            n_inst += 1
            res.touch(fi)
            cfg = cfg_of(fi.node)
            enters = [n for n in cfg.nodes if n.kind == "with_enter" and n.ast is item]
            exits = [n for n in cfg.nodes if n.kind == "with_exit" and n.ast is item]
            if not enters or not exits:
                raise AnalysisError("C09.R1: with-item nodes not found")
            wvar = item.optional_vars.id if isinstance(item.optional_vars, ast.Name) else None

            def term_call(c, fi=fi, wvar=wvar) -> bool:
                if any(e.kind == "ipc" and e.op in ("process.terminate", "process.kill") for e in classify_call(prog, fi, c)):
                    return True
                f = c.func
                return (
                    wvar is not None
                    and isinstance(f, ast.Attribute)
                    and f.attr in ("terminate", "kill", "abort")
                    and isinstance(f.value, ast.Name)
                    and f.value.id == wvar
                )

            npaths = 0
            for x in exits:
                if x.exc:
                    avoid = lambda n, fi=fi: any(term_call(c) for c in n.calls())  # noqa: E731
                    need = "Process.terminate/kill (a sentinel here would let the writer finalise a partial catalog)"
                else:
                    avoid = lambda n, fi=fi: any(is_sentinel_put(prog, fi, c) for c in n.calls())  # noqa: E731
                    need = "Queue.put(EndOfQueue)"
                path = cfg.find_path(enters[0], lambda n, x=x: n is x, avoid=avoid, skip_first_edge_labels={"e"})
                if path is None:
                    npaths += 1
                    continue
                if exit_ok(x.exc):
                    npaths += 1
                    continue
                offending = path[-2][0] if len(path) >= 2 else path[0][0]
                res.violation(
                    "C09.R1",
                    fi,
                    offending.ast if isinstance(offending.ast, ast.stmt) else item.context_expr,
                    f"a path from starting {ci.name} to joining it ({'exception' if x.exc else 'normal'} exit) passes no {need}: "
                    f"the writer blocks in Queue.get and join never returns",
                    construct=f"with {unparse(item.context_expr)[:60]}… {'exceptional' if x.exc else 'normal'} exit",
                    key_extra=f"with-{ci.name}-{'exc' if x.exc else 'normal'}-exit",
                    detail={"path": fmt_path(path), "entry": f"{ci.name}.__enter__ -> Process.start", "offending_exit": f"{ci.name}.__exit__ -> Process.join"},
                )
            if npaths == len(exits):
                res.ok("C09.R1", res.site(fi, f"with {ci.name}"), f"all {len(exits)} exits of the with-block (incl. exception edges) release the writer before join")
    # the queue that feeds a process which may die must be unbounded: nobody watches the writer while chunks are put
    for ci in classes:
        for fi, item in _with_users(prog, ci):
            for c in calls_in(fi):
                if isinstance(c.func, ast.Attribute) and c.func.attr in ("Queue", "JoinableQueue", "SimpleQueue") and "manager" in unparse(c.func.value).lower() or (dotted(c.func) or "").endswith("multiprocessing.Queue"):
                    ms = kwarg(c, "maxsize") or (c.args[0] if c.args else None)
                    bounded = ms is not None and not (isinstance(ms, ast.Constant) and isinstance(ms.value, int) and ms.value <= 0)
                    if bounded:
                        res.violation(
                            "C09.R1",
                            fi,
                            c,
                            f"the patch queue is bounded (maxsize={unparse(ms)}): if the writer process dies (existing cache without overwrite, unusable location) nobody drains it and the workers' "
                            "and the parent's put() block forever instead of raising",
                            key_extra="bounded-queue",
                        )
                    else:
                        res.ok("C09.R1", res.site(fi, norm_stmt(c)), "queue is unbounded: put() cannot block when the writer has died")
    if n_inst == 0:
        raise AnalysisError("C09.R1: no `with <writer process>` site found (anchor vanished)")
    res.count("C09.R1.sites", n_inst)


def rule_r2(prog, res) -> None:
    """helper-process exit status is tested and raises"""
    n_sites = 0
    for ci in _writer_process_classes(prog):
        for m in ci.methods.values():
            cfg = cfg_of(m.node)
            for n in cfg.nodes:
                direct_join = [
                    c for c in n.calls() if any(e.kind == "ipc" and e.op == "process.join" for e in classify_call(prog, m, c))
                ]
                if not direct_join:
                    continue
                n_sites += 1
                res.touch(m)

                weak: list = []

                def is_exit_test(cfg_, t, fn_node, weak=weak) -> bool:
                    # the tested value may be `.exitcode` itself or a local that was read from it
                    if t.kind != "test" or not depends_on(fn_node, t.expr, lambda a: isinstance(a, ast.Attribute) and a.attr == "exitcode"):
                        return False
                    raising = {pol for pol, b in branch_nodes_of(cfg_, t).items() if raise_dominated_by(cfg_, b)}
                    if not raising:
                        return False
                    # the test must be right, not only present: folded over the exit statuses of a process — 0 success,
                    # positive: exception / sys.exit(n), negative: killed by signal -n — it raises exactly for the non-zero ones
                    from .common import expand_locals

                    class _Sub(ast.NodeTransformer):
                        def __init__(self, v):
                            self.v = v

                        def visit_Attribute(self, node):
                            return ast.Constant(self.v) if node.attr == "exitcode" else self.generic_visit(node)

                    full = expand_locals(fn_node, t.expr, set())
                    for code in (0, 1, 2, 255, -9, -15):
                        try:
                            import copy

                            val = bool(ceval(_Sub(code).visit(copy.deepcopy(full)), {"exc_type": None, "exc_value": None}))
                        except Unknown:
                            break
                        if (val in raising) != (code != 0) and len(raising) == 1:
                            weak.append((t, code))
                            break
                    return True

                def escapes(fn: FuncInfo, start, env) -> bool:
                    c = cfg_of(fn.node)
                    reach = pruned_reach(c, start, env, avoid=lambda t, c=c: is_exit_test(c, t, fn.node), defs=single_def_resolver(fn.node))
                    return c.exit.id in reach

                ok = not escapes(m, n, {})
                if not ok:
                    # the test may live in the in-class callers (e.g. __exit__ calls self.join())
                    callers = []
                    for m2 in ci.methods.values():
                        c2 = cfg_of(m2.node)
                        for n2 in c2.nodes:
                            for call in n2.calls():
                                tg = prog.resolve_call(m2, call)
                                if m in tg.funcs() and m2 is not m:
                                    callers.append((m2, n2))
                    relevant = [(m2, n2) for m2, n2 in callers if m2.name == "__exit__"] or callers

                    def live(m2, n2) -> bool:
                        # a call site inside the exception arm of __exit__ is not part of the normal continuation
                        c2 = cfg_of(m2.node)
                        env2 = exc_env(m2, False) if m2.name == "__exit__" else {}
                        return n2.id in pruned_reach(c2, c2.entry, env2, defs=single_def_resolver(m2.node))

                    relevant = [(m2, n2) for m2, n2 in relevant if live(m2, n2)]
                    if relevant and all(not escapes(m2, n2, exc_env(m2, False) if m2.name == "__exit__" else {}) for m2, n2 in relevant):
                        ok = True
                if ok and weak:
                    t_, code = weak[0]
                    res.violation(
                        "C09.R2",
                        m,
                        t_.ast if hasattr(t_, "ast") else n.ast,
                        f"the exit status test `{unparse(t_.expr)[:60]}` does not raise for exit code {code}"
                        + (" (a helper process killed by a signal has a negative exit code)" if code < 0 else "")
                        + ": the failure of the writer process is dropped and the caller continues with whatever is on disk",
                        key_extra="process-exitcode-test-weak",
                    )
                elif ok:
                    res.ok("C09.R2", res.site(m, "Process.join"), "every normal continuation after join tests .exitcode and raises")
                else:
                    res.violation(
                        "C09.R2",
                        m,
                        n.ast,
                        "Process.join() is not followed by a raising test of .exitcode: a failure inside the writer process "
                        "(e.g. FileExistsError, empty patch) is dropped and the caller continues with whatever is on disk",
                        key_extra="process-join-exitcode",
                    )
    if n_sites == 0:
        raise AnalysisError("C09.R2: no Process.join site found in a writer-process class")
    # … and the process whose status is tested is the one that writes: it is created with a target, and the target
    # takes work off the queue (a Process without target starts, does nothing and exits with status 0 — the catalog is
    # "written" without a single record, or the producers block forever on a full queue)
    S = summaries(prog)
    n_new = 0
    for ci in _writer_process_classes(prog):
        for m in ci.methods.values():
            for c in calls_in(m):
                if not any(e.kind == "ipc" and e.op == "process.new" for e in classify_call(prog, m, c)):
                    continue
                n_new += 1
                res.touch(m)
                tgt = kwarg(c, "target") or (c.args[1] if len(c.args) > 1 else None)
                if tgt is None:
                    res.violation("C09.R2", m, c, f"{ci.name} creates its process without a target: the process starts, does nothing and exits with status 0 — nothing is written and the exit-status test passes", key_extra="process-without-target")
                    continue
                tm = ci.methods.get(tgt.attr) if isinstance(tgt, ast.Attribute) and isinstance(tgt.value, ast.Name) and tgt.value.id == (m.param_names() or [""])[0] else None
                tfs = [tm] if tm is not None else [t for t in prog.funcs if isinstance(tgt, ast.Name) and t.name == tgt.id and t.module is m.module]
                if not tfs:
                    raise AnalysisError(f"C09.R2: target `{unparse(tgt)[:40]}` of the writer process of {ci.name} not resolved")
                if any(any(e.kind == "ipc" and e.op == "queue.get" for e, _ in S.may(t)) for t in tfs):
                    res.ok("C09.R2", res.site(m, "process target"), f"the process runs `{unparse(tgt)}`, which takes work off the queue")
                else:
                    res.violation("C09.R2", m, c, f"the writer process of {ci.name} runs `{unparse(tgt)}`, which never takes anything off the queue: nothing is written, the producers block on the queue", key_extra="process-target-not-consumer")
    if n_new == 0:
        raise AnalysisError("C09.R2: creation of the writer process not found in a writer-process class")


# ----------------------------------------------------------------------------- R3


def _mentions_marker(prog, fi: FuncInfo, expr: ast.AST, marker: str, depth: int = 2) -> bool:
    for x in walk_no_nested(expr):
        if isinstance(x, (ast.BinOp, ast.Name, ast.Attribute, ast.Call)):
            try:
                if path_leaf(prog, fi, x, at=x) == marker:
                    return True
            except RecursionError:  # pragma: no cover
                pass
    if depth > 0:
        for x in walk_no_nested(expr):
            if isinstance(x, ast.Call):
                for t in prog.resolve_call(fi, x).funcs():
                    for y in walk_no_nested(t.node):
                        if isinstance(y, ast.expr) and not isinstance(y, ast.Constant):
                            if isinstance(y, (ast.BinOp, ast.Name, ast.Attribute)) and path_leaf(prog, t, y, at=y) == marker:
                                return True
            elif isinstance(x, ast.Name):
                for v in all_def_values(fi.node, x.id):
                    if v is not None and _mentions_marker(prog, fi, v, marker, depth - 1):
                        return True
    return False


def rule_r3(prog, res) -> None:
    """rmtree dominated by a raising catalog-marker test; nothing touched before the overwrite refusal"""
    marker = catalog_marker_leaf(prog)
    n_rm = 0
    for fi in prog.funcs:
        cfg = None
        for call in calls_in(fi):
            if not any(e.kind == "fs" and e.op == "rmtree" for e in classify_call(prog, fi, call)):
                continue
            n_rm += 1
            res.touch(fi)
            cfg = cfg or cfg_of(fi.node)
            # decided on the symbolic store (helpers looked through): on every path that reaches the rmtree the
            # marker file was found to exist
            from .. import symx
            from ..effects import const_str

            def is_marker_exists(t) -> bool:
                if isinstance(t, ast.Call) and isinstance(t.func, ast.Attribute) and t.func.attr in ("exists", "is_file"):
                    r = t.func.value
                    return isinstance(r, ast.BinOp) and isinstance(r.op, ast.Div) and const_str(prog, fi, r.right) == marker
                return False

            rm_paths = [(p, ev) for p in symx.explore(prog, fi, inline=symx.inline_private_helpers(prog)) for ev in p.calls("rmtree") if ev.node is call]
            if not rm_paths:
                raise AnalysisError(f"C09.R3: no explored path of {fi.short} reaches the rmtree call")
            for n in cfg.node_containing(call)[:1]:
                good = all(any(pol and is_marker_exists(t) for t, pol in p.literals()) for p, _ in rm_paths)
                if good:
                    res.ok("C09.R3", res.site(fi, norm_stmt(call)), f"every path to the rmtree ({len(rm_paths)}) has found '{marker}' to exist; the other outcome raises")
                else:
                    res.violation(
                        "C09.R3",
                        fi,
                        call,
                        f"shutil.rmtree is not dominated by a raising test that the target contains the catalog marker '{marker}': "
                        "overwrite=True deletes any existing directory, not only a catalog cache",
                        key_extra="rmtree",
                    )
            # … and that overwriting was asked for: every path to the rmtree has decided the function's overwrite flag to
            # be true (without the flag an existing catalog is refused, never replaced)
            ow = next((q for q in fi.param_names() if "overwrite" in q or q in ("force", "clobber")), None)
            if ow is not None:
                def says_overwrite(t, pol) -> bool:
                    return pol is True and any(isinstance(y, ast.Name) and y.id == ow for y in ast.walk(t)) and not any(isinstance(y, ast.UnaryOp) and isinstance(y.op, ast.Not) for y in ast.walk(t))

                def says_overwrite_neg(t, pol) -> bool:
                    return pol is False and isinstance(t, ast.UnaryOp) and isinstance(t.op, ast.Not) and isinstance(t.operand, ast.Name) and t.operand.id == ow

                asked = all(any(says_overwrite(t, pol) or says_overwrite_neg(t, pol) for t, pol, _n in p.conds) or any((pol is True and isinstance(t, ast.Name) and t.id == ow) or (pol is False and isinstance(t, ast.UnaryOp) and isinstance(t.operand, ast.Name) and t.operand.id == ow) for t, pol in p.literals()) for p, _ in rm_paths)
                if asked:
                    res.ok("C09.R3", res.site(fi, f"{ow} permits"), f"every path to the rmtree has found `{ow}` to be true")
                else:
                    res.violation("C09.R3", fi, call, f"an existing catalog can be deleted (shutil.rmtree) on a path that has not found `{ow}` to be true: creating a catalog over an existing cache destroys it although overwriting was not requested", key_extra="rmtree-without-overwrite")
            # nothing on disk is touched on the way to the refusal
            mut_ops = {"rmtree", "mkdir", "unlink", "rmdir", "rename", "replace", "write", "touch"}
            S = summaries(prog)

            def mutating(n) -> bool:
                for e, _ in S.node_may(fi, n):
                    if e.kind == "fs" and (e.op in mut_ops or (e.op == "open" and e.mode and e.mode[0] in "wax")):
                        return True
                return False

            refusals = [
                n
                for n in cfg.nodes
                if n.kind == "stmt" and isinstance(n.ast, ast.Raise) and n.ast.exc is not None and "FileExistsError" in unparse(n.ast.exc)
            ]
            for r in refusals:
                back = cfg.reach([r], backward=True)
                fwd = cfg.reachable_nodes()
                bad = [cfg.nodes[i] for i in back & fwd if i != r.id and mutating(cfg.nodes[i])]
                if bad:
                    res.violation(
                        "C09.R3",
                        fi,
                        bad[0].ast,
                        "a file-system mutation can precede the FileExistsError refusal: a pre-existing cache is touched although overwriting was not requested",
                        key_extra="mutation-before-refusal",
                    )
                else:
                    res.ok("C09.R3", res.site(fi, "raise FileExistsError"), "no file-system mutation on any path to the refusal")
    if n_rm == 0:
        # zero-count form of the rule: there is nothing to guard, but the overwrite path must still exist
        raise AnalysisError("C09.R3: no rmtree call found (overwrite path vanished or uses an unknown API)")


# ----------------------------------------------------------------------------- R4


def rule_r4(prog, res) -> None:
    """completeness marker unreachable from __exit__ when an exception is in flight"""
    marker = catalog_marker_leaf(prog)
    S = summaries(prog)
    n = 0
    for ci in prog.classes:
        ex = ci.methods.get("__exit__")
        if ex is None:
            continue

        def writes_marker(node, ex=ex) -> bool:
            for e, f in S.node_may(ex, node):
                if e.kind == "fs" and e.op in ("write", "open", "rename", "replace") and e.subject is not None:
                    if e.op == "open" and not (e.mode and e.mode[0] in "wax"):
                        continue
                    if path_leaf(prog, f, e.subject, at=e.call) == marker:
                        return True
            return False

        cfg = cfg_of(ex.node)
        knodes = [k for k in cfg.nodes if writes_marker(k)]
        if not knodes:
            continue
        n += 1
        res.touch(ex)
        bad = pruned_reach(cfg, cfg.entry, exc_env(ex, True), defs=single_def_resolver(ex.node))
        good = pruned_reach(cfg, cfg.entry, exc_env(ex, False), defs=single_def_resolver(ex.node))
        hit = [k for k in knodes if k.id in bad]
        if hit:
            res.violation(
                "C09.R4",
                ex,
                hit[0].ast,
                f"the completeness marker '{marker}' is written from __exit__ also when the with-body raised: "
                "a failed creation leaves a directory that re-opens as a valid (partial) catalog",
                key_extra="marker-on-failure-exit",
            )
        elif not any(k.id in good for k in knodes):
            res.violation("C09.R4", ex, knodes[0].ast, "the completeness marker is unreachable on the success exit", key_extra="marker-unreachable")
        else:
            res.ok("C09.R4", res.site(ex), f"marker '{marker}' reachable only when the exception arguments are None")
    if n == 0:
        raise AnalysisError("C09.R4: no context manager writes the catalog marker on exit (anchor vanished)")


# ----------------------------------------------------------------------------- R5


def rule_r5(prog, res) -> None:
    """validation must-calls when a chunk is built"""
    # (a) every file/frame reader builds its chunk with DataChunk.create and leaves chkfinite on
    try:
        base = prog.find_class("DataReader")
    except AnalysisError:
        base = prog.find_class("DataChunkReader")
    create = prog.func("DataChunk.create")
    readers = [c for c in prog.subclasses(base) if "_get_next_chunk" in c.methods]
    for ci in readers:
        m = ci.methods["_get_next_chunk"]
        res.touch(m)
        S = summaries(prog)
        sites = []
        for f in S.reachable(m):
            if f is not m and not (f.cls is not None and f.cls in prog.mro(ci)) and f.parent is not m:
                continue  # (methods of the reader and of its base classes build the chunk; other classes' code is not counted)
            for c in calls_in(f):
                if create in prog.resolve_call(f, c).funcs():
                    sites.append((f, c))
        if not sites:
            res.violation("C09.R5", m, m.node, "reader does not build its chunk through DataChunk.create (finite/id-range/length checks bypassed)", key_extra="no-create")
            continue
        for f, c in sites:
            v = kwarg(c, "chkfinite")
            if v is not None and not (isinstance(v, ast.Constant) and v.value is True):
                res.violation("C09.R5", f, c, "reader disables the finite check of DataChunk.create: non-finite input values are stored silently", key_extra="chkfinite-off")
            else:
                res.ok("C09.R5", res.site(m, "DataChunk.create"), "chunk built by DataChunk.create with chkfinite left on")
    if len(readers) < 4:
        raise AnalysisError(f"C09.R5: only {len(readers)} readers with _get_next_chunk found, expected >= 4")
    # (a') HDF5 datasets are independent arrays: a reader on an h5py.File validates the common length of all selected
    #      datasets when it is opened (a per-chunk check sees equal slice lengths until one dataset runs out)
    from .. import symx

    cla_ = prog.func("common_len_assert")
    n_hdf = 0
    for ci in readers:
        S_ = summaries(prog)
        opens_hdf = any(
            any(e == "h5py.File" for e in prog.resolve_call(f, c).ext_names())
            for m_ in ci.methods.values()
            for f in [m_]
            for c in calls_in(f)
        )
        if not opens_hdf:
            continue
        n_hdf += 1
        init = ci.methods.get("__init__")
        if init is None:
            raise AnalysisError(f"C09.R5: HDF reader {ci.name} has no constructor")
        res.touch(init)
        paths = [p for p in symx.explore(prog, init, env={"on_root()": True, "on_worker()": False}, inline=symx.inline_private_helpers(prog, public={"common_len_assert"})) if p.outcome != "raise"]
        unchecked = [p for p in paths if not any(cla_ in prog.resolve_call(ev.fi, ev.node).funcs() and ev.expr.args and symx.mentions(ev.expr.args[0], lambda y: isinstance(y, ast.Attribute) and y.attr == "_columns") for ev in p.calls())]
        if unchecked or not paths:
            res.violation(
                "C09.R5",
                init,
                init.node,
                f"{ci.name} opens an HDF5 file without validating that all selected datasets have the same length: columns of different length are paired row by row until the shorter one ends "
                "(rows beyond it are dropped or reported only by a later chunk)",
                key_extra="hdf-common-length",
            )
        else:
            res.ok("C09.R5", res.site(init, "common_len_assert"), "the common length of all selected datasets is validated on the root rank when the file is opened")
    if n_hdf == 0:
        raise AnalysisError("C09.R5: no reader on an h5py.File found")
    # (b) DataChunk.create: id-range check whenever ids are present, common length before allocation,
    #     checked conversion for every column
    res.touch(create)
    from .. import symx

    params = create.param_names()
    id_param = next((p for p in params if "patch" in p), None)
    if id_param is None:
        raise AnalysisError("C09.R5: DataChunk.create has no patch-id parameter")
    check_ids = prog.func("check_patch_ids")
    cla = prog.func("common_len_assert")
    keep = {"check_patch_ids", "common_len_assert"}
    pol = symx.inline_private_helpers(prog, public=keep)
    paths = symx.explore(prog, create, env={id_param: "SOME", "chkfinite": True}, inline=pol)
    rets = [p for p in paths if p.outcome != "raise"]
    if not rets:
        raise AnalysisError("C09.R5: DataChunk.create has no returning path with patch ids given")

    def resolved(ev, target) -> bool:
        return target in prog.resolve_call(ev.fi, ev.node).funcs()

    def is_alloc(ev) -> bool:
        return (dotted(ev.expr.func) or "").endswith(("np.empty", "numpy.empty", "np.zeros", "np.empty_like"))

    unchecked = [p for p in rets if not any(resolved(ev, check_ids) and ev.expr.args and isinstance(ev.expr.args[0], ast.Name) and ev.expr.args[0].id == id_param for ev in p.calls())]
    if unchecked:
        res.violation("C09.R5", create, unchecked[0].node or create.node, "DataChunk.create can return without the range check of the patch ids as given (before any cast to the storage type) although patch ids are given", key_extra="id-range-check")
    else:
        res.ok("C09.R5", res.site(create, "check_patch_ids"), f"every return with patch ids present passes the range check of the given ids ({len(rets)} paths)")
    late = None
    n_alloc = 0
    for p in rets:
        calls = p.calls()
        for i, ev in enumerate(calls):
            if is_alloc(ev):
                n_alloc += 1
                if not any(resolved(e2, cla) for e2 in calls[:i]):
                    late = ev
    if n_alloc == 0 or late is not None:
        res.violation("C09.R5", create, (late.node if late else create.node), "DataChunk.create allocates the chunk without a preceding common-length check of the columns", key_extra="common-len")
    else:
        res.ok("C09.R5", res.site(create, "common_len_assert"), "length check precedes the allocation on every path")
    # checked conversion: with chkfinite true every column stored into the allocated array is the result of
    # numpy.asarray_chkfinite (or of the in-place unit conversion of such a column)
    raw = None
    n_stores = 0
    for p in rets:
        for ev in p.events:
            if ev.kind != "store" or not isinstance(ev.expr, ast.Subscript):
                continue
            base = ev.expr.value
            if not (isinstance(base, ast.Call) and (dotted(base.func) or "").endswith(("np.empty", "numpy.empty", "np.zeros", "np.empty_like"))):
                continue
            n_stores += 1
            v = ev.value
            fn = (dotted(v.func) or unparse(v.func)) if isinstance(v, ast.Call) else ""
            if fn.endswith("asarray_chkfinite") or fn.endswith("deg2rad"):
                continue
            raw = ev
    if n_stores == 0:
        raise AnalysisError("C09.R5: no column store into the allocated array found in DataChunk.create")
    if raw is not None:
        what = unparse(raw.value)[:60]
        if isinstance(raw.value, ast.Call) and (dotted(raw.value.func) or "").endswith("asarray"):
            res.violation("C09.R5", create, raw.node, "DataChunk.create no longer selects numpy.asarray_chkfinite when chkfinite is true", key_extra="chkfinite-select")
        else:
            res.violation("C09.R5", create, raw.node, f"a column is stored without the finite-checking conversion ({what})", key_extra="raw-store")
    else:
        res.ok("C09.R5", res.site(create, "asarray_chkfinite"), f"with chkfinite true all {n_stores} column store(s) go through numpy.asarray_chkfinite")
    # (b') the readers rely on the default: every call of DataChunk.create from a reader of user data either passes
    # chkfinite explicitly true or leaves it to a default that is True
    a_ = create.node.args
    kd = {q.arg: d for q, d in zip(a_.kwonlyargs, a_.kw_defaults) if d is not None}
    kd.update(dict(zip([q.arg for q in a_.args][len(a_.args) - len(a_.defaults) :], a_.defaults)))
    dflt = kd.get("chkfinite")
    n_calls = 0
    for fi in prog.funcs:
        if not fi.module.name.startswith("yaw.catalog.readers"):
            continue
        for c in calls_in(fi):
            if create not in prog.resolve_call(fi, c).funcs():
                continue
            n_calls += 1
            given = kwarg(c, "chkfinite")
            eff = given if given is not None else dflt
            if isinstance(eff, ast.Constant) and eff.value is True:
                res.ok("C09.R5", res.site(fi, "chkfinite"), "chunks of user data are created with the finite check on" + ("" if given is not None else " (default)"), nontrivial=False)
            else:
                res.violation("C09.R5", fi, c, f"{fi.qualname} creates chunks of user data with chkfinite={unparse(eff) if eff is not None else 'unset'}" + ("" if given is not None else " (the default of DataChunk.create)") + ": NaN / infinite coordinates, weights and redshifts are stored instead of being rejected", key_extra=f"chkfinite-off-{fi.qualname}")
    if n_calls < 1:
        raise AnalysisError("C09.R5: no DataChunk.create call found in the readers")
    # (b'') the length check the readers rely on is a check: common_len_assert has a raising path that is entered when
    # two lengths were found different (and none when they were found equal)
    cla2 = prog.func("common_len_assert")
    res.touch(cla2)
    from .common import expand_locals as _xl9

    verdicts = []
    for g_ in [cla2] + [f_ for f_ in cla2.module.all_funcs if f_.parent is cla2]:
      ccfg = cfg_of(g_.node)
      for nd in ccfg.nodes:
        if nd.kind == "stmt" and isinstance(nd.ast, ast.Raise):
            for t, pol in ccfg.guards(nd):
                for y in ast.walk(t):
                    if isinstance(y, ast.Compare) and len(y.ops) == 1 and isinstance(y.ops[0], (ast.Eq, ast.NotEq)) and "len(" in unparse(_xl9(g_.node, y, set(g_.param_names()), depth=3)):
                        neg = sum(1 for z in ast.walk(t) if isinstance(z, ast.UnaryOp) and isinstance(z.op, ast.Not) and any(w is y for w in ast.walk(z)))
                        verdicts.append((isinstance(y.ops[0], ast.NotEq) == pol) if neg % 2 == 0 else (isinstance(y.ops[0], ast.NotEq) != pol))
    if verdicts and all(verdicts):
        res.ok("C09.R5", res.site(cla2), "raises when two of the given containers differ in length")
    else:
        res.violation("C09.R5", cla2, cla2.node, "common_len_assert no longer raises when the lengths of the given columns differ (or raises when they agree): columns of different length are paired row by row, the longer ones truncated silently", key_extra="common-len-assert-semantics")
    # (c) check_patch_ids raises on both sides of the range, for the ids AS GIVEN: decided on the symbolic paths —
    # the raising decision is folded for ids below, inside and above the range, and the compared array must not have
    # been narrowed to the storage type before (a wrapped value passes any range check)
    from .. import symx
    from .c03 import _narrow_dtype

    res.touch(check_ids)
    cpaths = symx.explore(prog, check_ids, inline=symx.inline_private_helpers(prog))
    lits = [t for p in cpaths for t, _ in p.literals()]
    mins = sorted({unparse(y) for t in lits for y in ast.walk(t) if isinstance(y, ast.Call) and isinstance(y.func, ast.Attribute) and y.func.attr in ("min", "amin")} | {unparse(y) for t in lits for y in ast.walk(t) if isinstance(y, ast.Call) and (dotted(y.func) or "").split(".")[-1] in ("amin",)})
    maxs = sorted({unparse(y) for t in lits for y in ast.walk(t) if isinstance(y, ast.Call) and isinstance(y.func, ast.Attribute) and y.func.attr in ("max", "amax")})
    narrowed = None
    for t in lits:
        for y in ast.walk(t):
            if isinstance(y, ast.Call):
                dt = kwarg(y, "dtype") or (y.args[0] if isinstance(y.func, ast.Attribute) and y.func.attr == "astype" and y.args else None)
                if dt is None and (dotted(y.func) or "").split(".")[-1] in ("asarray", "array", "asanyarray") and len(y.args) > 1:
                    dt = y.args[1]
                if dt is not None and _narrow_dtype(prog, check_ids, dt):
                    narrowed = y
    if narrowed is not None:
        res.violation(
            "C09.R5",
            check_ids,
            check_ids.node,
            f"the patch ids are converted to the narrow storage type before their range is checked ({unparse(narrowed)[:60]}): an index that does not fit wraps around into the valid range and passes, "
            "the records are silently stored in another patch",
            key_extra="range-check-after-narrowing",
        )
    elif not mins and not maxs and not any(p.outcome == "raise" for p in cpaths):
        res.violation("C09.R5", check_ids, check_ids.node, "check_patch_ids no longer raises on any path: patch ids outside the range of the stored integer type are accepted and wrap around when stored", key_extra="range-check-gone")
    elif not mins and not maxs:
        raise AnalysisError("C09.R5: the patch-id range check does not compare the minimum and maximum of the ids (idiom not recognised)")
    elif not mins or not maxs:
        res.violation("C09.R5", check_ids, check_ids.node, f"patch-id range check is one-sided (lower={bool(mins)}, upper={bool(maxs)})", key_extra="one-sided-range")
    else:
        hi_txts = sorted({unparse(y) for t in lits for y in ast.walk(t) if isinstance(y, ast.Attribute) and y.attr == "max" and "iinfo" in unparse(y)})
        verdict = {}
        for label, lo_v, hi_v in (("below", -1, 5), ("inside", 0, 5), ("above", 0, 40000)):
            env = {m_: lo_v for m_ in mins}
            env.update({m_: hi_v for m_ in maxs})
            env.update({h_: 32767 for h_ in hi_txts})
            verdict[label] = symx.outcomes_under(cpaths, env)
        if verdict["below"] == {"raise"} and verdict["above"] == {"raise"} and verdict["inside"] == {"return"}:
            res.ok("C09.R5", res.site(check_ids), "raises below the lower and above the upper id bound, accepts ids inside (folded on the symbolic paths)")
        elif verdict["inside"] == {"return"} and ("return" in verdict["below"] and "raise" not in verdict["below"] or "return" in verdict["above"] and "raise" not in verdict["above"]):
            lo, hi = verdict["below"] == {"raise"}, verdict["above"] == {"raise"}
            res.violation("C09.R5", check_ids, check_ids.node, f"patch-id range check is one-sided (lower={lo}, upper={hi})", key_extra="one-sided-range")
        elif verdict["inside"] == {"raise"} or (verdict["inside"] == {"return"} and False):
            res.violation("C09.R5", check_ids, check_ids.node, f"the patch-id range check rejects ids that ARE inside the range (0 … 5 of at most 32767; outcomes below / inside / above: {verdict}): the smallest / largest valid patch id cannot be used, or the check is inverted", key_extra="range-check-rejects-valid")
        else:
            raise AnalysisError(f"C09.R5: cannot fold the patch-id range check (outcomes below / inside / above the range: {verdict})")
    # (d) PatchMode.determine never falls off the end
    det = prog.func("PatchMode.determine")
    res.touch(det)
    c3 = cfg_of(det.node)
    implicit = [p for p, lab in c3.pred[c3.exit.id] if not (c3.nodes[p].kind == "stmt" and isinstance(c3.nodes[p].ast, ast.Return) and c3.nodes[p].ast.value is not None)]
    if implicit:
        res.violation("C09.R5", det, c3.nodes[implicit[0]].ast or det.node, "PatchMode.determine can fall through without a patch method and without raising", key_extra="fallthrough")
    else:
        res.ok("C09.R5", res.site(det), "all normal exits return a mode; the fall-through path raises")


# ----------------------------------------------------------------------------- R6


def rule_r6(prog, res) -> None:
    """patch centres are paired with patches by id, or positionally behind a raising guard.
    Decided on the substituted iterable of every path that reaches the parallel Patch construction
    (helpers of the same module are looked through)."""
    from .. import symx

    Patch = prog.find_class("Patch")
    found = 0
    for fi in prog.funcs:
        sites = []
        for call in calls_in(fi):
            tg = prog.resolve_call(fi, call)
            if not any(t.name == "iter_unordered" for t in tg.funcs()):
                continue
            if not call.args or not any(t[0] == "type" and t[1] is Patch for t in prog.func_env(fi).type_of(call.args[0])):
                continue
            sites.append(call)
        if not sites:
            continue
        found += len(sites)
        res.touch(fi)
        centre_params = [p for p in fi.param_names() if "center" in p or "centre" in p]
        is_cen = lambda x: isinstance(x, ast.Name) and x.id in centre_params  # noqa: E731
        paths = symx.explore(prog, fi, inline=symx.inline_private_helpers(prog, public={"iter_unordered"}))
        seen = 0
        for p in paths:
            for ev in p.calls("iter_unordered"):
                if ev.node not in sites:
                    continue
                seen += 1
                it = ev.expr.args[1] if len(ev.expr.args) > 1 else kwarg(ev.expr, "iterable")
                if not (isinstance(it, ast.Call) and isinstance(it.func, ast.Name) and it.func.id == "zip"):
                    if it is not None and symx.mentions(it, is_cen):
                        raise AnalysisError(f"C09.R6: centres reach the Patch construction in {fi.qualname} through an unrecognised iterable {unparse(it)[:80]}")
                    continue
                centre_ops = [a for a in it.args if symx.mentions(a, is_cen)]
                if not centre_ops:
                    res.ok("C09.R6", res.site(fi, "no-centres"), "no centre operand on this path", nontrivial=False)
                    continue
                others = [a for a in it.args if a not in centre_ops]
                keyed = any(
                    isinstance(x, ast.Subscript) and not isinstance(x.slice, ast.Slice) and symx.mentions(x.value, is_cen) and not isinstance(x.slice, ast.Constant)
                    for a in centre_ops
                    for x in ast.walk(a)
                )
                if keyed:
                    res.ok("C09.R6", res.site(fi, "keyed"), "centre selected by a patch-id derived subscript")
                    continue
                # positional pairing: a raising guard must accept exactly ids == 0..N-1 for N centres (folded on test vectors)
                guarded = False
                undecidable = None
                for t, pol, node in symx.raising_guards(paths, p):
                    if not symx.mentions(t, is_cen):
                        continue
                    ttxt = unparse(t)
                    cands = sorted({unparse(x) for o in others for x in ast.walk(o) if isinstance(x, ast.expr) and not isinstance(x, ast.Constant)}, key=len, reverse=True)
                    ids_txt = next((c for c in cands if c in ttxt and not any(cp in c for cp in centre_params)), None)
                    if ids_txt is None:
                        continue
                    cen_txts = sorted({unparse(a) for a in centre_ops} | set(centre_params), key=len, reverse=True)
                    raises_when = not pol
                    vectors = [([0, 1, 2], 3, False), ([0, 1, 3], 4, True), ([0, 2], 3, True), ([1, 2, 3], 3, True), ([0, 1], 3, True)]
                    sound = True
                    for ids, ncen, should_raise in vectors:
                        env = {ids_txt: ids}
                        for c in cen_txts:
                            env[c] = [object()] * ncen
                        try:
                            v = bool(ceval(t, env))
                        except Unknown:
                            sound = None
                            undecidable = ttxt
                            break
                        if (v == raises_when) != should_raise:
                            sound = False
                            break
                    if sound:
                        guarded = True
                        break
                if guarded:
                    res.ok("C09.R6", res.site(fi, "guarded"), "positional pairing happens only behind a raising id-list guard that accepts exactly ids 0..N-1")
                elif undecidable is not None:
                    raise AnalysisError(f"C09.R6: cannot evaluate the centre/id guard {undecidable[:100]}")
                else:
                    res.violation(
                        "C09.R6",
                        fi,
                        ev.node,
                        "patch centres are zipped positionally with the patch directories found on disk: a centre that attracted no "
                        "object shifts every later centre onto the wrong patch (and the missing patch is not reported)",
                        key_extra="zip-centres-positional",
                    )
                    return
        if seen == 0:
            raise AnalysisError(f"C09.R6: no path of {fi.qualname} reaches the Patch construction")
    if found == 0:
        raise AnalysisError("C09.R6: no parallel Patch construction found (anchor vanished)")


# same-name parameters that are deliberately not handed on, one line of reason each
FORWARD_EXCEPTIONS = {
    ("yaw.utils.parallel", "comm"): "rank helpers (on_root / on_worker / get_size) are only used with the world communicator, which is also their default",
}
# parameter-name patterns that may be left out on purpose, with the reason
FORWARD_OPTIONAL_SUFFIXES = {
    "_name": "selectors of OPTIONAL input columns (weight_name, redshift_name, patch_name): an auxiliary reader may read fewer columns than the main one",
}


def rule_r7(prog, res) -> None:
    """options reach the component that implements them: when a function takes a parameter `p` and calls an
    in-package function / constructor that has a parameter of the same name WITH A DEFAULT, it passes it on —
    otherwise the callee silently runs with its default (e.g. overwrite=True deleting a cache the caller asked to
    keep, in the one pipeline variant that dropped the argument). Exceptions are listed with their reason."""
    n = 0
    for fi in prog.funcs:
        fparams = set(fi.param_names()) - {"self", "cls"}
        if not fparams:
            continue
        own_kw = fi.node.args.kwarg.arg if fi.node.args.kwarg is not None else None
        for c in calls_in(fi):
            # a ** spread hides what is passed — unless it is the function's own **parameter, which cannot contain
            # any of the function's explicit parameters
            spreads = [k for k in c.keywords if k.arg is None]
            if any(isinstance(x, ast.Starred) for x in c.args) or any(not (isinstance(k.value, ast.Name) and k.value.id == own_kw) for k in spreads):
                continue
            try:
                tg = prog.resolve_call(fi, c)
            except Exception:  # noqa: BLE001
                continue
            callees = []  # (label, positional names, {defaulted name: default expression})
            for g in tg.funcs():
                a = g.node.args
                dflt = {p_.arg: d for p_, d in zip(a.args[len(a.args) - len(a.defaults) :], a.defaults)}
                dflt.update({p_.arg: d for p_, d in zip(a.kwonlyargs, a.kw_defaults) if d is not None})
                callees.append((g.qualname, [p_.arg for p_ in a.args if p_.arg not in ("self", "cls")], dflt))
            for k in tg.classes():
                m = prog.find_method(k, "__init__")
                if m is not None:
                    a = m.node.args
                    dflt = {p_.arg: d for p_, d in zip(a.args[len(a.args) - len(a.defaults) :], a.defaults)}
                    dflt.update({p_.arg: d for p_, d in zip(a.kwonlyargs, a.kw_defaults) if d is not None})
                    callees.append((m.qualname, [p_.arg for p_ in a.args if p_.arg not in ("self", "cls")], dflt))
                elif any("dataclass" in d_ for d_ in k.decorators()) if hasattr(k, "decorators") else any("dataclass" in unparse(d_) for d_ in k.node.decorator_list):
                    # synthesised constructor of a dataclass: fields in order, defaults from `= value` / field(default=…)
                    pos_, dflt = [], {}
                    for st in k.node.body:
                        if isinstance(st, ast.AnnAssign) and isinstance(st.target, ast.Name):
                            v = st.value
                            kw_only = isinstance(v, ast.Call) and (dotted(v.func) or "").split(".")[-1] == "field" and isinstance(kwarg(v, "kw_only"), ast.Constant) and kwarg(v, "kw_only").value is True
                            if not kw_only:
                                pos_.append(st.target.id)
                            if v is not None:
                                if isinstance(v, ast.Call) and (dotted(v.func) or "").split(".")[-1] == "field":
                                    d_ = kwarg(v, "default") or kwarg(v, "default_factory")
                                    if d_ is not None:
                                        dflt[st.target.id] = d_
                                else:
                                    dflt[st.target.id] = v
                    callees.append((k.name, pos_, dflt))
            for gname, pos, dflt in callees:
                shared = fparams & set(dflt)
                if not shared:
                    continue
                given = {k.arg for k in c.keywords} | set(pos[: len(c.args)])
                for p_ in sorted(shared):
                    n += 1
                    res.touch(fi)
                    if p_ in given:
                        res.ok("C09.R7", res.site(fi, f"{gname}({p_}=…)"), "forwarded", nontrivial=False)
                    elif (fi.module.name, p_) in FORWARD_EXCEPTIONS:
                        res.ok("C09.R7", res.site(fi, f"{gname}() without {p_}"), "listed exception: " + FORWARD_EXCEPTIONS[(fi.module.name, p_)], nontrivial=False)
                    elif any(p_.endswith(sfx) for sfx in FORWARD_OPTIONAL_SUFFIXES) and isinstance(dflt[p_], ast.Constant) and dflt[p_].value is None:
                        res.ok("C09.R7", res.site(fi, f"{gname}() without {p_}"), "listed exception: " + next(v for k, v in FORWARD_OPTIONAL_SUFFIXES.items() if p_.endswith(k)), nontrivial=False)
                    else:
                        res.violation(
                            "C09.R7",
                            fi,
                            c,
                            f"{fi.name} takes `{p_}` but calls {gname} without it: the callee silently uses its default `{p_}={unparse(dflt[p_])[:30]}` instead of what the caller asked for",
                            key_extra=f"option-dropped-{fi.qualname}-{p_}",
                        )
    if n < 20:
        raise AnalysisError(f"C09.R7: only {n} same-name parameter hand-overs found, minimum 20")


def rule_r9(prog, res) -> None:
    """a catalog is only declared complete when every patch holds data: in `CatalogWriter.finalize` a test of each
    writer's record count against zero — true for an empty patch — either raises or collects the patch in a container
    that is walked / tested with a raise afterwards, and both lie on every path to the publication of the id list.
    (An empty patch has no centre; kept in the list it shifts or poisons everything computed per patch.)"""
    from ..inline import inlined

    cw = next((c for c in prog.classes if "finalize" in c.methods and "process_patches" in c.methods), None)
    if cw is None:
        raise AnalysisError("C09.R9: catalog writer class (finalize, process_patches) not found")
    fin = inlined(prog, cw.methods["finalize"], desugar=True)
    res.touch(cw.methods["finalize"])
    cfg = cfg_of(fin.node)
    publish = [n for n in cfg.nodes if any(isinstance(c.func, ast.Attribute) and c.func.attr in ("replace", "rename") for c in n.calls())]
    if not publish:
        # … or in a helper of another shape that finalize calls: the call that (transitively) renames a file
        S_ = summaries(prog)
        publish = [n for n in cfg.nodes if any(e.kind == "fs" and e.op in ("rename", "replace") for e, _f in S_.node_may(cw.methods["finalize"], n))] if fin is cw.methods["finalize"] else []
        if not publish:
            publish = [n for n in cfg.nodes if any(any(any(e.kind == "fs" and e.op in ("rename", "replace") for e, _f in S_.may(t)) for t in prog.resolve_call(fin, c).funcs()) for c in n.calls())]
    if not publish:
        raise AnalysisError("C09.R9: publication of the patch id list (rename / replace) not found in finalize")
    counts_ = lambda e: any(isinstance(y, ast.Attribute) and y.attr in ("num_processed", "num_records") for y in ast.walk(e))  # noqa: E731
    # (test expression, statement that carries it, statements of its true-branch, names of containers it fills)
    tests = [(x.test, x, x.body, None) for x in ast.walk(fin.node) if isinstance(x, ast.If) and counts_(x.test)]
    for x in ast.walk(fin.node):
        # a filtering comprehension: empty = {pid for pid, w in writers.items() if w.num_processed == 0}
        if isinstance(x, ast.Assign) and len(x.targets) == 1 and isinstance(x.targets[0], ast.Name) and isinstance(x.value, (ast.SetComp, ast.ListComp, ast.DictComp, ast.GeneratorExp)):
            for g in x.value.generators:
                for cnd in g.ifs:
                    if counts_(cnd):
                        tests.append((cnd, x, [], [x.targets[0].id]))
    good = None
    why = "finalize does not test the record count of the patch writers"
    for test, carrier, body, filled in tests:
        cnt = next(y for y in ast.walk(test) if isinstance(y, ast.Attribute) and y.attr in ("num_processed", "num_records"))
        try:
            fires_for_empty = bool(ceval(test, {unparse(cnt): 0})) and not bool(ceval(test, {unparse(cnt): 5}))
        except Unknown:
            continue
        if not fires_for_empty:
            why = f"the test `{unparse(test)}` does not single out the empty patch (it is {'true' if bool(ceval(test, {unparse(cnt): 5})) else 'false'} for a patch with records)"
            continue
        raises_here = any(isinstance(y, ast.Raise) for s_ in body for y in ast.walk(s_))
        coll = filled if filled is not None else [c.func.value.id for s_ in body for c in ast.walk(s_) if isinstance(c, ast.Call) and isinstance(c.func, ast.Attribute) and c.func.attr in ("add", "append") and isinstance(c.func.value, ast.Name)]
        later = [x for x in ast.walk(fin.node) if isinstance(x, (ast.For, ast.If)) and any(isinstance(y, ast.Raise) for y in ast.walk(x)) and any(isinstance(y, ast.Name) and y.id in coll for y in ast.walk(x.iter if isinstance(x, ast.For) else x.test))]
        if not raises_here and not later:
            why = f"an empty patch found by `{unparse(test)}` neither raises nor is collected for a later raise"
            continue
        guard_nodes = [n for n in cfg.nodes if n.ast is carrier or any(n.ast is l for l in later)]
        if all(any(cfg.dominates(g, pnode) for g in guard_nodes) for pnode in publish):
            good = test
    if good is not None:
        res.ok("C09.R9", res.site(cw.methods["finalize"]), f"`{unparse(good)}` leads to a raise on every path to the publication of the id list")
    else:
        res.violation("C09.R9", cw.methods["finalize"], fin.node, f"{cw.name}.finalize can publish the patch id list with an empty patch in it: {why}", key_extra="empty-patch-published")


def rule_r8(prog, res) -> None:
    """patch ids that the library generates itself fit the stored integer type: wherever the way of patching is decided
    (`PatchMode.determine`), the arm for given centres range-checks the number of centres and the arm for a number of
    patches range-checks that number (`check_patch_ids`) before the mode is returned — ids beyond the 16-bit range wrap
    around silently and objects land in patches with small ids"""
    from .. import symx

    pm = prog.find_class("PatchMode")
    det = pm.methods.get("determine") if pm else None
    if det is None:
        raise AnalysisError("C09.R8: PatchMode.determine vanished")
    res.touch(det)
    chk = prog.func("check_patch_ids")
    n = 0
    for p in symx.explore(prog, det, inline=symx.inline_private_helpers(prog, public={"check_patch_ids"}), skip_tests=("logger", "log_sink")):
        if p.outcome != "return" or p.value is None:
            continue
        mode = unparse(p.value).split(".")[-1]
        if mode not in ("apply", "create"):
            continue
        n += 1
        what = "patch_centers" if mode == "apply" else "patch_num"
        checked = [ev for ev in p.calls() if chk in prog.resolve_call(ev.fi, ev.node).funcs() and ev.expr.args and symx.mentions(ev.expr.args[0], lambda y: isinstance(y, ast.Name) and y.id == what)]
        if checked:
            res.ok("C09.R8", res.site(det, f"mode {mode}"), f"the number of patches ({unparse(checked[0].expr.args[0])[:30]}) is range-checked before the mode is returned")
        else:
            res.violation("C09.R8", det, p.node or det.node, f"PatchMode.determine returns '{mode}' without range-checking the number of patches derived from `{what}`: with more patches than the id type holds the generated ids wrap around and records are filed under other patches", key_extra=f"patch-count-unchecked-{mode}")
    if n < 2:
        raise AnalysisError(f"C09.R8: only {n} mode-returning paths for generated patch ids found, minimum 2")


RULES = [
    ("C09.R1", rule_r1, QUICK),
    ("C09.R2", rule_r2, QUICK),
    ("C09.R3", rule_r3, QUICK),
    ("C09.R4", rule_r4, QUICK),
    ("C09.R5", rule_r5, QUICK),
    ("C09.R6", rule_r6, QUICK),
    ("C09.R7", rule_r7, QUICK),
    ("C09.R8", rule_r8, QUICK),
    ("C09.R9", rule_r9, QUICK),
]
