"""C01 — pair counts are exact and complete (structural clauses).

R1 the patch-link threshold is conservative in every catalog (radii of all catalogs, current
   patch radius and the pruning angle all enter with coefficient >= 1).
R2 the pruning angle covers every counting angle (evaluation-point domain).
R3 count / dispatch flag agreement and the shape of dispatch_counts.
R4 unit typing on the geometry path (xyz trees, chord radii, unit conversion tables).
R5 bin-index and catalog-side consistency in the per-pair worker and the accumulation.
R6 role typing of DD / DR / RD / RR.
Not decided: the KD-tree counts themselves, the merged angular grid, numerical equality.
"""

from __future__ import annotations

import ast
import math
import re

from ..cfg import cfg_of
from ..dataflow import _targets, all_def_values, depends_on
from ..effects import Unknown, ceval, summaries
from ..model import AnalysisError, FuncInfo, dotted, norm_stmt, unparse, walk_no_nested
from ..norm import NotAffine, affine
from .c07 import mini_run
from .common import QUICK, calls_in, kwarg, named_args, parents_map

EXPLANATION = (
    "Static analysis of the pair-counting path on /repo's current source. R1 normalises the right-hand side of the "
    "patch-link comparison to an affine form and classifies its atoms by backward data slice: the vector of patch "
    "radii must depend on get_radii() of EVERY catalog handed to the linkage (coverage lattice over the `catalog, "
    "*catalogs` parameters), the current patch radius and the pruning angle must be present, all with coefficient >= 1 "
    "and the centre distance on the smaller side of a < / <= comparison. R2 classifies the redshifts at which the "
    "pruning angle is evaluated in the abstract domain {ALL_MIDS, LOW, HIGH, CLAMPED}: because angle(z)=r/D(z) with "
    "unimodal D attains its maximum over the binning at an end point, ALL_MIDS or LOW+HIGH with a max-reduction is "
    "required. R3-R6 are def-use / table rules (flag agreement, unit conversion table folding, index and side "
    "consistency, DD/DR/RD/RR role table)."
    " Later rounds: R7-R11 (closed side at the tree build, weight grid, options reaching the count, homogeneity of stored weight sums, cosmology forwarding); R12: the pair iterator's draining loop runs while a single entry is left (loop test folded over sizes 0..3); R1 also bounds the coefficients of the combined radii (maximum over catalogs of radius + centre offset) from below by one and checks that the linked ids are selected BY the comparison mask; R5 folds the definition of the auto flag for 'no second catalog' / 'second catalog'."
)
ASSUMPTIONS = [
    "triangle inequality on the sphere: objects of patches i, j can be closer than theta only if dist(c_i, c_j) < r_i + r_j + theta, with r measured from the centres used in the distance",
    "angle(z) = r / D(z) with D unimodal in z (angular diameter distance) or monotone (comoving): the maximum over a redshift range is attained at an end point",
    "scipy KDTree.count_neighbors(cumulative=True) returns counts within each radius, cumulative=False per annulus with the first entry [0, r0]",
]


# ----------------------------------------------------------------------------- R1


def _resolve1(fn, e: ast.AST) -> ast.AST:
    """follow a plain name to its single local definition"""
    for _ in range(3):
        if isinstance(e, ast.Name):
            vals = [v for v in all_def_values(fn, e.id) if v is not None]
            if len(vals) == 1 and len(all_def_values(fn, e.id)) == 1:
                e = vals[0]
                continue
        break
    return e


def _link_function(prog) -> tuple[FuncInfo, ast.Compare]:
    from ..inline import inlined

    for fi0 in prog.funcs:
        if not fi0.module.name.startswith("yaw.correlation") or fi0.parent is not None:
            continue
        # closures, private helpers and comprehensions are brought into the plain statement form the rule reads
        fi = inlined(prog, fi0, desugar=True, keep={"get_max_angle", "check_patch_conistency"})
        for x in walk_no_nested(fi.node):
            if isinstance(x, ast.Compare) and len(x.ops) == 1 and isinstance(x.ops[0], (ast.Lt, ast.LtE, ast.Gt, ast.GtE)):
                sides = [_resolve1(fi.node, x.left), _resolve1(fi.node, x.comparators[0])]
                if not any(isinstance(s_, ast.BinOp) and isinstance(s_.op, (ast.Add, ast.Sub)) for s_ in sides):
                    continue  # the link threshold is a sum of radii and angle (a difference is reported by the coefficient test)
                if any(depends_on(fi.node, s, lambda y: isinstance(y, ast.Call) and isinstance(y.func, ast.Attribute) and y.func.attr == "distance") for s in sides) and any(
                    depends_on(fi.node, s, lambda y: isinstance(y, ast.Call) and isinstance(y.func, ast.Attribute) and y.func.attr == "get_radii") for s in sides
                ):
                    return fi, x
    raise AnalysisError("C01.R1: patch-link comparison (centre distance vs. radii) not found")


def _coverage(fi: FuncInfo, recv: ast.AST, first: str, rest: str, depth: int = 4) -> set[str]:
    """which of the catalog parameters {first, rest} a get_radii receiver ranges over;
    'one' = a single selected element of all, 'others' = the complement of that element"""
    fn = fi.node
    if not isinstance(recv, ast.Name) or depth <= 0:
        return set()
    if recv.id == first:
        return {"first"}

    def unpack_source(name: str):
        """the element expression bound to `name` by `a, b = (X, Y)` (the right side may be a local holding the pair)"""
        for x in walk_no_nested(fn):
            if isinstance(x, ast.Assign) and isinstance(x.targets[0], (ast.Tuple, ast.List)) and not any(isinstance(t, ast.Starred) for t in x.targets[0].elts):
                names = [t.id if isinstance(t, ast.Name) else None for t in x.targets[0].elts]
                if name in names:
                    v = _resolve1(fn, x.value)
                    if isinstance(v, (ast.Tuple, ast.List)) and len(v.elts) == len(names):
                        return v.elts[names.index(name)]
        return None

    def coll_cov(e: ast.AST) -> set[str]:
        if isinstance(e, ast.Name):
            if e.id == rest:
                return {"rest"}
            out = set()
            src = unpack_source(e.id)
            if isinstance(src, ast.Subscript) and isinstance(src.slice, ast.Slice) and isinstance(src.slice.lower, ast.Constant) and src.slice.lower.value == 1 and src.slice.upper is None and src.slice.step is None:
                if coll_cov(src.value) >= {"first", "rest"}:
                    out.add("others")  # all[1:] — the complement of the selected element all[0]
            for v in all_def_values(fn, e.id):
                if v is not None:
                    out |= coll_cov(v)
            # starred unpack:  a, *b = <all>
            for x in walk_no_nested(fn):
                if isinstance(x, ast.Assign) and isinstance(x.targets[0], (ast.Tuple, ast.List)):
                    for t in x.targets[0].elts:
                        if isinstance(t, ast.Starred) and isinstance(t.value, ast.Name) and t.value.id == e.id:
                            if coll_cov(x.value) >= {"first", "rest"}:
                                out.add("others")
            return out
        if isinstance(e, (ast.List, ast.Tuple)):
            out = set()
            for el in e.elts:
                if isinstance(el, ast.Starred):
                    out |= coll_cov(el.value)
                elif isinstance(el, ast.Name) and el.id == first:
                    out.add("first")
                elif isinstance(el, ast.Name):
                    out |= _coverage(fi, el, first, rest, depth - 1)
            return out
        if isinstance(e, ast.Call) and (dotted(e.func) or "") in ("sorted", "list", "tuple", "reversed") and e.args:
            return coll_cov(e.args[0])
        return set()

    out: set[str] = set()
    for x in walk_no_nested(fn):
        if isinstance(x, (ast.For, ast.comprehension)) and recv.id in _targets(x.target):
            out |= coll_cov(x.iter)
        if isinstance(x, ast.Assign) and isinstance(x.targets[0], (ast.Tuple, ast.List)):
            for t in x.targets[0].elts:
                if isinstance(t, ast.Name) and t.id == recv.id and coll_cov(x.value) >= {"first", "rest"}:
                    out.add("one")
    src = unpack_source(recv.id)
    if isinstance(src, ast.Subscript) and isinstance(src.slice, ast.Constant) and src.slice.value == 0 and coll_cov(src.value) >= {"first", "rest"}:
        out.add("one")  # all[0] of a collection that holds every catalog
    return out


def rule_r1(prog, res) -> None:
    """link threshold conservative in every catalog"""
    fi, cmp_ = _link_function(prog)
    res.touch(fi)
    fn = fi.node
    op = cmp_.ops[0]
    left, right = _resolve1(fn, cmp_.left), _resolve1(fn, cmp_.comparators[0])
    dist_left = depends_on(fn, left, lambda y: isinstance(y, ast.Call) and isinstance(y.func, ast.Attribute) and y.func.attr == "distance")
    if not dist_left:
        left, right = right, left
        small_side = isinstance(op, (ast.Gt, ast.GtE))
    else:
        small_side = isinstance(op, (ast.Lt, ast.LtE))
    if not small_side:
        res.violation("C01.R1", fi, cmp_, "patches are linked when their distance is LARGER than the threshold", key_extra="link-comparison-direction")
        return
    aff = affine(right)
    atoms = {k: v for k, v in aff.items() if k != "1"}
    if any(v < 1 for v in atoms.values()):
        res.violation("C01.R1", fi, cmp_, f"a term of the link threshold has coefficient < 1 ({ {k: str(v) for k, v in atoms.items()} }): patch pairs that still contain close objects are pruned", key_extra="link-coefficient")
        return
    kinds = {}
    params = fi.param_names()
    try:
        cat_first = [p for p in params if p.startswith("catalog")][0]
        cat_rest = fi.node.args.vararg.arg
    except (IndexError, AttributeError):
        raise AnalysisError("C01.R1: linkage constructor no longer takes (catalog, *catalogs)")
    for a in atoms:
        e = ast.parse(a, mode="eval").body
        if depends_on(fn, e, lambda y: isinstance(y, ast.Call) and (dotted(y.func) or "").split(".")[-1] in ("get_max_angle",)) or "angle" in a:
            kinds[a] = "angle"
        elif depends_on(fn, e, lambda y: isinstance(y, ast.Call) and isinstance(y.func, ast.Attribute) and y.func.attr == "get_radii"):
            # loop element of the radii vector = radius of the current patch (possibly through a parameter of an expanded helper)
            root = a
            for _ in range(4):
                vals_ = [v for v in all_def_values(fn, root) if v is not None]
                if len(vals_) == 1 and isinstance(vals_[0], ast.Name):
                    root = vals_[0].id
                else:
                    break
            is_elem = any(isinstance(x, ast.For) and root in _targets(x.target) for x in walk_no_nested(fn))
            kinds[a] = "patch_radius" if is_elem else "radii"
        else:
            kinds[a] = "other"
    need = {"angle", "patch_radius", "radii"}
    have = set(kinds.values())
    if not need <= have:
        res.violation(
            "C01.R1",
            fi,
            cmp_,
            f"the link threshold lacks {sorted(need - have)} (terms: {kinds}): two patches whose centres are farther apart than the remaining terms but whose objects are within the counting angle are never counted",
            key_extra="link-threshold-terms",
        )
        return
    res.ok("C01.R1", res.site(fi, unparse(cmp_)), f"distance < {' + '.join(sorted(atoms))}: radii vector, current patch radius and pruning angle all present with coefficient >= 1")
    # the links of a patch are the patch ids selected BY the comparison: compress(ids, mask) — with the arguments the
    # other way round the "ids" are the truth values of the mask (0 / 1), every patch is linked to patches 0 and 1 only
    is_mask = lambda e: depends_on(fn, e, lambda y: y is cmp_) or any(y is cmp_ for y in ast.walk(e))  # noqa: E731
    for x in walk_no_nested(fn):
        if isinstance(x, ast.Call) and (dotted(x.func) or "").split(".")[-1] == "compress" and len(x.args) == 2:
            if is_mask(x.args[0]) and not is_mask(x.args[1]):
                res.violation("C01.R1", fi, x, f"`{unparse(x)[:60]}` selects from the link mask by the patch ids instead of selecting the patch ids by the mask: the linked 'ids' are truth values, every patch ends up linked to the patches 0 and 1 only", key_extra="link-compress-order")
            elif is_mask(x.args[1]):
                res.ok("C01.R1", res.site(fi, "compress(ids, mask)"), "the linked ids are the patch ids selected by the comparison")
    # the radii must cover every catalog
    cover: set[str] = set()
    recvs = []
    radii_names = [a for a, k in kinds.items() if k in ("radii", "patch_radius")]
    for x in walk_no_nested(fn):
        if isinstance(x, ast.Call) and isinstance(x.func, ast.Attribute) and x.func.attr == "get_radii":
            # only calls that flow into the threshold's radii
            flows = any(depends_on(fn, ast.parse(a, mode="eval").body, lambda y, x=x: y is x) for a in radii_names)
            if flows:
                recvs.append(x.func.value)
                cover |= _coverage(fi, x.func.value, cat_first, cat_rest)
    complete = {"first", "rest"} <= cover or {"one", "others"} <= cover
    if complete:
        res.ok("C01.R1", res.site(fi, "radii coverage"), f"patch radii are taken from every catalog ({sorted(unparse(r) for r in recvs)})")
    else:
        res.violation(
            "C01.R1",
            fi,
            cmp_,
            f"the patch radii in the link threshold come from {sorted({unparse(r) for r in recvs})} only (coverage {sorted(cover)}), not from every catalog: "
            "a sparser catalog whose patches extend farther (e.g. randoms) loses pairs with pruned neighbour patches",
            key_extra="link-radii-one-catalog",
        )
    # radii measured from other centres need the centre offset
    if complete and len(recvs) > 1:
        offs = [x for x in walk_no_nested(fn) if isinstance(x, ast.Call) and isinstance(x.func, ast.Attribute) and x.func.attr == "distance" and "get_centers" in unparse(x)]
        if offs:
            res.ok("C01.R1", res.site(fi, "centre offsets"), "radii of the other catalogs are enlarged by the offset of their centres")
        else:
            res.violation("C01.R1", fi, cmp_, "radii of several catalogs are combined without accounting for the distance between their patch centres", key_extra="link-centre-offset")
        # … and they enter with coefficient >= 1: every term of what is combined into the radii (maximum over the
        # catalogs of radius + offset) is affine with coefficients >= 1 — a subtracted offset shrinks the threshold
        for x in walk_no_nested(fn):
            if isinstance(x, ast.Call) and (dotted(x.func) or "").split(".")[-1] in ("maximum", "max", "fmax") and len(x.args) >= 2 and any(isinstance(y, ast.Call) and isinstance(y.func, ast.Attribute) and y.func.attr == "get_radii" for y in ast.walk(x)):
                for a in x.args:
                    try:
                        aff_a = affine(_resolve1(fn, a))
                    except NotAffine:
                        continue
                    low = {k: v for k, v in aff_a.items() if k != "1" and v < 1}
                    if low:
                        res.violation("C01.R1", fi, x, f"a term of the combined patch radii enters with coefficient < 1 ({ {k: str(v) for k, v in low.items()} } in `{unparse(a)[:60]}`): the radius around the reference centre no longer covers the other catalog's patch, pairs across pruned patch borders are lost", key_extra="radii-enlargement-coefficient")
                    else:
                        res.ok("C01.R1", res.site(fi, f"radii term {unparse(a)[:30]}"), "enters the combined radii with coefficients >= 1", nontrivial=False)


# ----------------------------------------------------------------------------- R2


def _classify_point(fn, e: ast.AST, depth: int = 5) -> str:
    """ALL_MIDS | LOW | HIGH | CLAMPED | OTHER"""
    if depth <= 0:
        return "OTHER"
    if isinstance(e, ast.Name):
        # loop / comprehension variable over mids
        for x in walk_no_nested(fn):
            if isinstance(x, (ast.For, ast.comprehension)) and e.id in _targets(x.target):
                it = x.iter
                src = unparse(it)
                if re.search(r"\bmids\b", src) or depends_on(fn, it, lambda y: isinstance(y, ast.Attribute) and y.attr == "mids"):
                    return "ALL_MIDS"
                if depends_on(fn, it, lambda y: isinstance(y, ast.Attribute) and y.attr == "edges"):
                    return "ALL_EDGES"
        vals = [v for v in all_def_values(fn, e.id) if v is not None]
        if len(vals) == 1:
            return _classify_point(fn, vals[0], depth - 1)
        return "OTHER"
    if isinstance(e, ast.Attribute):
        if e.attr == "zmin":
            return "LOW"
        if e.attr == "zmax":
            return "HIGH"
        return "OTHER"
    if isinstance(e, ast.Subscript) and isinstance(e.value, ast.Attribute) and e.value.attr in ("edges", "mids", "left", "right"):
        try:
            i = ceval(e.slice, {})
        except Unknown:
            return "OTHER"
        return "LOW" if i == 0 else "HIGH" if i == -1 else "OTHER"
    if isinstance(e, ast.Call) and isinstance(e.func, ast.Name) and e.func.id in ("ELEM", "LOOP") and e.args:
        # symbolic store: one element of an iterable (loop / comprehension variable)
        if e.func.id == "LOOP":
            return _classify_point(fn, e.args[0], depth - 1)
        attrs = [y.attr for y in ast.walk(e.args[0]) if isinstance(y, ast.Attribute)]
        if "mids" in attrs:
            return "ALL_MIDS"
        if "edges" in attrs:
            return "ALL_EDGES"
        return "OTHER"
    if isinstance(e, ast.Call):
        fnm = (dotted(e.func) or "").split(".")[-1]
        if isinstance(e.func, ast.Attribute) and e.func.attr in ("min", "max") and isinstance(e.func.value, ast.Attribute) and e.func.value.attr in ("edges", "mids"):
            return "LOW" if e.func.attr == "min" else "HIGH"
        if fnm in ("max", "min") and len(e.args) == 2:
            kinds = [_classify_point(fn, a, depth - 1) for a in e.args]
            lits = [a for a in e.args if isinstance(a, ast.Constant) or (isinstance(a, ast.Name) and _is_number_param(fn, a.id))]
            if lits:
                return "CLAMPED"
            if fnm == "min" and "LOW" in kinds:
                return "LOW"
            if fnm == "max" and "HIGH" in kinds:
                return "HIGH"
            return "OTHER"
        if fnm == "float" and e.args:
            return _classify_point(fn, e.args[0], depth - 1)
    return "OTHER"


def _is_number_param(fn, name: str) -> bool:
    a = fn.args
    for p, d in zip(reversed([*a.posonlyargs, *a.args]), reversed(a.defaults)):
        if p.arg == name and isinstance(d, ast.Constant) and isinstance(d.value, (int, float)):
            return True
    return False


def _is_gar(n) -> bool:
    return isinstance(n, ast.Call) and isinstance(n.func, ast.Attribute) and n.func.attr == "get_angle_radian"


def rule_r2(prog, res) -> None:
    """the pruning angle covers every counting angle.  Decided on the symbolic store of the function that
    computes the pruning angle (helpers and nested functions looked through): the redshifts handed to
    get_angle_radian, the reduction and the element of the returned (min, max) pair that is used"""
    from .. import symx

    link, _ = _link_function(prog)
    S = summaries(prog)

    def reaches_gar(t) -> bool:
        fs = [f for f in S.reachable(t) if f.module is t.module]
        return any(_is_gar(cc) for f in fs for cc in calls_in(f))

    prune = None
    for c in calls_in(link):
        for t in prog.resolve_call(link, c).funcs():
            if reaches_gar(t):
                prune = t
    if prune is None:
        if any(_is_gar(cc) for cc in calls_in(link)):
            prune = link
        else:
            raise AnalysisError("C01.R2: the function computing the pruning angle was not found")
    res.touch(prune)
    worker = prog.func("process_patch_pair")
    res.touch(worker)
    pol = symx.inline_private_helpers(prog)
    wcalls = [ev for p in symx.explore(prog, worker, inline=pol) for ev in p.calls("get_angle_radian")]
    if not wcalls:
        raise AnalysisError("C01.R2: per-pair worker no longer converts scales with get_angle_radian")
    for ev in wcalls:
        z = ev.expr.args[0] if ev.expr.args else None
        if not (isinstance(z, ast.Subscript) and symx.mentions(z.value, lambda y: isinstance(y, ast.Attribute) and y.attr == "mids")):
            raise AnalysisError(f"C01.R2: counting redshift {unparse(z) if z is not None else '?'} is not an element of the bin centres (idiom not recognised)")
    fn = prune.node
    groups = symx.explore_with_nested(prog, prune, inline=pol)
    # generator helpers of the module that the pruning function consumes (e.g. one that yields the largest angle per
    # bin centre) belong to its computation: they are explored as well
    seen_gen = {prune}
    frontier = [prune]
    for _ in range(2):
        nxt = []
        for f_ in frontier:
            for c_ in calls_in(f_):
                for t_ in prog.resolve_call(f_, c_).funcs():
                    if t_.module is prune.module and t_ not in seen_gen and any(isinstance(y, (ast.Yield, ast.YieldFrom)) for y in walk_no_nested(t_.node)):
                        seen_gen.add(t_)
                        nxt.append(t_)
                        groups.extend(symx.explore_with_nested(prog, t_, inline=pol))
        frontier = nxt
    pts = []
    exprs = []
    for g, paths in groups:
        for p in paths:
            for ev in p.events:
                if ev.expr is not None:
                    exprs.append(ev.expr)
                if ev.kind == "call" and _is_gar(ev.expr) and ev.expr.args:
                    pts.append((ev.node, _classify_point(g.node, ev.expr.args[0])))
            if p.value is not None:
                exprs.append(p.value)
    kinds = {k for _, k in pts}
    if "OTHER" in kinds:
        bad = next(c for c, k in pts if k == "OTHER")
        raise AnalysisError(f"C01.R2: cannot classify the redshift {unparse(bad.args[0])} at which the pruning angle is evaluated")
    ok = "ALL_MIDS" in kinds or "ALL_EDGES" in kinds or {"LOW", "HIGH"} <= kinds
    # reduction must be a maximum (over scales and over points)
    red_max = any((isinstance(x, ast.Call) and ((isinstance(x.func, ast.Attribute) and x.func.attr == "max") or (dotted(x.func) or "").split(".")[-1] in ("max", "amax", "maximum"))) for e in exprs for x in ast.walk(e))
    # … and no minimum anywhere over the converted scales: the smallest of several scales (or of several points) does
    # not cover the others
    for e in exprs:
        for x in ast.walk(e):
            if isinstance(x, ast.Call) and ((isinstance(x.func, ast.Attribute) and x.func.attr in ("min", "argmin")) or (dotted(x.func) or "").split(".")[-1] in ("min", "amin", "minimum", "nanmin")) and any(isinstance(y, ast.Call) and _is_gar(y) for y in ast.walk(x)):
                red_max = False
    # the upper scale limit is the one used (second element of the returned pair)
    uses_upper = False
    for e in exprs:
        for x in ast.walk(e):
            if isinstance(x, ast.Subscript) and _is_gar(symx.strip_wrappers(x.value)):
                try:
                    if ceval(x.slice, {}) in (1, -1):
                        uses_upper = True
                except Unknown:
                    pass
    if ok and red_max and uses_upper:
        res.ok("C01.R2", res.site(prune), f"pruning angle = max over evaluation points {sorted(kinds)} of the upper scale limit: covers every bin centre")
    elif not ok:
        res.violation(
            "C01.R2",
            prune,
            pts[0][0] if pts else fn,
            f"the pruning angle is evaluated only at {sorted(kinds) or 'no point'}; pair counting converts the scales at every bin centre. angle(z)=r/D(z) is largest at the lowest "
            "(or, beyond the turn-over of D_A, the highest) bin: with a clamped or one-ended evaluation point distant patch pairs are pruned although they still hold pairs inside the scale",
            key_extra="pruning-angle-points",
        )
    elif not red_max:
        res.violation("C01.R2", prune, fn, "the pruning angle is not the maximum over the evaluation points / scales", key_extra="pruning-angle-not-max")
    else:
        res.violation("C01.R2", prune, fn, "the pruning angle is computed from the lower scale limit", key_extra="pruning-angle-lower-limit")


# ----------------------------------------------------------------------------- R3


def rule_r3(prog, res) -> None:
    """count / dispatch flag agreement"""
    cnt = prog.func("AngularTree.count")
    res.touch(cnt)
    from .. import symx

    cpaths = symx.explore(prog, cnt, inline=symx.inline_private_helpers(prog, public={"dispatch_counts", "get_ang_bins", "parse_ang_limits", "get_counts_for_limits", "logarithmic_mid"}), skip_tests=("logger",))
    pairs = []
    for p in cpaths:
        cns = p.calls("count_neighbors")
        dps = [ev for ev in p.calls("dispatch_counts")]
        if cns or dps:
            pairs.append((p, cns, dps))
    if not pairs or any(len(cns) != 1 or len(dps) != 1 for _, cns, dps in pairs):
        raise AnalysisError("C01.R3: count_neighbors / dispatch_counts call sites not found (each counting path must run one KD-tree count and convert its output once)")
    mismatch = None
    for p, cns, dps in pairs:
        a = kwarg(cns[0].expr, "cumulative") or ast.Constant(True)  # scipy default
        b_ = dps[0].expr.args[1] if len(dps[0].expr.args) > 1 else kwarg(dps[0].expr, "cumulative")
        if b_ is None or unparse(a) != unparse(b_):
            mismatch = (dps[0], unparse(a), unparse(b_) if b_ is not None else "<default>")
    cn = [pairs[0][1][0].expr]
    if mismatch is None:
        res.ok("C01.R3", res.site(cnt, "cumulative"), f"count_neighbors(cumulative=…) and dispatch_counts(…, …) receive the same value `{unparse(kwarg(cn[0], 'cumulative') or ast.Constant(True))[:40]}` on all {len(pairs)} counting paths")
    else:
        res.violation("C01.R3", cnt, mismatch[0].node, f"count_neighbors runs with cumulative={mismatch[1][:40]} but its output is converted as if cumulative={mismatch[2][:40]}", key_extra="cumulative-mismatch")
    d = prog.func("dispatch_counts")
    res.touch(d)
    flag = d.param_names()[1]
    arr = d.param_names()[0]
    from .. import symx

    def ret_under(value: bool):
        # the expression returned when the flag has this value (if-statement, early return or conditional expression alike)
        ps = [p for p in symx.explore(prog, d, env={flag: value}, inline=symx.inline_private_helpers(prog)) if p.outcome == "return" and p.value is not None]
        if len({unparse(p.value) for p in ps}) != 1:
            raise AnalysisError(f"C01.R3: cannot interpret dispatch_counts for {flag}={value} ({len(ps)} returning paths)")
        return ps[0].value

    r_true, r_false = ret_under(True), ret_under(False)
    ok_t = isinstance(r_true, ast.Call) and (dotted(r_true.func) or "").endswith("diff") and unparse(r_true.args[0]) == arr and len(r_true.args) == 1 and not r_true.keywords
    ok_f = isinstance(r_false, ast.Subscript) and isinstance(r_false.slice, ast.Slice) and isinstance(r_false.slice.lower, ast.Constant) and r_false.slice.lower.value == 1 and r_false.slice.upper is None and unparse(r_false.value) == arr
    if ok_t and ok_f:
        res.ok("C01.R3", res.site(d), "cumulative -> first differences; per-annulus -> drop the [0, r_min] entry")
    else:
        res.violation("C01.R3", d, d.node, f"dispatch_counts returns {unparse(r_true)} for cumulative counts and {unparse(r_false)} otherwise; expected np.diff({arr}) and {arr}[1:]", key_extra="dispatch-shape")
    # r = chord of the angular bin edges, weights of (self, other) in this order
    r = kwarg(cn[0], "r") or (cn[0].args[1] if len(cn[0].args) > 1 else None)
    if r is not None and isinstance(r, ast.Call) and isinstance(r.func, ast.Attribute) and r.func.attr == "to_3d" and "AngularDistances" in unparse(r.func.value):
        res.ok("C01.R3", res.site(cnt, "r="), "radii handed to the KD-tree are chord lengths of the angular bin edges")
    else:
        res.violation("C01.R3", cnt, cn[0], "radii handed to the KD-tree are not AngularDistances(...).to_3d() chord lengths (trees hold unit vectors)", key_extra="radii-not-chords")
    w = kwarg(cn[0], "weights")
    if w is not None and isinstance(w, ast.Tuple) and [unparse(e) for e in w.elts] == ["self.weights", "other.weights"] and unparse(cn[0].args[0]) == "other.tree" and unparse(cn[0].func.value) == "self.tree":
        res.ok("C01.R3", res.site(cnt, "weights="), "weights passed as (self, other) matching self.tree.count_neighbors(other.tree)")
    else:
        res.violation("C01.R3", cnt, cn[0], "the weight tuple does not match the order of the two trees", key_extra="weights-order")


def _ret_expr(fn: ast.FunctionDef, env: dict):
    def block(stmts):
        for st in stmts:
            if isinstance(st, ast.Expr):
                continue
            if isinstance(st, ast.Return):
                return st.value
            if isinstance(st, ast.If):
                r = block(st.body if ceval(st.test, env) else st.orelse)
                if r is not None:
                    return r
            else:
                raise Unknown(norm_stmt(st))
        return None

    return block(fn.body)


# ----------------------------------------------------------------------------- R4


def rule_r4(prog, res) -> None:
    """unit typing and unit conversion tables"""
    init = prog.func("AngularTree.__init__")
    res.touch(init)
    kd = [c for c in calls_in(init) if (dotted(c.func) or "").endswith("KDTree")]
    if kd and all(isinstance(c.args[0], ast.Call) and isinstance(c.args[0].func, ast.Attribute) and c.args[0].func.attr == "to_3d" for c in kd):
        res.ok("C01.R4", res.site(init), "KD-tree is built from coords.to_3d() unit vectors")
    else:
        res.violation("C01.R4", init, init.node, "KD-tree is not built from xyz unit vectors", key_extra="tree-not-xyz")
    worker = prog.func("process_patch_pair")
    res.touch(worker)
    from .. import symx

    wpaths = symx.explore(prog, worker, inline=symx.inline_private_helpers(prog))
    tc = [ev for p in wpaths for ev in p.calls("count") if isinstance(ev.expr.func, ast.Attribute) and len(ev.expr.args) + len(ev.expr.keywords) >= 3]
    if not tc:
        raise AnalysisError("C01.R4: per-pair worker shape not recognised (no tree.count call)")
    seen_sites = set()
    for ev in tc:
        if id(ev.node) in seen_sites:
            continue
        seen_sites.add(id(ev.node))
        lo = ev.expr.args[1] if len(ev.expr.args) > 1 else kwarg(ev.expr, "ang_min")
        hi = ev.expr.args[2] if len(ev.expr.args) > 2 else kwarg(ev.expr, "ang_max")

        def part(x, i):
            return isinstance(x, ast.Subscript) and isinstance(x.slice, ast.Constant) and x.slice.value == i and _is_gar(x.value)

        if lo is None or hi is None or not (_is_gar(getattr(lo, "value", None)) and _is_gar(getattr(hi, "value", None))):
            raise AnalysisError("C01.R4: per-pair worker shape not recognised (angles handed to tree.count do not come from get_angle_radian)")
        if part(lo, 0) and part(hi, 1) and unparse(lo.value) == unparse(hi.value):
            res.ok("C01.R4", res.site(worker, "tree.count"), "(ang_min, ang_max) from get_angle_radian are passed on in this order")
        else:
            res.violation("C01.R4", worker, ev.node, f"get_angle_radian returns (min, max) but tree.count receives elements ({unparse(lo.slice)}, {unparse(hi.slice)}) of it", key_extra="angle-order")
        g = lo.value
        cos = kwarg(g, "cosmology") or (g.args[1] if len(g.args) > 1 else None)  # get_angle_radian(redshift, cosmology)
        root = g.func.value
        while isinstance(root, ast.Attribute):
            root = root.value
        if cos is not None and isinstance(cos, ast.Attribute) and cos.attr == "cosmology" and isinstance(cos.value, ast.Name) and isinstance(root, ast.Name) and cos.value.id == root.id and root.id in worker.param_names():
            res.ok("C01.R4", res.site(worker, "cosmology"), "scales are converted with the configuration's cosmology")
        else:
            res.violation("C01.R4", worker, ev.node, "scales are converted without the configuration's cosmology", key_extra="worker-cosmology")
    gar = prog.func("Scales.get_angle_radian")
    res.touch(gar)
    ret = [p.value for p in symx.explore(prog, gar, inline=symx.inline_private_helpers(prog, public={"_compute_angle"})) if p.outcome == "return" and p.value is not None]
    if ret and all(isinstance(r, ast.Tuple) and len(r.elts) == 2 and ["scale_min" in unparse(r.elts[0]), "scale_max" in unparse(r.elts[1])] == [True, True] for r in ret):
        res.ok("C01.R4", res.site(gar), "returns (angle of scale_min, angle of scale_max)")
    else:
        res.violation("C01.R4", gar, gar.node, "get_angle_radian does not return (min, max) in this order", key_extra="angle-radian-order")
    # conversion tables, folded for scales = 1, distance = 2
    expect = {
        "AngularScales": ({"rad": 1.0, "deg": math.pi / 180, "arcmin": math.pi / 180 / 60, "arcsec": math.pi / 180 / 3600}, None),
        "PhysicalScales": ({"kpc": 1 / 1000 / 2.0, "Mpc": 1 / 2.0}, "angular_diameter_distance"),
        "ComovingScales": ({"kpc/h": 1 / 1000 / 2.0, "Mpc/h": 1 / 2.0}, "comoving_distance"),
    }
    members = {"rad": "rad", "deg": "deg", "arcmin": "arcmin", "arcsec": "arcsec", "kpc": "kpc", "Mpc": "Mpc", "kpc_h": "kpc/h", "Mpc_h": "Mpc/h"}
    for cname, (table, dist) in expect.items():
        ci = prog.find_class(cname)
        m = prog.find_method(ci, "_compute_angle")  # (possibly shared by a base class and parametrised by class-level constants)
        if m is None or m.is_abstract:
            raise AnalysisError(f"C01.R4: {cname} has no _compute_angle implementation")
        res.touch(m)
        # the distance measure that divides the scale on the returned value of every path (helpers and callbacks looked through)
        used = set()
        for p_ in symx.explore(prog, m, inline=symx.inline_private_helpers(prog), selfcls=ci):
            if p_.outcome == "return" and p_.value is not None:
                used |= {y.func.attr for y in ast.walk(p_.value) if isinstance(y, ast.Call) and isinstance(y.func, ast.Attribute) and y.func.attr.endswith("_distance")}
        if dist is not None and used != {dist}:
            res.violation("C01.R4", m, m.node, f"{cname} converts with {sorted(used)} instead of {dist}", key_extra=f"{cname}-distance-measure")
            continue
        bad = None
        for unit, want in table.items():
            env = {"self.unit": unit, "scales": 1.0, "redshift": 0.5}
            got = _fold_compute_angle(prog, m, env, members, selfcls=ci)
            if got is None or abs(got - want) > 1e-12 * max(1.0, abs(want)):
                bad = (unit, got, want)
        if bad:
            res.violation("C01.R4", m, m.node, f"{cname}._compute_angle gives {bad[1]} instead of {bad[2]:.6g} for one '{bad[0]}' (distance fixed to 2): scales are converted with the wrong factor", key_extra=f"{cname}-conversion-table")
        else:
            res.ok("C01.R4", res.site(m), f"conversion factors folded for units {sorted(table)} match the documented table")


def _fold_compute_angle(prog, fi, env: dict, members: dict, selfcls=None):
    """value returned by a _compute_angle implementation for one unit, one scale and distance 2: the paths of
    the method (same-module helpers looked through) are pruned with the unit tests decided for this unit and
    `isinstance(x, Quantity)` false; the single remaining return expression is folded numerically"""
    from .. import symx

    env = dict(env)

    def val(e):
        if isinstance(e, ast.Attribute) and isinstance(e.value, ast.Name) and e.value.id == "Unit":
            return members.get(e.attr, e.attr)
        if isinstance(e, ast.Call):
            fnm = (dotted(e.func) or (e.func.attr if isinstance(e.func, ast.Attribute) else "")).split(".")[-1]
            if fnm == "deg2rad":
                return math.radians(val(e.args[0]))
            if fnm.endswith("_distance"):
                return 2.0
            if fnm == "isinstance":
                return False
            if fnm in ("asarray", "float", "atleast_1d") and len(e.args) == 1:
                return val(e.args[0])
            if fnm == "get" and isinstance(e.func, ast.Attribute) and isinstance(e.func.value, ast.Dict) and e.args and all(k is not None for k in e.func.value.keys):
                # lookup in a (class-level) table that the symbolic store has substituted
                table = {val(k): val(v) for k, v in zip(e.func.value.keys, e.func.value.values)}
                return table.get(val(e.args[0]), val(e.args[1]) if len(e.args) > 1 else None)
            if fnm == "get" and isinstance(e.func, ast.Attribute) and isinstance(e.func.value, ast.Name) and e.args:
                # lookup in a module-level table, e.g. {Unit.arcsec: 3600.0, Unit.arcmin: 60.0}.get(self.unit)
                from ..effects import module_const_env

                table = module_const_env(prog, fi.module).get(e.func.value.id)
                if isinstance(table, dict):
                    table = {members.get(k, k): v for k, v in table.items()}
                    return table.get(val(e.args[0]), val(e.args[1]) if len(e.args) > 1 else None)
            raise Unknown(fnm)
        if isinstance(e, ast.BinOp):
            a, b = val(e.left), val(e.right)
            if isinstance(e.op, ast.Div):
                return a / b
            if isinstance(e.op, ast.Mult):
                return a * b
            raise Unknown("op")
        if isinstance(e, ast.UnaryOp) and isinstance(e.op, ast.Not):
            return not val(e.operand)
        if isinstance(e, ast.BoolOp):
            vs = [val(v) for v in e.values]
            return all(vs) if isinstance(e.op, ast.And) else any(vs)
        if isinstance(e, ast.Compare) and len(e.ops) == 1:
            a, b = val(e.left), val(e.comparators[0])
            if isinstance(e.ops[0], ast.Eq):
                return a == b
            if isinstance(e.ops[0], ast.NotEq):
                return a != b
            if isinstance(e.ops[0], ast.In):
                return a in b
            if isinstance(e.ops[0], ast.NotIn):
                return a not in b
            if isinstance(e.ops[0], ast.Is):
                return a is b
            if isinstance(e.ops[0], ast.IsNot):
                return a is not b
            raise Unknown("cmp")
        if isinstance(e, (ast.Tuple, ast.List, ast.Set)):
            return tuple(val(x) for x in e.elts)
        if isinstance(e, ast.Constant):
            return e.value
        t = unparse(e)
        if t in env:
            return env[t]
        raise Unknown(t)

    def oracle(t):
        try:
            return bool(val(t))
        except (Unknown, TypeError, ZeroDivisionError):
            return None

    try:
        paths = symx.explore(prog, fi, oracle=oracle, inline=symx.inline_private_helpers(prog), selfcls=selfcls)
        rets = [p for p in paths if p.outcome == "return" and p.value is not None]
        vals = {round(float(val(p.value)), 15) for p in rets}
    except (Unknown, TypeError, ZeroDivisionError, symx.TooManyPaths):
        return None
    return vals.pop() if len(vals) == 1 else None


# ----------------------------------------------------------------------------- R5


def _side(e: ast.AST, env: dict | None = None) -> set[str]:
    """the catalog side(s) an expression belongs to: by the 1 / 2 suffix of the names and attributes in it, and — for a
    local without such a suffix — by the side of what was assigned to it (env, see _side_env)"""
    out = set()
    for x in ast.walk(e):
        nm = x.id if isinstance(x, ast.Name) else x.attr if isinstance(x, ast.Attribute) else None
        if nm and re.search(r"[A-Za-z_](1|2)$", nm):
            out.add(nm[-1])
        elif env and isinstance(x, ast.Name) and x.id in env:
            out |= env[x.id]
    return out


def _side_env(fn: ast.AST) -> dict:
    """local name -> side(s) of the values it is bound to (assignments, loop targets paired with zip / enumerate
    positionally), for locals whose own name carries no side suffix; a few rounds reach the fixpoint"""
    env: dict = {}

    def named(n: str) -> bool:
        return bool(re.search(r"[A-Za-z_](1|2)$", n))

    def bind(t, v) -> None:
        if isinstance(t, ast.Starred):
            t = t.value
        if isinstance(v, ast.Call) and isinstance(v.func, ast.Name) and v.func.id == "enumerate" and v.args and isinstance(t, (ast.Tuple, ast.List)) and len(t.elts) == 2:
            bind(t.elts[1], v.args[0])
            return
        if isinstance(v, ast.Call) and isinstance(v.func, ast.Name) and v.func.id == "zip" and isinstance(t, (ast.Tuple, ast.List)) and len(t.elts) == len(v.args):
            for a, b in zip(t.elts, v.args):
                bind(a, b)
            return
        if isinstance(t, (ast.Tuple, ast.List)) and isinstance(v, (ast.Tuple, ast.List)) and len(t.elts) == len(v.elts):
            for a, b in zip(t.elts, v.elts):
                bind(a, b)
            return
        if isinstance(v, (ast.Compare, ast.BoolOp)) or (isinstance(v, ast.UnaryOp) and isinstance(v.op, ast.Not)):
            return  # a flag computed from a test (`auto = catalog2 is None`) is not data of that catalog
        sv = _side(v, env)
        for x in ast.walk(t):
            if isinstance(x, ast.Name) and not named(x.id) and sv and len(sv) == 1:
                env[x.id] = env.get(x.id, set()) | sv

    for _ in range(3):
        for x in ast.walk(fn):
            if isinstance(x, ast.Assign):
                for t in x.targets:
                    bind(t, x.value)
            elif isinstance(x, ast.AnnAssign) and x.value is not None:
                bind(x.target, x.value)
            elif isinstance(x, (ast.For, ast.comprehension)):
                # (what a method call yields is not data of the catalogs named in its arguments: `for i, j in
                # self.iter_patch_id_pairs(auto=auto)`)
                it_ = x.iter
                if isinstance(it_, ast.Call) and not (isinstance(it_.func, ast.Name) and it_.func.id in ("zip", "enumerate", "iter", "sorted", "reversed", "list", "tuple")):
                    continue
                bind(x.target, x.iter)
            elif isinstance(x, ast.NamedExpr):
                bind(x.target, x.value)
    return {k: v for k, v in env.items() if len(v) == 1}


def _worker_outputs(fn: ast.AST) -> list[str]:
    """the arrays the worker allocates (np.empty / zeros / …) and hands to the constructor of its result"""
    outs = []
    for x in walk_no_nested(fn):
        if isinstance(x, ast.Return) and isinstance(x.value, ast.Call):
            for a in list(x.value.args) + [k.value for k in x.value.keywords]:
                if isinstance(a, ast.Name):
                    vals = [v for v in all_def_values(fn, a.id) if v is not None]
                    if vals and all(isinstance(v, ast.Call) and (dotted(v.func) or "").split(".")[-1] in ("empty", "zeros", "full", "ones", "empty_like", "zeros_like") for v in vals) and a.id not in outs:
                        outs.append(a.id)
    return outs


def rule_r5(prog, res) -> None:
    """bin-index and catalog-side consistency"""
    worker = prog.func("process_patch_pair")
    res.touch(worker)
    fn = worker.node
    loops = [x for x in walk_no_nested(fn) if isinstance(x, ast.For) and isinstance(x.iter, ast.Call) and isinstance(x.iter.func, ast.Name) and x.iter.func.id == "enumerate"]
    if len(loops) != 1:
        raise AnalysisError("C01.R5: tree loop of the per-pair worker not recognised")
    lp = loops[0]
    idx = lp.target.elts[0].id
    n_ok = 0
    # the per-bin arrays of the worker, by role: the arrays it allocates and hands to its result, and every array it
    # subscripts with the loop's bin index
    per_bin = set(_worker_outputs(fn))
    for x in ast.walk(lp):
        if isinstance(x, ast.Subscript) and isinstance(x.value, ast.Name) and any(isinstance(n, ast.Name) and n.id == idx for n in ast.walk(x.slice)):
            per_bin.add(x.value.id)
    for x in ast.walk(lp):
        if isinstance(x, ast.Subscript) and isinstance(x.value, ast.Name) and x.value.id in per_bin:
            names = {n.id for n in ast.walk(x.slice) if isinstance(n, ast.Name)}
            consts = [n for n in ast.walk(x.slice) if isinstance(n, ast.Constant) and isinstance(n.value, int)]
            if names != {idx} or consts or any(isinstance(n, ast.BinOp) for n in ast.walk(x.slice)):
                res.violation("C01.R5", worker, x, f"{unparse(x)} is not indexed by the loop's bin index {idx} alone: the pair counts of one bin are combined with the angle / weights of another", key_extra=f"bin-index-{x.value.id}")
            else:
                n_ok += 1
    if n_ok >= 4:
        res.ok("C01.R5", res.site(worker, "bin index"), f"{n_ok} per-bin subscripts all use the enumerate index {idx}")
    elif not res.findings:
        raise AnalysisError("C01.R5: fewer than 4 per-bin subscripts in the worker")
    # counts stored in column i of all scales
    for x in ast.walk(lp):
        # (the array that receives the tree counts: two-dimensional, scales x bins)
        if isinstance(x, ast.Assign) and isinstance(x.targets[0], ast.Subscript) and isinstance(x.targets[0].value, ast.Name) and x.targets[0].value.id in per_bin and any(isinstance(y, ast.Call) and isinstance(y.func, ast.Attribute) and y.func.attr == "count" for y in ast.walk(x.value)) | isinstance(x.targets[0].slice, ast.Tuple):
            sl = x.targets[0].slice
            if isinstance(sl, ast.Tuple) and isinstance(sl.elts[0], ast.Slice) and isinstance(sl.elts[1], ast.Name):
                res.ok("C01.R5", res.site(worker, unparse(x.targets[0])), "counts of all scales stored in the column of this bin")
            else:
                res.violation("C01.R5", worker, x, "pair counts are stored along the wrong axis (scales x bins)", key_extra="counts-axis")
    # every bin is recorded: each of the per-bin output arrays of the worker is stored into on every path through
    # the loop body (a bin that is skipped keeps whatever np.empty / np.zeros left there for the other catalog too)
    from ..cfg import cfg_of as _cfg_of

    wcfg = _cfg_of(fn)
    outs = _worker_outputs(fn)
    if len(outs) < 3:
        raise AnalysisError(f"C01.R5: per-bin output arrays of the worker not recognised ({outs})")
    hdr = [n_ for n_ in wcfg.nodes if n_.kind == "for" and n_.ast is lp]
    if not hdr:
        raise AnalysisError("C01.R5: loop header of the worker not found in its flow graph")
    body_start = [wcfg.nodes[j] for j, lab in wcfg.succ[hdr[0].id] if lab == "n"]
    for o in outs:
        stores = [n_ for n_ in wcfg.nodes if n_.kind == "stmt" and isinstance(n_.ast, ast.Assign) and any(isinstance(t, ast.Subscript) and isinstance(t.value, ast.Name) and t.value.id == o for t in n_.ast.targets)]
        skip = wcfg.reach([b_ for b_ in body_start if b_ not in stores], avoid=lambda x_: x_ in stores, labels={"n", "t", "f", "loop", "exh"})
        if hdr[0].id in skip or not stores:
            res.violation("C01.R5", worker, lp, f"an iteration of the bin loop can finish without storing into `{o}`: for that bin the counts / the sum of weights of a catalog is missing from the result although its tree holds objects", key_extra=f"bin-not-recorded-{o}")
        else:
            res.ok("C01.R5", res.site(worker, f"{o}[i]"), "stored on every path through the loop body")
    # side consistency: every assignment / dataclass construction keeps 1 with 1 and 2 with 2
    checked = 0
    # (every function of the measurement module: the bookkeeping may live in helpers or in a collector class)
    for f in [g_ for g_ in worker.module.all_funcs]:
        res.touch(f)
        senv = _side_env(f.node)
        for x in walk_no_nested(f.node):
            if isinstance(x, ast.Assign) and len(x.targets) == 1:
                st, sv = _side(x.targets[0]), _side(x.value, senv)
                if isinstance(x.targets[0], ast.Name) and isinstance(x.value, ast.Name):
                    continue  # plain aliasing (autocorrelation: catalog2 = catalog1)
                if st and sv:
                    checked += 1
                    if st != sv:
                        res.violation("C01.R5", f, x, f"side mismatch in `{norm_stmt(x)}`: data of catalog {sorted(sv)} are stored for catalog {sorted(st)}", key_extra=f"side-assign-{unparse(x.targets[0])[:30]}")
            if isinstance(x, ast.Subscript) and _side(x.value, senv) and _side(x.slice, senv) and isinstance(x.value, ast.Name):
                checked += 1
                if _side(x.value, senv) != _side(x.slice, senv):
                    res.violation("C01.R5", f, x, f"side mismatch in `{unparse(x)}`", key_extra=f"side-subscript-{unparse(x)[:30]}")
            if isinstance(x, ast.Call):
                tg = prog.resolve_call(f, x)
                for ci in tg.classes():
                    if ci.is_dataclass:
                        fields = list(ci.class_ann)
                        for fld, a in list(zip(fields, x.args)) + [(k_.arg, k_.value) for k_ in x.keywords if k_.arg in fields]:
                            sf, sa = _side(ast.Name(id=fld, ctx=ast.Load())), _side(a, senv)
                            if sf and sa:
                                checked += 1
                                if sf != sa:
                                    res.violation("C01.R5", f, x, f"field {fld} of {ci.name} receives {unparse(a)}", key_extra=f"side-field-{ci.name}-{fld}")
                # any function / constructor of the package whose parameters carry a side receives data of that side
                for pn, a in named_args(x):
                    sf, sa = _side(ast.Name(id=pn, ctx=ast.Load())), _side(a, senv)
                    if sf and sa and not any(ci.is_dataclass for ci in tg.classes()):
                        checked += 1
                        if sf != sa:
                            res.violation("C01.R5", f, x, f"parameter {pn} of {unparse(x.func)[:40]} receives {unparse(a)[:40]}: data of catalog {sorted(sa)} are recorded for catalog {sorted(sf)}", key_extra=f"side-param-{unparse(x.func)[-30:]}-{pn}")
                if isinstance(x.func, ast.Attribute) and x.func.attr == "set_patch_pair":
                    checked += 1  # argument order is decided on the substituted call below (symbolic store)
                if isinstance(x.func, ast.Attribute) and x.func.attr == "count" and isinstance(x.func.value, ast.Name) and _side(x.func.value, senv):
                    checked += 1
                    if not (x.args and _side(x.args[0], senv) and _side(x.args[0], senv) != _side(x.func.value, senv)):
                        res.violation("C01.R5", f, x, "a tree is counted against a tree of the same catalog", key_extra="tree-same-side")
    if checked < 10:
        raise AnalysisError(f"C01.R5: only {checked} side-tagged constructs found, minimum 10")
    if not [fd for fd in res.findings if fd.rule == "C01.R5"]:
        res.ok("C01.R5", "side tags", f"{checked} side-tagged assignments, subscripts and dataclass fields are consistent")
    spp = prog.func("PatchedCounts.set_patch_pair")
    res.touch(spp)
    st = [x for x in walk_no_nested(spp.node) if isinstance(x, ast.Assign)]
    if st and isinstance(st[0].targets[0], ast.Subscript) and [unparse(e) for e in st[0].targets[0].slice.elts[1:]] == spp.param_names()[1:3]:
        res.ok("C01.R5", res.site(spp), "counts[:, id1, id2] = binned counts")
    else:
        res.violation("C01.R5", spp, spp.node, "set_patch_pair stores under transposed / other indices", key_extra="set-patch-pair-store")
    # auto-correlation: diagonal halved, upper triangle only.  Decided on the symbolic store of count_pairs /
    # iter_patch_id_pairs: the arguments of set_patch_pair and the yielded pairs are written in terms of the
    # iterated objects, so local names and the statement shape (if / conditional expression / try-else) do not matter
    from .. import symx

    def holds(path, env) -> bool:
        for t, pol, _ in path.conds:
            try:
                v = bool(ceval(t, env))
            except (Unknown, TypeError):
                continue  # a decision that does not depend on the modelled quantities
            if v != pol:
                return False
        return True

    # what "auto" means: the flag that is handed on as `auto=` is true exactly when no second catalog is given — folded
    # for both cases from its definition in every method of the linkage class that computes one
    n_auto = 0
    for m in prog.find_class("PatchLinkage").methods.values():
        handed = {unparse(k.value) for c in calls_in(m) for k in c.keywords if k.arg == "auto" and isinstance(k.value, ast.Name)}
        a_ = m.node.args
        optional = [q.arg for q, d in zip(a_.args[len(a_.args) - len(a_.defaults) :], a_.defaults) if isinstance(d, ast.Constant) and d.value is None and "catalog" in q.arg]
        var = a_.vararg.arg if a_.vararg is not None and "catalog" in a_.vararg.arg else None
        for name in sorted(handed):
            if name in m.param_names():
                continue
            vals = [v for v in all_def_values(m.node, name) if v is not None]
            if len(vals) != 1 or not (optional or var):
                continue
            res.touch(m)
            table = {}
            try:
                for second in (False, True):
                    env = {q.arg: "SOME" for q in a_.args if "catalog" in q.arg and q.arg not in optional}
                    for q in optional:
                        env[q] = "SOME" if second else None
                    if var:
                        env[var] = ("SOME",) if second else ()
                        env[f"len({var})"] = 1 if second else 0
                    table[second] = bool(ceval(vals[0], env))
            except (Unknown, TypeError):
                raise AnalysisError(f"C01.R5: cannot fold the definition of the auto flag in {m.short} ({unparse(vals[0])[:50]})") from None
            n_auto += 1
            if table == {False: True, True: False}:
                res.ok("C01.R5", res.site(m, "auto flag"), f"`{name} = {unparse(vals[0])[:40]}`: true exactly without a second catalog")
            else:
                res.violation("C01.R5", m, vals[0], f"the auto flag `{name} = {unparse(vals[0])[:50]}` is {table[False]} without and {table[True]} with a second catalog: an autocorrelation is counted as a cross-correlation (every unordered pair twice, no halved diagonal) or the reverse", key_extra=f"auto-flag-definition-{m.name}")
    # … and it is handed on: every callee of the linkage class that declares an `auto` parameter is given the flag (left
    # to its default, the container of an autocorrelation is built as one of a cross-correlation)
    n_handed = 0
    for m in prog.find_class("PatchLinkage").methods.values():
        for c in calls_in(m):
            tg = prog.resolve_call(m, c)
            if not tg.precise:
                continue
            callees = [t for t in list(tg.funcs()) + [prog.find_method(ci, "__init__") for ci in tg.classes()] if t is not None]
            if callees and all("auto" in t.param_names() for t in callees):
                n_handed += 1
                if not any(pn == "auto" for pn, _ in named_args(c)):
                    res.violation("C01.R5", m, c, f"`{unparse(c.func)[:40]}` declares an `auto` parameter but {m.name} does not hand its auto flag on: an autocorrelation is stored / normalised as a cross-correlation", key_extra=f"auto-flag-not-handed-on-{unparse(c.func)[-30:]}")
    if n_handed >= 3 and not [fd for fd in res.findings if fd.rule == "C01.R5" and "auto-flag-not-handed" in (fd.key or "")]:
        res.ok("C01.R5", "auto flag handed on", f"{n_handed} calls of the linkage class to callees with an `auto` parameter bind it")
    if n_handed < 3:
        raise AnalysisError(f"C01.R5: only {n_handed} calls that take the auto flag found in the linkage class, minimum 3")
    if n_auto < 2:
        raise AnalysisError(f"C01.R5: only {n_auto} definitions of the auto flag found in the linkage class, minimum 2")
    cp = prog.func("PatchLinkage.count_pairs")
    paths = symx.explore(prog, cp, inline=symx.inline_private_helpers(prog, public={"get_patch_pairs", "iter_patch_id_pairs", "process_patch_pair"}))
    sets = [(p, ev) for p in paths for ev in p.calls("set_patch_pair")]
    autos = {unparse(kwarg(ev.expr, "auto")) for p in paths for ev in p.calls() if ev.callee in ("zeros", "PatchedSumWeights", "PatchedCounts") and kwarg(ev.expr, "auto") is not None}
    if not sets or len(autos) != 1:
        raise AnalysisError(f"C01.R5: set_patch_pair call / auto flag of count_pairs not recognised ({len(sets)} calls, auto candidates {sorted(autos)})")
    auto_txt = next(iter(autos))
    order_bad = None
    table: dict = {}
    for p, ev in sets:
        if len(ev.expr.args) < 3:
            raise AnalysisError("C01.R5: set_patch_pair is not called with (id1, id2, counts)")
        A, B, C = ev.expr.args[:3]
        if not (isinstance(A, ast.Attribute) and A.attr == "id1" and isinstance(B, ast.Attribute) and B.attr == "id2" and unparse(A.value) == unparse(B.value)):
            order_bad = (ev, [unparse(A)[-30:], unparse(B)[-30:]])
            continue
        def factor(e, env) -> float:
            """constant factor applied to the counts (a conditional expression is decided under env)"""
            if isinstance(e, ast.IfExp):
                try:
                    return factor(e.body if bool(ceval(e.test, env)) else e.orelse, env)
                except (Unknown, TypeError):
                    return float("nan")
            fac_ = 1.0
            for y in ast.walk(e):
                if isinstance(y, ast.IfExp) and y is not e:
                    return float("nan")
                if isinstance(y, ast.BinOp) and isinstance(y.op, (ast.Mult, ast.Div)):
                    for side in (y.left, y.right):
                        if isinstance(side, ast.Constant) and isinstance(side.value, (int, float)) and not isinstance(side.value, bool):
                            fac_ *= side.value if isinstance(y.op, ast.Mult) else (1 / side.value if side is y.right else side.value)
            return fac_

        for a_ in (True, False):
            for eq in (True, False):
                env = {auto_txt: a_, unparse(A): 3, unparse(B): 3 if eq else 4}
                if holds(p, env):
                    table.setdefault((a_, eq), set()).add(factor(C, env))
    if order_bad is not None:
        res.violation("C01.R5", cp, order_bad[0].node, f"set_patch_pair receives the patch ids as {order_bad[1]} instead of (<pair>.id1, <pair>.id2)", key_extra="set-patch-pair-order")
    elif table == {(True, True): {0.5}, (True, False): {1.0}, (False, True): {1.0}, (False, False): {1.0}}:
        res.ok("C01.R5", res.site(cp, "auto diagonal"), "counts of a patch with itself are halved exactly for autocorrelations (factor table over auto x id1==id2)")
    else:
        res.violation("C01.R5", cp, sets[0][1].node, f"the diagonal patch pairs of an autocorrelation are not halved exactly once (unordered pairs counted twice / cross pairs halved): factors {dict((k, sorted(v)) for k, v in sorted(table.items()))}", key_extra="auto-diagonal-halving")
    it = prog.func("PatchLinkage.iter_patch_id_pairs")
    res.touch(it)
    auto_p = next((q for q in it.param_names() if q == "auto"), None)
    if auto_p is None:
        raise AnalysisError("C01.R5: iter_patch_id_pairs has no auto parameter")
    from ..inline import inlined as _inl

    it_an = _inl(prog, it)  # generator helpers that the iterator delegates to (`yield from …`) are expanded in place
    ipaths = symx.explore(prog, it_an, inline=symx.inline_private_helpers(prog))
    cross_yields = []
    diag_yields = 0
    for p in ipaths:
        for ev in p.events:
            if ev.kind == "yield" and isinstance(ev.expr, ast.Tuple) and len(ev.expr.elts) == 2:
                e0, e1 = (unparse(symx.strip_wrappers(e)) for e in ev.expr.elts)
                if e0 == e1:
                    diag_yields += 1
                else:
                    cross_yields.append((p, ev, e0, e1))
    if not cross_yields:
        raise AnalysisError("C01.R5: iter_patch_id_pairs yields no (i, j) pair with distinct members (idiom not recognised)")
    t = {}
    for a_ in (True, False):
        for r in "<=>":
            t[(a_, r)] = False
            for p, ev, e0, e1 in cross_yields:
                env = {auto_p: a_, e0: 2, e1: {"<": 1, "=": 2, ">": 3}[r]}
                # the decisions taken before the yield, on this path
                k = p.events.index(ev)
                pre = [c for c in p.conds if symx.mentions(c[0], lambda n: isinstance(n, ast.Name) and n.id == auto_p)]
                sub = symx.SymPath(p.store, pre, p.events[:k], p.outcome)
                if holds(sub, env):
                    t[(a_, r)] = True
    okc = all(t[(False, r)] for r in "<=>") and t[(True, ">")] and not t[(True, "<")] and not t[(True, "=")]
    rem = any(isinstance(c.func, ast.Attribute) and c.func.attr in ("remove", "discard") for c in calls_in(it_an))
    if okc and rem and diag_yields:
        res.ok("C01.R5", res.site(it), "cross pairs: all ordered pairs; auto: only j > i, the diagonal is yielded once and removed from the link sets before")
    else:
        res.violation("C01.R5", it, it.node, f"an autocorrelation does not visit exactly the unordered patch pairs with j > i plus the diagonal once (visit table {dict((k, v) for k, v in sorted(t.items()))})", key_extra="pair-iteration-filter")


# ----------------------------------------------------------------------------- R6


def _measure_paths(prog, fi):
    """paths of autocorrelate / crosscorrelate for every combination of optional inputs (randoms given or not,
    optional counts requested or not), on the root rank, logging branches skipped"""
    import itertools

    from .. import symx

    params = fi.param_names()
    opt = [p for p in params if "rand" in p.lower() and p != "random"]  # optional random catalogs
    flags = [p for p in params if p.startswith("count_")]
    out = []
    for combo in itertools.product((True, False), repeat=len(opt) + len(flags)):
        env = {"on_root()": True}
        for p, v in zip(opt, combo):
            env[p] = "SOME" if v else None
        for p, v in zip(flags, combo[len(opt) :]):
            env[p] = v
        for p in symx.explore(prog, fi, env=env, inline=symx.inline_private_helpers(prog, public={"get_max_angle", "check_patch_conistency", "process_patch_pair"}), skip_tests=("logger",)):
            if p.outcome == "return":
                out.append((env, p))
    return out


def _catalog_args(call: ast.Call, env: dict) -> list:
    """names of the catalog parameters handed to a count_pairs call (None arguments dropped)"""
    cats = []
    for a in call.args:
        if isinstance(a, ast.Constant) and a.value is None:
            cats.append(None)
        elif isinstance(a, ast.Name):
            cats.append(None if env.get(a.id, "SOME") is None else a.id)
        else:
            cats.append("?" + unparse(a)[:30])
    return cats


def rule_r6(prog, res) -> None:
    """role typing of DD / DR / RD / RR: decided on the symbolic store of autocorrelate / crosscorrelate for every
    combination of optional inputs — the value handed to each CorrFunc slot is the count of (data|random, data|random)
    catalogs that the slot is named after"""
    n = 0
    role = lambda v: "r" if "rand" in v.lower() else "d"  # noqa: E731
    slots = ["dd", "dr", "rd", "rr"]
    for name in ("autocorrelate", "crosscorrelate"):
        fi = prog.func(name)
        res.touch(fi)
        fn = fi.node
        seen = set()
        for env, p in _measure_paths(prog, fi):
            from .. import symx as _sx

            comp = _sx.strip_wrappers(p.value) if p.value is not None else None
            var2src: dict = {}
            if isinstance(comp, ast.ListComp) and len(comp.generators) == 1 and isinstance(comp.generators[0].iter, ast.Call) and (dotted(comp.generators[0].iter.func) or "") == "zip":
                ctor = comp.elt
                tgt = comp.generators[0].target
                loopvars = [e.id for e in (tgt.elts if isinstance(tgt, ast.Tuple) else [tgt])]
                var2src = dict(zip(loopvars, comp.generators[0].iter.args))
            elif isinstance(comp, ast.List) and len(comp.elts) == 1 and isinstance(comp.elts[0], ast.Starred) and isinstance(comp.elts[0].value, ast.Call) and isinstance(comp.elts[0].value.func, ast.Name) and comp.elts[0].value.func.id == _sx.LOOP and comp.elts[0].value.args:
                ctor = comp.elts[0].value.args[0]  # the loop form: result.append(CorrFunc(...)) for each element of zip(...)
            else:
                raise AnalysisError(f"C01.R6: CorrFunc list comprehension in {name} not recognised")
            if not (isinstance(ctor, ast.Call) and (dotted(ctor.func) or "").split(".")[-1] == "CorrFunc"):
                raise AnalysisError(f"C01.R6: CorrFunc construction in {name} not found")

            def source_of(a):
                if isinstance(a, ast.Name):
                    return var2src.get(a.id)
                if isinstance(a, ast.Subscript) and isinstance(a.slice, ast.Constant) and isinstance(a.slice.value, int):
                    z = a.value
                    if isinstance(z, ast.Call) and isinstance(z.func, ast.Name) and z.func.id == _sx.ELEM and z.args:
                        z = _sx.strip_wrappers(z.args[0])
                        if isinstance(z, ast.Call) and (dotted(z.func) or "") == "zip" and a.slice.value < len(z.args):
                            return z.args[a.slice.value]
                return None

            given = list(zip(slots, ctor.args)) + [(k.arg, k.value) for k in ctor.keywords if k.arg in slots]
            for slot, a in given:
                if isinstance(a, ast.Constant) and a.value is None:
                    continue
                src = source_of(a)
                if not (isinstance(src, ast.Call) and isinstance(src.func, ast.Attribute) and src.func.attr.startswith("count_pairs")):
                    raise AnalysisError(f"C01.R6: cannot trace slot {slot} of CorrFunc in {name}")
                cats = _catalog_args(src, env)
                if any(c is None for c in cats):
                    continue  # this count is not carried out for these inputs
                if any(c.startswith("?") for c in cats):
                    raise AnalysisError(f"C01.R6: catalog argument of the {slot} count in {name} is not a catalog parameter ({cats})")
                key = (slot, tuple(cats))
                if key in seen:
                    continue
                seen.add(key)
                n += 1
                r1 = role(cats[0])
                r2 = role(cats[1]) if len(cats) > 1 else r1
                if r1 + r2 == slot:
                    res.ok("C01.R6", res.site(fi, f"slot {slot} {cats}"), f"{slot} <- count_pairs({', '.join(cats)})")
                else:
                    res.violation("C01.R6", fi, p.node or fn, f"CorrFunc slot '{slot}' receives the pair counts of ({', '.join(cats)}), i.e. {(r1 + r2).upper()}", key_extra=f"{name}-slot-{slot}")
                if name == "crosscorrelate" and len(cats) == 2 and not (("ref" in cats[0]) and ("unk" in cats[1])):
                    res.violation("C01.R6", fi, p.node or fn, f"{slot} = count_pairs({cats}): the reference sample must be the first (binned) and the unknown sample the second catalog", key_extra=f"cross-order-{slot}")
    if n < 7:
        raise AnalysisError(f"C01.R6: only {n} CorrFunc slots traced, minimum 7")


def rule_r7(prog, res) -> None:
    """the binned sample's redshift lies inside the bin: closed-side rule at the tree-building site (= C10.R1)"""
    from . import c10
    from .common import shared_rule

    shared_rule(res, c10.rule_r1, "C10", "C10.R1", "C01.R7")


def rule_r8(prog, res) -> None:
    """separation weighting at any resolution: the fine grid on which the weights are evaluated spans ALL configured
    scales (its end points are the global minimum and maximum of the angular limits, whatever their order), every
    configured limit is an edge of the grid, and the grid is sorted and duplicate-free before it is used"""
    from .. import symx

    gb = prog.func("get_ang_bins")
    res.touch(gb)
    rng = gb.param_names()[0]
    wparam = next((p for p in gb.param_names() if "scale" in p), None)
    if wparam is None:
        raise AnalysisError("C01.R8: get_ang_bins has no weight-scale parameter")
    paths = [p for p in symx.explore(prog, gb, env={wparam: "SOME"}, inline=symx.inline_private_helpers(prog)) if p.outcome == "return"]
    grids = [ev for p in paths for ev in p.calls() if ev.callee in ("linspace", "logspace", "geomspace")]
    if not grids:
        raise AnalysisError("C01.R8: the weighting grid of get_ang_bins was not found")

    def extreme(e, which: str) -> bool:
        """e is the global minimum / maximum of (a monotone function of) the whole range array"""
        if isinstance(e, ast.Call):
            nm = (dotted(e.func) or unparse(e.func)).split(".")[-1]
            if nm in (which, "a" + which, "nan" + which):
                if kwarg(e, "axis") is not None or len(e.args) > (0 if isinstance(e.func, ast.Attribute) and (dotted(e.func.value) or "").split(".")[0] not in ("np", "numpy") else 1):
                    return False
                src = e.func.value if isinstance(e.func, ast.Attribute) and (dotted(e.func.value) or "").split(".")[0] not in ("np", "numpy") else (e.args[0] if e.args else None)
                return src is not None and symx.mentions(src, lambda y: isinstance(y, ast.Name) and y.id == rng) and not any(isinstance(y, ast.Subscript) for y in ast.walk(src))
            if nm in ("log10", "log", "log2", "float") and e.args:
                return extreme(e.args[0], which)
        return False

    for ev in grids:
        a, b = (ev.expr.args + [None, None])[:2]
        if a is not None and b is not None and extreme(a, "min") and extreme(b, "max"):
            res.ok("C01.R8", res.site(gb, "grid range"), "the weighting grid runs from the global minimum to the global maximum of all angular limits")
        else:
            res.violation(
                "C01.R8",
                gb,
                ev.node,
                f"the weighting grid runs from `{unparse(a)[:40]}` to `{unparse(b)[:40]}`, which are not the minimum and maximum over all configured limits: for scales that are not given in ascending order "
                "(or overlap) part of the range is covered by a few coarse bins only, the weights of the pairs there are evaluated at the wrong separation",
                key_extra="weight-grid-range",
            )
    for p in paths:
        v = p.value
        ok_sorted = v is not None and any(isinstance(y, ast.Call) and (dotted(y.func) or "").split(".")[-1] in ("sort", "unique") for y in ast.walk(v))
        ok_limits = v is not None and sum(1 for y in ast.walk(v) if isinstance(y, ast.Name) and y.id == rng) >= 2
        if ok_sorted and ok_limits:
            res.ok("C01.R8", res.site(gb, "edges"), "the configured limits are merged into the grid, which is sorted and made unique")
        else:
            res.violation("C01.R8", gb, p.node or gb.node, "the grid returned for weighted counting does not contain the configured limits as edges or is not sorted / unique", key_extra="weight-grid-edges")
    # the separation weights are applied as a weighted MEAN: the fine-grid counts are multiplied by w / sum(w) — of
    # degree zero in the weights (homogeneity typing) — on the path that asks for weighting, and nowhere else
    from .. import homog

    users = [f for f in prog.funcs if f.module is gb.module and f is not gb and any(gb in prog.resolve_call(f, c).funcs() for c in calls_in(f)) and any(q for q in f.param_names() if "weight_scale" in q or "rweight" in q)]
    if not users:
        raise AnalysisError("C01.R8: the counting function that uses the weighting grid was not found")
    from ..inline import inlined as _inl8
    from .common import expand_locals as _xl8

    for f0 in users:
        res.touch(f0)
        f = _inl8(prog, f0, keep={gb.name, "logarithmic_mid", "dispatch_counts", "get_counts_for_limits"}, desugar=True)  # an extracted weighting helper is expanded in place
        ws = next(q for q in f.param_names() if "weight_scale" in q or "rweight" in q)
        ws_names = {ws} | {x.targets[0].id for x in walk_no_nested(f.node) if isinstance(x, ast.Assign) and len(x.targets) == 1 and isinstance(x.targets[0], ast.Name) and isinstance(x.value, ast.Name) and x.value.id == ws}
        wdefs = [x for x in walk_no_nested(f.node) if isinstance(x, ast.Assign) and len(x.targets) == 1 and isinstance(x.targets[0], ast.Name) and any(isinstance(y, ast.BinOp) and isinstance(y.op, ast.Pow) and any(isinstance(z, ast.Name) and z.id in ws_names for z in ast.walk(y.right)) for y in ast.walk(x.value))]
        if len(wdefs) != 1:
            raise AnalysisError(f"C01.R8: the separation weights (… ** {ws}) of {f.short} were not found")
        wname = wdefs[0].targets[0].id
        atom = lambda e, wname=wname: homog.Deg.of({"w": 1}) if isinstance(e, ast.Name) and e.id == wname else None  # noqa: E731
        applied = []
        for x in walk_no_nested(f.node):
            fac = None
            if isinstance(x, ast.AugAssign) and isinstance(x.op, ast.Mult) and any(isinstance(y, ast.Name) and y.id == wname for y in ast.walk(x.value)):
                fac = x.value
            elif isinstance(x, ast.Assign) and isinstance(x.value, ast.BinOp) and isinstance(x.value.op, ast.Mult) and x is not wdefs[0] and any(isinstance(y, ast.Name) and y.id == wname for y in ast.walk(x.value)):
                fac = x.value.right if any(isinstance(y, ast.Name) and y.id == wname for y in ast.walk(x.value.right)) else x.value.left
            if fac is not None:
                applied.append((x, fac))
        # (a factor that arrives through a local, e.g. the value returned by an expanded helper)
        for x in walk_no_nested(f.node):
            cand = None
            if isinstance(x, ast.AugAssign) and isinstance(x.op, ast.Mult) and isinstance(x.value, ast.Name):
                cand = x.value
            elif isinstance(x, ast.Assign) and isinstance(x.value, ast.BinOp) and isinstance(x.value.op, ast.Mult) and x is not wdefs[0]:
                cand = next((o for o in (x.value.right, x.value.left) if isinstance(o, ast.Name)), None)
            if cand is not None and not any(x is a_ for a_, _f in applied):
                full = _xl8(f.node, cand, {wname} | set(f.param_names()), depth=4)
                if any(isinstance(y, ast.Name) and y.id == wname for y in ast.walk(full)):
                    applied.append((x, full))
        if not applied:
            res.violation("C01.R8", f0, wdefs[0], f"the separation weights `{wname}` are computed but never multiplied into the counts: the weighted measurement silently equals the unweighted one", key_extra="weights-not-applied")
            continue
        for x, fac in applied:
            d = homog.degree(fac, atom)
            if isinstance(d, homog.Deg) and not d.exps:
                res.ok("C01.R8", res.site(f, "weights normalised"), f"counts are multiplied by `{unparse(fac)[:40]}`, of degree zero in the weights (a weighted mean)")
            elif isinstance(d, homog.Unknown_):
                raise AnalysisError(f"C01.R8: cannot type the weight factor `{unparse(fac)[:50]}` ({d})")
            else:
                res.violation("C01.R8", f, x, f"the counts are multiplied by `{unparse(fac)[:50]}` ({d} in the separation weights) instead of by weights normalised to unit sum: the weighted counts scale with the number and size of the fine bins, normalisation against the random counts no longer cancels", key_extra="weights-not-normalised")


def rule_r9(prog, res) -> None:
    """separation weighting works for every configuration that asks for it: the resolution of the weighting grid is
    optional in the configuration (declared `int | None`), so a value read from the configuration must not reach the
    arithmetic of get_ang_bins unguarded — followed from the arithmetic use up the call chain on the symbolic store:
    at each call site the argument is a constant, a value that the path has tested against None, a parameter of the
    caller (followed further up), or an attribute whose declared type admits None (violation)"""
    from .. import symx

    gb = prog.func("get_ang_bins")
    res.touch(gb)
    arith = set()
    for x in walk_no_nested(gb.node):
        if isinstance(x, ast.BinOp):
            for side in (x.left, x.right):
                if isinstance(side, ast.Name) and side.id in gb.param_names():
                    arith.add(side.id)
    if not arith:
        raise AnalysisError("C01.R9: no parameter of get_ang_bins is used in arithmetic (weighting grid size not recognised)")

    def optional_ann(e_orig, fi) -> str | None:
        if not isinstance(e_orig, ast.Attribute):
            return None
        for ty in prog.func_env(fi).type_of(e_orig.value):
            if ty[0] == "cls":
                for c_ in prog.mro(ty[1]):
                    ann = getattr(c_, "class_ann", {}).get(e_orig.attr)
                    if ann is not None:
                        t = unparse(ann)
                        if "None" in t or "Optional" in t:
                            return t
        return None

    checked = 0
    problems = []
    seen = set()

    def follow(f, param, depth):
        """all call sites of f: what is bound to `param` there"""
        nonlocal checked
        if depth > 4 or (f.key, param) in seen:
            return
        seen.add((f.key, param))
        pos = [q for q in f.param_names() if q not in ("self", "cls")]
        for g in prog.funcs:
            sites = [c for c in calls_in(g) if f in prog.resolve_call(g, c).funcs()]
            if not sites:
                continue
            res.touch(g)
            try:
                paths = symx.explore(prog, g, skip_tests=("logger",), inline=lambda *a_: False)
            except symx.TooManyPaths:
                continue
            for c in sites:
                verdicts = set()
                for p in paths:
                    for ev in p.calls():
                        if ev.node is not c:
                            continue
                        a_sub = kwarg(ev.expr, param)
                        if a_sub is None and param in pos and pos.index(param) < len(ev.expr.args):
                            a_sub = ev.expr.args[pos.index(param)]
                        if a_sub is None:
                            verdicts.add(("default", None))
                            continue
                        a_sub = symx.strip_wrappers(a_sub)
                        txt = unparse(a_sub)
                        facts = {unparse(t): pol for t, pol in p.literals()}
                        tested = facts.get(f"{txt} is None") is False or facts.get(f"{txt} is not None") is True or facts.get(txt) is True
                        if isinstance(a_sub, ast.Constant):
                            verdicts.add(("none", None) if a_sub.value is None else ("const", None))
                        elif tested:
                            verdicts.add(("guarded", None))
                        elif isinstance(a_sub, ast.Name) and a_sub.id in g.param_names():
                            verdicts.add(("param", a_sub.id))
                        elif isinstance(a_sub, ast.Attribute) and optional_ann(a_sub, g):
                            verdicts.add(("optional", f"{txt} (declared {optional_ann(a_sub, g)})"))
                        elif isinstance(a_sub, ast.BoolOp) and isinstance(a_sub.op, ast.Or) and isinstance(a_sub.values[-1], ast.Constant) and a_sub.values[-1].value is not None:
                            verdicts.add(("guarded", None))
                        else:
                            verdicts.add(("other", None))
                if not verdicts:
                    continue
                checked += 1
                for kind, what in sorted(verdicts, key=str):
                    if kind == "none":
                        problems.append((g, c, f"{f.name}({param}=None)"))
                    elif kind == "optional":
                        problems.append((g, c, what))
                    elif kind == "param":
                        follow(g, what, depth + 1)
                if not any(k in ("none", "optional") for k, _ in verdicts):
                    res.ok("C01.R9", res.site(g, f"{f.name}({param}=…)"), "the value is a constant, tested against None on the path, or a parameter followed to its callers")

    for param in sorted(arith):
        follow(gb, param, 0)
    if checked == 0:
        raise AnalysisError("C01.R9: the resolution of the weighting grid could not be followed to its origin")
    for g, c, what in problems:
        res.violation(
            "C01.R9",
            g,
            c,
            f"the weighting resolution {what} can be None and reaches `weight_res + 1` in get_ang_bins without a guard: a measurement with rweight set and no explicit resolution fails with a TypeError "
            "instead of using the default resolution",
            key_extra=f"optional-resolution-unguarded-{g.qualname}",
        )
    if not problems:
        res.ok("C01.R9", "weighting resolution", "no optional configuration value reaches the grid arithmetic unguarded")
    # the configured weighting reaches the count at all: the per-pair worker binds both weighting parameters of the
    # tree count from the scale configuration (left to their defaults, every measurement is silently unweighted)
    worker = prog.func("process_patch_pair")
    cnt = prog.func("AngularTree.count")
    res.touch(worker)
    wparams = [q for q in cnt.param_names() if q.startswith("weight")]
    if len(wparams) != 2:
        raise AnalysisError(f"C01.R9: weighting parameters of AngularTree.count not recognised ({wparams})")
    wpaths = symx.explore(prog, worker, inline=symx.inline_private_helpers(prog), skip_tests=("logger",))
    sites = [ev for p in wpaths for ev in p.calls("count") if cnt in prog.resolve_call(worker, ev.node).funcs() or cnt in _resolve_ev(prog, ev)]
    if not sites:
        raise AnalysisError("C01.R9: the tree count of the per-pair worker was not found")
    source = {"scale": "rweight", "res": "resolution"}
    for ev in sites:
        for q in wparams:
            a = kwarg(ev.expr, q)
            want = source.get(q.split("_")[-1])
            if a is None:
                res.violation("C01.R9", worker, ev.node, f"the tree count is called without `{q}`: the configured separation weighting never reaches the count and every pair weighs one", key_extra=f"weighting-not-forwarded-{q}")
            elif want and not symx.mentions(a, lambda y, w=want: isinstance(y, ast.Attribute) and y.attr == w):
                res.violation("C01.R9", worker, ev.node, f"`{q}` of the tree count is bound to `{unparse(a)[:50]}`, not to the configured `{want}`", key_extra=f"weighting-source-{q}")
            else:
                res.ok("C01.R9", res.site(worker, f"count({q}=…)"), f"bound to the configured `{want}`")


def _resolve_ev(prog, ev) -> list:
    try:
        return list(prog.resolve_call(ev.fi, ev.node).funcs()) if getattr(ev, "fi", None) is not None else []
    except Exception:  # noqa: BLE001
        return []


def _elem_source(e: ast.AST) -> ast.AST:
    """look through the element wrappers of the symbolic store: ELEM(enumerate(X))[1] -> ELEM(X),
    ELEM(zip(A, B))[k] -> ELEM(A|B), ELEM(iter(A)) -> ELEM(A)"""
    from .. import symx

    def is_elem(x):
        return isinstance(x, ast.Call) and isinstance(x.func, ast.Name) and x.func.id == symx.ELEM and len(x.args) == 1

    changed = True
    while changed:
        changed = False
        if isinstance(e, ast.Subscript) and isinstance(e.slice, ast.Constant) and isinstance(e.slice.value, int) and is_elem(e.value):
            src = e.value.args[0]
            fn = (dotted(src.func) or "") if isinstance(src, ast.Call) else ""
            if fn == "enumerate" and e.slice.value == 1 and src.args:
                e = ast.Call(func=ast.Name(id=symx.ELEM, ctx=ast.Load()), args=[src.args[0]], keywords=[])
                changed = True
            elif fn == "zip" and 0 <= e.slice.value < len(src.args):
                e = ast.Call(func=ast.Name(id=symx.ELEM, ctx=ast.Load()), args=[src.args[e.slice.value]], keywords=[])
                changed = True
        elif isinstance(e, ast.Subscript) and isinstance(e.slice, ast.Constant) and isinstance(e.value, ast.Subscript):
            inner = _elem_source(e.value)
            if inner is not e.value:
                e = ast.Subscript(value=inner, slice=e.slice, ctx=ast.Load())
                changed = True
        elif is_elem(e) and isinstance(e.args[0], ast.Call) and (dotted(e.args[0].func) or "") in ("iter", "list", "tuple") and len(e.args[0].args) == 1:
            e = ast.Call(func=ast.Name(id=symx.ELEM, ctx=ast.Load()), args=[e.args[0].args[0]], keywords=[])
            changed = True
    return e


def rule_r10(prog, res) -> None:
    """the sums of weights stored with the counts are the sums over the very weights that are counted — homogeneity
    typing on the symbolic store: (a) every constructor path of the tree class stores a `sum_weights` that is
    homogeneous of degree one in the weights it keeps (or, without weights, a pure record count); (b) the counting
    kernel receives both trees' weights, each of degree one, on every path on which that tree has weights; (c) the
    per-bin sums handed on with the counts of a patch pair are those of the two trees that were counted, side 1 with
    side 1. A count, an offset or a sum over other weights in their place passes every test with unit weights."""
    from .. import homog, symx

    cands = [c for c in prog.classes if "count" in c.methods and any(isinstance(x, ast.Attribute) and x.attr == "sum_weights" and isinstance(x.ctx, ast.Store) for m_ in c.methods.values() for x in walk_no_nested(m_.node))]
    if len(cands) != 1:
        raise AnalysisError(f"C01.R10: tree class (count method, stores sum_weights) not found uniquely ({[c.name for c in cands]})")
    tree = cands[0]
    n = 0
    # (a) constructors
    for m in tree.methods.values():
        stores = [x for x in walk_no_nested(m.node) if isinstance(x, ast.Attribute) and x.attr == "sum_weights" and isinstance(x.ctx, ast.Store)]
        if not stores:
            continue
        res.touch(m)
        wparam = next((q for q in m.param_names() if q == "weights"), None)

        def atom(e, wparam=wparam):
            if wparam and isinstance(e, ast.Name) and e.id == wparam:
                return homog.Deg.of({"w": 1})
            if isinstance(e, ast.Call) and (dotted(e.func) or "") == "len":
                return homog.CONST
            if isinstance(e, ast.Attribute) and e.attr in ("num_records",):
                return homog.CONST
            return None

        for p in symx.explore(prog, m, inline=symx.inline_private_helpers(prog)):
            if p.outcome == "raise":
                continue
            objs = {k.rsplit(".", 1)[0] for k in p.store if isinstance(k, str) and k.endswith(".sum_weights")}
            for o in sorted(objs):
                sw, w = p.store.get(f"{o}.sum_weights"), p.store.get(f"{o}.weights")
                if sw is None or w is None:
                    continue
                n += 1
                site = res.site(m, f"{o}.sum_weights [{p.cond_text()[:50]}]")
                dw, ds = homog.degree(w, atom), homog.degree(sw, atom)
                none_w = isinstance(w, ast.Constant) and w.value is None
                want = homog.CONST if none_w else homog.Deg.of({"w": 1})
                if isinstance(ds, homog.Unknown_) or (not none_w and isinstance(dw, homog.Unknown_)):
                    raise AnalysisError(f"C01.R10: cannot type the weight sum stored by {m.short}: {ds} / {dw}")
                ok_w = none_w or isinstance(dw, homog.Zero) or dw == want
                ok_s = isinstance(ds, homog.Zero) or ds == want
                if ok_w and ok_s and not (isinstance(dw, homog.Zero) and not isinstance(ds, homog.Zero) and not none_w):
                    res.ok("C01.R10", site, f"weights: {'none' if none_w else dw}; stored sum: {ds}")
                else:
                    what = f"stores the weights `{unparse(w)[:50]}` ({'none' if none_w else dw}) but the sum `{unparse(sw)[:60]}` ({ds})"
                    res.violation(
                        "C01.R10",
                        m,
                        stores[0],
                        f"{tree.name}.{m.name} {what}: the stored sum of weights is not the sum of the weights that are counted (it must be homogeneous of degree one in them"
                        + (", a pure record count without weights" if none_w else "")
                        + ") — normalised counts change when the weights are rescaled",
                        key_extra=f"sum-weights-degree-{m.name}",
                    )
    # (b) the counting kernel
    cnt = tree.methods.get("count")
    if cnt is None:
        raise AnalysisError("C01.R10: counting method of the tree class not found")
    res.touch(cnt)
    other_p = [q for q in cnt.param_names() if q != "self"][0]
    for p in symx.explore(prog, cnt, inline=symx.inline_private_helpers(prog), skip_tests=("logger",)):
        for ev in p.calls("count_neighbors"):
            n += 1
            w = kwarg(ev.expr, "weights") or (ev.expr.args[3] if len(ev.expr.args) > 3 else None)
            recv = unparse(ev.expr.func.value).rsplit(".", 1)[0] if isinstance(ev.expr.func, ast.Attribute) else "?"
            arg0 = unparse(ev.expr.args[0]).rsplit(".", 1)[0] if ev.expr.args else "?"
            facts = {unparse(t): pol for t, pol in p.literals()}
            bad = None
            comps = list(w.elts) if isinstance(w, ast.Tuple) and len(w.elts) == 2 else ([w, w] if isinstance(w, ast.Constant) and w.value is None else None) if w is not None else [ast.Constant(None), ast.Constant(None)]
            if comps is None:
                raise AnalysisError(f"C01.R10: weights handed to count_neighbors not recognised: {unparse(w)[:60]}")
            for side, (obj, comp) in enumerate(zip((recv, arg0), comps), 1):
                if isinstance(comp, ast.Constant) and comp.value is None:
                    if facts.get(f"{obj}.weights is None") is not True and facts.get(f"{obj}.weights is not None") is not False:
                        bad = bad or f"the weights of tree {side} ({obj}) are not handed to the KD-tree count although that tree may have weights on this path [{p.cond_text()[:60]}]"
                elif unparse(comp) != f"{obj}.weights":
                    d = homog.degree(comp, lambda e, obj=obj: homog.Deg.of({"w": 1}) if unparse(e) == f"{obj}.weights" else None)
                    if d != homog.Deg.of({"w": 1}):
                        bad = bad or f"weight argument {side} is `{unparse(comp)[:40]}` ({d}), expected the weights of {obj} (degree one)"
            if bad:
                res.violation("C01.R10", cnt, ev.node, f"{bad}: each pair must contribute the product of its two weights, as the stored sums of weights assume", key_extra="kernel-weights")
            else:
                res.ok("C01.R10", res.site(cnt, f"count_neighbors weights [{p.cond_text()[:40]}]"), f"({', '.join(unparse(c) for c in comps)}) for ({recv}, {arg0})")
    # (c) the per-bin sums handed on with the counts
    for fi in prog.funcs:
        if fi.module is not prog.func("process_patch_pair").module:
            continue
        for p in symx.explore(prog, fi, inline=symx.inline_private_helpers(prog), skip_tests=("logger",)) if any(isinstance(x, ast.Attribute) and x.attr == "sum_weights" for x in walk_no_nested(fi.node)) else []:
            if p.outcome != "return" or not isinstance(p.value, ast.Call):
                continue
            cls_ = prog.resolve_call(fi, p.node.value).classes() if isinstance(p.node, ast.Return) and isinstance(p.node.value, ast.Call) else []
            if not cls_:
                continue
            fields = list(getattr(cls_[0], "class_ann", {}))
            vals = dict(zip(fields, p.value.args))
            vals.update({k.arg: k.value for k in p.value.keywords if k.arg})
            sw = {f_: v for f_, v in vals.items() if "sum_weights" in f_}
            if len(sw) < 2:
                continue
            res.touch(fi)
            counts = [ev for ev in p.calls("count") if isinstance(ev.expr.func, ast.Attribute)]
            if not counts:
                raise AnalysisError(f"C01.R10: {fi.short} hands on sums of weights but no tree count was found on the path")
            t_recv = _elem_source(counts[0].expr.func.value)
            t_arg = _elem_source(counts[0].expr.args[0]) if counts[0].expr.args else None
            trees = {"1": None, "2": None}
            for side in ("1", "2"):
                for t in (t_recv, t_arg):
                    if t is not None and f"patch{side}" in unparse(t) and f"patch{'2' if side == '1' else '1'}" not in unparse(t):
                        trees[side] = t
            if None in trees.values():
                raise AnalysisError(f"C01.R10: cannot tell which counted tree belongs to which side in {fi.short}: {unparse(t_recv)[:50]} / {unparse(t_arg)[:50] if t_arg is not None else None}")
            for f_, v in sorted(sw.items()):
                side = f_[-1]
                if side not in trees:
                    continue
                n += 1
                # value stored per bin: the SETITEM chain's values
                stored = []
                x = v
                while isinstance(x, ast.Call) and isinstance(x.func, ast.Name) and x.func.id == symx.SETITEM and len(x.args) == 3:
                    stored.append(x.args[2])
                    x = x.args[0]
                if not stored:
                    stored = [v]
                tt = unparse(trees[side])

                def atom(e, tt=tt):
                    if isinstance(e, ast.Attribute) and e.attr == "sum_weights":
                        return homog.Deg.of({unparse(_elem_source(e.value)): 1})
                    if isinstance(e, ast.Attribute) and e.attr in ("num_records",):
                        return homog.CONST
                    if isinstance(e, ast.Call) and (dotted(e.func) or "") == "len":
                        return homog.CONST
                    return None

                bad = None
                for sv in stored:
                    d = homog.degree(sv, atom)
                    if isinstance(d, homog.Unknown_):
                        raise AnalysisError(f"C01.R10: cannot type `{unparse(sv)[:60]}` stored as {f_} in {fi.short}: {d}")
                    if d != homog.Deg.of({tt: 1}):
                        bad = (sv, d)
                if bad:
                    res.violation(
                        "C01.R10",
                        fi,
                        p.node,
                        f"{f_} of the patch pair is `{unparse(bad[0])[:70]}` ({str(bad[1])[:80]}): expected the sum of weights of the tree of catalog {side} that was counted — the normalisation of the pair counts "
                        "uses another quantity than the weights that entered the counts",
                        key_extra=f"pair-sum-weights-{f_}",
                    )
                else:
                    res.ok("C01.R10", res.site(fi, f_), f"is the sum of weights of the counted tree of side {side}")
    if n < 7:
        raise AnalysisError(f"C01.R10: only {n} weight-sum instances typed, minimum 7")
    # (d) the optional columns of a patch are delivered when they exist: `Patch.weights` / `Patch.redshifts` give the
    # stored column exactly when the header says it is there, None otherwise (inverted, a weighted catalog is counted
    # unweighted — or an unweighted one fails on a missing field)
    pc = prog.find_class("Patch")
    for attr in ("weights", "redshifts"):
        m = pc.methods.get(attr)
        if m is None or not m.is_property:
            raise AnalysisError(f"C01.R10: Patch.{attr} is no property any more")
        res.touch(m)
        for has in (True, False):
            def orc(t, has=has, attr=attr):
                if isinstance(t, ast.Attribute) and t.attr == f"has_{attr}":
                    return has
                return None

            rets = [p for p in symx.explore(prog, m, oracle=orc, inline=symx.inline_private_helpers(prog)) if p.outcome == "return"]
            if not rets:
                raise AnalysisError(f"C01.R10: Patch.{attr} has no returning path with has_{attr}={has}")
            gives = [not (p.value is None or (isinstance(p.value, ast.Constant) and p.value.value is None)) for p in rets]
            if all(g == has for g in gives):
                res.ok("C01.R10", res.site(m, f"has_{attr}={has}"), "the stored column" if has else "None")
            else:
                res.violation("C01.R10", m, m.node, f"Patch.{attr} returns {'None' if has else 'data'} although the patch {'has' if has else 'has no'} {attr}: " + ("the column is ignored — trees, sums of weights and counts are built as if every object had weight one / no redshift" if has else "a field that is not stored is read"), key_extra=f"patch-accessor-{attr}-{has}")


def rule_r11(prog, res) -> None:
    """pruning and counting use one cosmology (shared with C15.R11): the configured cosmology reaches every
    conversion of scales to angles — the pruning radius of the patch linkage included"""
    from . import c15
    from .common import shared_rule

    shared_rule(res, c15.rule_r11, "C15", "C15.R11", "C01.R11")


def rule_r12(prog, res) -> None:
    """work lists are drained: a `while` loop that removes entries from a container and is controlled by the size /
    truth of that container runs as long as a single entry is left (the pair iterator empties its table of links — a
    loop that stops at one remaining patch drops that patch's remaining partners).  The loop test is folded for
    sizes 0, 1, 2, 3; it must be false for 0 and true otherwise."""
    from ..inline import inlined as _inl

    n = 0
    targets = [prog.func("PatchLinkage.iter_patch_id_pairs")] + [f for f in prog.func("PatchLinkage.iter_patch_id_pairs").module.all_funcs if f.parent is None and f.cls is None]
    seen = set()
    for f0 in targets:
        if f0.key in seen:
            continue
        seen.add(f0.key)
        f = _inl(prog, f0)
        for lp in [x for x in ast.walk(f.node) if isinstance(x, ast.While)]:
            removed = set()
            for x in ast.walk(lp):
                if isinstance(x, ast.Call) and isinstance(x.func, ast.Attribute) and x.func.attr in ("pop", "popitem", "remove", "discard", "clear") and isinstance(x.func.value, ast.Name):
                    removed.add(x.func.value.id)
                if isinstance(x, ast.Delete):
                    removed |= {t.value.id for t in x.targets if isinstance(t, ast.Subscript) and isinstance(t.value, ast.Name)}
            tests = [lp.test] if not (isinstance(lp.test, ast.Constant) and lp.test.value is True) else [ast.UnaryOp(op=ast.Not(), operand=x.test) for x in lp.body if isinstance(x, ast.If) and any(isinstance(y, ast.Break) for y in x.body)]
            for t in tests:
                ctl = {y.id for y in ast.walk(t) if isinstance(y, ast.Name)} & removed
                if len(ctl) != 1:
                    continue
                w = next(iter(ctl))
                table = {}
                try:
                    for v in (0, 1, 2, 3):
                        table[v] = bool(ceval(t, {f"len({w})": v, w: list(range(v))}))
                except (Unknown, TypeError):
                    continue
                n += 1
                res.touch(f0)
                if table == {0: False, 1: True, 2: True, 3: True}:
                    res.ok("C01.R12", res.site(f0, f"while {unparse(t)[:40]}"), f"the loop runs until `{w}` is empty")
                else:
                    stop = min(v for v in table if v and not table[v]) if any(v and not table[v] for v in table) else None
                    res.violation(
                        "C01.R12",
                        f0,
                        lp,
                        f"the loop that drains `{w}` stops while {stop if stop is not None else 'no'} entr{'y is' if stop == 1 else 'ies are'} left (test `{unparse(t)}` over sizes 0..3: {table}): the pairs still listed for the remaining patch are never yielded, their counts are missing",
                        key_extra=f"drain-{w}",
                    )
    if n < 1:
        raise AnalysisError("C01.R12: the draining loop of the pair iterator was not recognised")


def rule_r13(prog, res) -> None:
    """the redshift at which the counting angle of a bin is evaluated is the bin's centre (= C10.R7: the derived
    quantities of a binning, folded on a witness)"""
    from . import c10
    from .common import shared_rule

    shared_rule(res, c10.rule_r7, "C10", "C10.R7", "C01.R13")


def rule_r14(prog, res) -> None:
    """the linkage pairs each patch with ITS radius and centre: the catalog getters that the linkage zips (ids, centres,
    radii) enumerate the patches in one order — a getter that runs over the raw patch dictionary (worker arrival
    order) attaches the radii to other patches, and a wide patch with a compact patch's radius loses links (= C12.R4)"""
    from . import c12
    from .common import shared_rule

    shared_rule(res, c12.rule_r4, "C12", "C12.R4", "C01.R14")


def rule_r15(prog, res) -> None:
    """the stored radius of a patch is measured from the centre that is stored with it: the linkage prunes pairs of patches by centre distance and radii, so a radius around another point (the centroid of the data when centres were given) does not enclose the patch and reachable neighbours are unlinked (= C12.R1)"""
    from . import c12
    from .common import shared_rule

    shared_rule(res, c12.rule_r1, "C12", "C12.R1", "C01.R15")


RULES = [
    ("C01.R1", rule_r1, QUICK),
    ("C01.R2", rule_r2, QUICK),
    ("C01.R3", rule_r3, QUICK),
    ("C01.R4", rule_r4, QUICK),
    ("C01.R5", rule_r5, QUICK),
    ("C01.R6", rule_r6, QUICK),
    ("C01.R7", rule_r7, QUICK),
    ("C01.R8", rule_r8, QUICK),
    ("C01.R9", rule_r9, QUICK),
    ("C01.R10", rule_r10, QUICK),
    ("C01.R11", rule_r11, QUICK),
    ("C01.R12", rule_r12, QUICK),
    ("C01.R13", rule_r13, QUICK),
    ("C01.R14", rule_r14, QUICK),
    ("C01.R15", rule_r15, QUICK),
]
