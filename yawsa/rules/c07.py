"""C07 — measurements are independent of what was cached before (structural core).

R1 the reuse predicate of the tree cache compares everything the cached trees depend on
   (Binning.__eq__ covers all slots; binning_equal's truth table; `force` bypasses reuse;
   every non-rebuilding path of build() passes the predicate with the right polarity).
R2 the marker file persists exactly the compared attributes with mirrored encoding.
R3 build-before-count typestate in autocorrelate / crosscorrelate with role-correct binning.
"""

from __future__ import annotations

import ast

from ..cfg import cfg_of
from ..dataflow import all_def_values, depends_on
from ..effects import Unknown, ceval, classify_call, path_leaf
from ..model import AnalysisError, FuncInfo, dotted, norm_stmt, unparse, walk_no_nested
from .c08 import _fs_nodes, _tree_roles
from .common import QUICK, calls_in, eq_covers_slots, kwarg, pruned_reach, single_def_resolver

EXPLANATION = (
    "Static analysis on /repo's current source of the mechanism that decides whether cached trees are reused. "
    "R1: Binning.__eq__ must read every slot of Binning; binning_equal is interpreted over the finite abstract domain "
    "{None, binning A, binning B} and must be true exactly for (None, None) and equal binnings; in BinnedTrees.build "
    "every path that returns without rewriting the trees must pass the predicate (asserted true) and the `force` test. "
    "R2: the writer and the reader of the marker file agree (flag byte first, closed-side encoding evaluated for both "
    "sides and composed to the identity, edges second, zero edges <-> unbinned). R3: in the measurement entry points "
    "every catalog variable handed to a pair count is dominated, on every path where it is not None, by a build_trees "
    "call on the same variable with the binning its role requires (position-0 catalogs binned with config edges and "
    "closed side, position-1-only catalogs unbinned) and no other build intervenes."
)
ASSUMPTIONS = [
    "KD-tree leaf size influences performance only, not counts (so it need not be part of the reuse key)",
    "a catalog that appears as first argument of a pair count supplies the redshift-binned trees, one that only appears as second argument the single unbinned tree (zip(tuple, repeat))",
    "comparison of a Binning with None is False (Binning.__eq__ returns NotImplemented for foreign types)",
]


def mini_run(fn: ast.FunctionDef, env: dict):
    """Interpret a tiny straight-line/if function over a concrete environment keyed by source text."""

    class _Ret(Exception):
        def __init__(self, v):
            self.v = v

    def block(stmts):
        for st in stmts:
            if isinstance(st, ast.Expr):
                continue
            if isinstance(st, ast.Return):
                raise _Ret(None if st.value is None else ceval(st.value, env))
            if isinstance(st, ast.If):
                block(st.body if ceval(st.test, env) else st.orelse)
            elif isinstance(st, ast.Assign) and len(st.targets) == 1 and isinstance(st.targets[0], ast.Name):
                env[st.targets[0].id] = ceval(st.value, env)
            elif isinstance(st, ast.Pass):
                continue
            else:
                raise Unknown(type(st).__name__)

    try:
        block(fn.body)
    except _Ret as r:
        return r.v
    return None


def rule_r1(prog, res) -> None:
    """reuse predicate completeness"""
    ci, tmark, tcont = _tree_roles(prog)
    Binning = prog.find_class("Binning")
    eq_covers_slots(prog, res, "C07.R1", Binning)
    # Binning.__eq__: both comparisons must hold (conjunction), evaluated on the finite domain
    eq = Binning.methods["__eq__"]
    rets = [r.value for r in walk_no_nested(eq.node) if isinstance(r, ast.Return) and r.value is not None]
    final = rets[-1] if rets else None
    if final is None:
        raise AnalysisError("C07.R1: Binning.__eq__ has no return expression")
    atoms = []
    for x in ast.walk(final):
        if isinstance(x, ast.Call) and (dotted(x.func) or "").endswith("array_equal"):
            atoms.append(unparse(x))
        elif isinstance(x, ast.Compare) and "closed" in unparse(x):
            atoms.append(unparse(x))
    approx = [x for x in ast.walk(final) if isinstance(x, ast.Call) and (dotted(x.func) or "").split(".")[-1] in ("allclose", "isclose")]
    if approx:
        res.violation("C07.R1", eq, approx[0], "Binning.__eq__ compares the edges approximately: trees cached for slightly different edges are reused (objects between the two edge versions are binned wrongly)", key_extra="eq-approximate")
    if len(atoms) >= 2:
        bad = False
        for i in range(len(atoms)):
            env = {a: True for a in atoms}
            env[atoms[i]] = False
            try:
                if ceval(final, env):
                    bad = True
            except Unknown as err:
                raise AnalysisError(f"C07.R1: cannot evaluate Binning.__eq__ return expression ({err})")
        if bad or not ceval(final, {a: True for a in atoms}):
            res.violation("C07.R1", eq, final, "Binning.__eq__ is true although one of the compared attributes differs", key_extra="eq-not-conjunction")
        else:
            res.ok("C07.R1", res.site(eq, unparse(final)[:60]), "equality is the conjunction of the edge and closed-side comparisons")
    # binning_equal truth table
    be = ci.methods.get("binning_equal")
    build = ci.methods.get("build")
    if build is not None:
        from ..inline import inlined

        build = inlined(prog, build, keep={"build_trees", "binning_equal"})  # private helpers (e.g. an extracted rebuild step) expanded in place
    if build is None:
        raise AnalysisError("C07.R1: BinnedTrees.build vanished")
    if be is not None:
        res.touch(be)
        param = be.param_names()[1]
        # (tag, edges, closed); same length.  D differs from A by less than any tolerance-based comparison resolves
        A, B, C, D = ("B", (0.1, 0.3, 0.9), "right"), ("B", (0.1, 0.7, 0.9), "right"), ("B", (0.1, 0.3, 0.9), "left"), ("B", (0.1, 0.3000000001, 0.9), "right")
        # E continues A by one more bin: equal on the common prefix, so a pairwise comparison that stops at the shorter
        # sequence (zip) cannot tell them apart
        E = ("B", (0.1, 0.3, 0.9, 1.2), "right")
        table = [((None, None), True), ((None, A), False), ((A, None), False), ((A, A), True), ((A, B), False), ((A, C), False), ((C, A), False), ((A, D), False), ((D, A), False), ((A, E), False), ((E, A), False), ((E, E), True)]

        def describe(text, v, env):
            env[text] = v
            if v is not None:
                env[f"{text}.edges"] = v[1]
                env[f"{text}.closed"] = v[2]
                env[f"len({text})"] = len(v[1]) - 1
                env[f"len({text}.edges)"] = len(v[1])
                env[f"{text}.num_bins"] = len(v[1]) - 1

        for (sv, pv), want in table:
            env = {}
            describe("self.binning", sv, env)
            describe(param, pv, env)
            try:
                got = bool(mini_run(be.node, env))
            except Unknown as err:
                raise AnalysisError(f"C07.R1: cannot interpret binning_equal ({err})")
            if got != want:
                res.violation(
                    "C07.R1",
                    be,
                    be.node,
                    f"binning_equal(cached={sv}, requested={pv}) is {got}, must be {want}: cached trees are reused for a different binning (or never reused)",
                    key_extra="binning-equal-truth-table",
                )
                break
        else:
            res.ok("C07.R1", res.site(be), "truth table over {None, A, B} x {None, A, B}: true exactly for (None, None) and equal binnings")
    # build(): every non-rebuilding path passes the predicate (true) and the force test
    res.touch(build)
    cfg, effs = _fs_nodes(prog, build, deep=False)
    rebuild = [nd for nd, e, leaf, _ in effs if leaf == tcont and e.op == "open" and e.mode and e.mode[0] in "wax"]
    if not rebuild:
        raise AnalysisError("C07.R1: BinnedTrees.build does not write the trees")

    def pred_nodes():
        out = []
        for n in cfg.nodes:
            if n.kind not in ("stmt", "test") or n.expr is None:
                continue
            calls = [c for c in n.calls() if (be is not None and be in prog.resolve_call(build, c).funcs()) or (isinstance(c.func, ast.Attribute) and c.func.attr in ("__eq__",))]
            cmp_direct = [x for x in ast.walk(n.expr) if isinstance(x, ast.Compare) and any(isinstance(o, (ast.Eq, ast.NotEq)) for o in x.ops) and "binning" in unparse(x)]
            if calls or cmp_direct:
                out.append((n, calls, cmp_direct))
        return out

    preds = pred_nodes()
    if not preds:
        res.violation("C07.R1", build, build.node, "BinnedTrees.build reuses cached trees without comparing the stored binning with the requested one", key_extra="no-reuse-predicate")
    else:
        # polarity: continuing normally past the node must mean "equal"
        good_nodes = []
        for n, calls, cmps in preds:
            texts = [unparse(c) for c in calls] + [unparse(c) for c in cmps]
            test = n.ast.test if isinstance(n.ast, ast.Assert) else n.expr
            try:
                t_true = bool(ceval(test, {t: True for t in texts}))
                t_false = bool(ceval(test, {t: False for t in texts}))
            except Unknown:
                continue
            if isinstance(n.ast, ast.Assert) and t_true and not t_false:
                good_nodes.append(n)
            elif n.kind == "test":
                good_nodes.append(n)  # branch polarity checked below through reachability
        reach = cfg.reach([cfg.entry], avoid=lambda x: x in rebuild or x in good_nodes)
        if cfg.exit.id in reach and not any(n.kind == "test" for n in good_nodes):
            res.violation("C07.R1", build, preds[0][0].ast, "a path through BinnedTrees.build returns cached trees without the binning comparison having succeeded", key_extra="reuse-bypasses-predicate")
        else:
            res.ok("C07.R1", res.site(build, "reuse path"), "every return that does not rewrite the trees passes `assert binning_equal(...)`")
    # force
    fparam = next((p for p in build.param_names() if "force" in p), None)
    if fparam is None:
        raise AnalysisError("C07.R1: BinnedTrees.build has no force parameter")
    reach = pruned_reach(cfg, cfg.entry, {fparam: True}, avoid=lambda x: x in rebuild, defs=single_def_resolver(build.node))
    # asserts are not branch nodes: treat `assert not force` as blocking when force is true
    blockers = [n for n in cfg.nodes if isinstance(n.ast, ast.Assert) and n.kind == "stmt" and fparam in unparse(n.ast.test)]
    ok_force = False
    for bnode in blockers:
        try:
            if not ceval(bnode.ast.test, {fparam: True}) and ceval(bnode.ast.test, {fparam: False}):
                ok_force = True
        except Unknown:
            pass
    if ok_force:
        reach = cfg.reach([cfg.entry], avoid=lambda x: x in rebuild or x in blockers)
        # remove normal edges out of blockers: only exception edge continues when force=True
        if cfg.exit.id in reach:
            ok_force = False
    if not ok_force and cfg.exit.id in reach:
        res.violation("C07.R1", build, build.node, "force=True can return cached trees without rebuilding them", key_extra="force-ignored")
    else:
        res.ok("C07.R1", res.site(build, "force"), "with force=True every path to a normal return rewrites the trees")


def rule_r2(prog, res) -> None:
    """marker persists what the predicate compares (writer/reader agreement).

    Decided on the symbolic store of BinnedTrees.build (with a binning given) and BinnedTrees.__init__ (helpers,
    private methods and closures looked through): what is written through the handle of the marker file, in which
    order, and what is read back through the handle and handed to Binning(...).  The closed side is folded through
    writer and reader for both sides (finite-domain constant folding)."""
    from .. import symx

    ci, tmark, tcont = _tree_roles(prog)
    build0, init0 = ci.methods["build"], ci.methods["__init__"]
    res.touch(build0)
    res.touch(init0)
    bparam = next((q for q in build0.param_names() if "binning" in q), None)
    if bparam is None:
        raise AnalysisError("C07.R2: BinnedTrees.build has no binning parameter")
    pol = symx.inline_private_helpers(prog, public={"build_trees", "binning_equal"})

    def marker_handle(e) -> bool:
        """e == ENTER(<…>.<marker path>.open(mode=…))"""
        if isinstance(e, ast.Call) and isinstance(e.func, ast.Name) and e.func.id == symx.ENTER and e.args:
            o = e.args[0]
            if isinstance(o, ast.Call) and isinstance(o.func, ast.Attribute) and o.func.attr == "open":
                from ..effects import path_leaf

                return path_leaf(prog, build0, o.func.value) == tmark or (isinstance(o.func.value, ast.Attribute) and "binning" in o.func.value.attr)
        return False

    # ---- writer: events on the marker handle, on the paths that rebuild with a binning given
    wpaths = symx.explore(prog, build0, env={bparam: "SOME", "force": True}, inline=pol, exceptions=False)
    writes = []
    for p in wpaths:
        seq = []
        for ev in p.calls():
            f = ev.expr.func
            if isinstance(f, ast.Attribute) and f.attr == "write" and marker_handle(f.value):
                seq.append(("flag", ev.expr.args[0] if ev.expr.args else None, ev))
            elif isinstance(f, ast.Attribute) and f.attr == "tofile" and ev.expr.args and marker_handle(ev.expr.args[0]):
                seq.append(("edges", f.value, ev))
        if seq:
            writes.append(seq)
    # ---- reader
    rpaths = symx.explore(prog, init0, inline=pol, fork_ifexp=False, exceptions=False)
    reads = []
    restored = []
    for p in rpaths:
        seq = []
        for ev in p.calls():
            f = ev.expr.func
            if isinstance(f, ast.Attribute) and f.attr == "read" and marker_handle(f.value):
                seq.append(("flag", ev.expr, ev))
            elif (dotted(f) or "").split(".")[-1] == "fromfile" and ev.expr.args and marker_handle(ev.expr.args[0]):
                seq.append(("edges", ev.expr, ev))
        if seq:
            reads.append(seq)
        for ev in p.events:
            if ev.kind == "store" and isinstance(ev.expr, ast.Attribute) and ev.expr.attr == "binning" and ev.value is not None:
                restored.append(ev)
            if ev.kind == "call" and any(k.name == "Binning" for k in prog.resolve_call(ev.fi, ev.node).classes()):
                restored.append(ev)
    wk, rk = {tuple(k for k, _, _ in q) for q in writes}, {tuple(k for k, _, _ in q) for q in reads}
    if writes and reads and len(wk) == 1 and len(rk) == 1 and wk != rk and (("flag", "edges") in wk or ("flag", "edges") in rk) and all(set(q) <= {"flag", "edges"} for q in wk | rk):
        # one side still has the (flag byte, edges) layout, the other a different one: the marker is not read back as written
        res.violation("C07.R2", build0 if ("flag", "edges") in rk else init0, (build0 if ("flag", "edges") in rk else init0).node, f"the binning marker is written as {list(next(iter(wk)))} but read as {list(next(iter(rk)))}: the closed-side byte / the edges are taken from the wrong bytes, the reuse predicate compares a binning that was never stored (trees are rebuilt every time, or reused for another binning)", key_extra="marker-layout-mismatch")
        return
    if not writes or not reads or any([k for k, _, _ in seq] != ["flag", "edges"] for seq in writes + reads):
        raise AnalysisError(f"C07.R2: marker writer/reader shape changed (writes={[[k for k, _, _ in q] for q in writes][:2]}, reads={[[k for k, _, _ in q] for q in reads][:2]}); idiom not recognised")
    w_flag, w_edges = writes[0][0][1], writes[0][1][1]
    r_flag = reads[0][0][1]
    # flag byte: to_bytes(1) written, read(1) read
    ok_len = isinstance(w_flag, ast.Call) and isinstance(w_flag.func, ast.Attribute) and w_flag.func.attr == "to_bytes" and w_flag.args and isinstance(w_flag.args[0], ast.Constant) and w_flag.args[0].value == 1
    ok_len = ok_len and r_flag.args and isinstance(r_flag.args[0], ast.Constant) and r_flag.args[0].value == 1
    if not ok_len:
        res.violation("C07.R2", build0, writes[0][0][2].node, "closed-side flag is not written as exactly one byte / not read back as one byte", key_extra="flag-width")
    else:
        res.ok("C07.R2", res.site(build0, "flag byte"), "one flag byte written first and read first")
    # closed side: the reader's decoding expression (in terms of the bytes read), wherever it ends up
    dec_sub = None
    for ev in restored:
        src = ev.value if ev.kind == "store" else ev.expr
        for x in ast.walk(src):
            if isinstance(x, ast.IfExp) and all(isinstance(a_, ast.Attribute) and (dotted(a_) or "").startswith("Closed.") for a_ in (x.body, x.orelse)):
                dec_sub = x
    if dec_sub is None:
        # the decoded side may be selected by an if statement: take it from the path decisions
        for p in symx.explore(prog, init0, inline=pol, exceptions=False):
            for ev in p.events:
                if ev.kind == "call" and any(k.name == "Binning" for k in prog.resolve_call(ev.fi, ev.node).classes()):
                    cl = kwarg(ev.expr, "closed") or (ev.expr.args[1] if len(ev.expr.args) > 1 else None)
                    tests = [(t, pol_) for t, pol_ in p.literals() if any(isinstance(y, ast.Call) and isinstance(y.func, ast.Attribute) and y.func.attr == "read" for y in ast.walk(t))]
                    if isinstance(cl, ast.Attribute) and (dotted(cl) or "").startswith("Closed.") and len(tests) == 1:
                        other = "right" if cl.attr == "left" else "left"
                        t, pol_ = tests[0]
                        body, orelse = (cl, ast.Attribute(value=ast.Name(id="Closed", ctx=ast.Load()), attr=other, ctx=ast.Load())) if pol_ else (ast.Attribute(value=ast.Name(id="Closed", ctx=ast.Load()), attr=other, ctx=ast.Load()), cl)
                        dec_sub = ast.IfExp(test=t, body=body, orelse=orelse)
    roundtrip = None
    if dec_sub is not None and isinstance(w_flag, ast.Call):
        closed_texts = sorted({unparse(x) for x in ast.walk(w_flag) if isinstance(x, ast.Attribute) and x.attr == "closed"})
        read_calls = [x for x in ast.walk(dec_sub.test) if isinstance(x, ast.Call) and isinstance(x.func, ast.Attribute) and x.func.attr == "read"]
        try:
            roundtrip = {}
            for c in ("left", "right"):
                written = ceval(w_flag, {t: c for t in closed_texts})
                roundtrip[c] = ceval(dec_sub, {unparse(rc): written for rc in read_calls})
        except Unknown as err:
            raise AnalysisError(f"C07.R2: cannot evaluate closed-side encoding ({err})")
        if not closed_texts:
            roundtrip = {"left": "?", "right": "?"}
    if roundtrip is None:
        if dec_sub is None and not any(ev.kind == "call" and (kwarg(ev.expr, "closed") is not None or len(ev.expr.args) > 1) for ev in restored):
            pass  # reported below: the restored binning does not receive the stored closed side
        else:
            raise AnalysisError("C07.R2: closed-side encoding/decoding expressions not found (idiom not recognised)")
    elif roundtrip == {"left": "left", "right": "right"}:
        res.ok("C07.R2", res.site(init0, unparse(dec_sub)[:60]), "write(closed) then read gives the identity for closed=left and closed=right")
    else:
        res.violation("C07.R2", init0, reads[0][0][2].node, f"closed side does not survive the marker file: left->{roundtrip['left']}, right->{roundtrip['right']}: trees built for one side are reused for the other", key_extra="closed-roundtrip")
    # edges: writer writes binning.edges, reader hands the read array to Binning(edges, closed=closed)
    if isinstance(w_edges, ast.Attribute) and w_edges.attr == "edges" and symx.mentions(w_edges, lambda y: isinstance(y, ast.Name) and y.id == bparam):
        res.ok("C07.R2", res.site(build0, "edges.tofile"), "edges written after the flag byte")
    else:
        res.violation("C07.R2", build0, writes[0][1][2].node, "the array written to the marker is not the binning's edges", key_extra="edges-not-written")
    okr = False
    for ev in restored:
        if ev.kind != "call":
            continue
        a0 = ev.expr.args[0] if ev.expr.args else kwarg(ev.expr, "edges")
        cl = kwarg(ev.expr, "closed") or (ev.expr.args[1] if len(ev.expr.args) > 1 else None)
        from_file = a0 is not None and symx.mentions(a0, lambda y: isinstance(y, ast.Call) and (dotted(y.func) or "").split(".")[-1] == "fromfile")
        closed_from_file = cl is not None and (symx.mentions(cl, lambda y: isinstance(y, ast.Call) and isinstance(y.func, ast.Attribute) and y.func.attr == "read") or (isinstance(cl, ast.Attribute) and (dotted(cl) or "").startswith("Closed.") and dec_sub is not None and not isinstance(dec_sub.test, ast.Constant)))
        if from_file and closed_from_file:
            okr = True
    if okr:
        res.ok("C07.R2", res.site(init0, "Binning(edges, closed=closed)"), "restored binning is built from the read edges and the decoded side")
    else:
        res.violation("C07.R2", init0, init0.node, "the restored binning is not built from both the stored edges and the stored closed side", key_extra="restore-incomplete")


def rule_r3(prog, res) -> None:
    """every pair count is preceded by a tree build with the role-correct binning, on every path of autocorrelate /
    crosscorrelate and for every combination of optional inputs (symbolic store: loops over literal lists of
    catalogs are unrolled, conditional lists and locals are substituted)"""
    from .c01 import _catalog_args, _measure_paths

    total = 0
    for name in ("autocorrelate", "crosscorrelate"):
        fi = prog.func(name)
        res.touch(fi)
        cfg_param = next((q for q in fi.param_names() if q == "config" or "config" in q), None)
        runs = _measure_paths(prog, fi)
        if not runs:
            raise AnalysisError(f"C07.R3: no returning path of {name}")
        # catalogs that supply the binned trees: first positional catalog of some count
        pos0 = set()
        n_counts = 0
        for env, p in runs:
            for ev in p.calls():
                if ev.callee in ("count_pairs", "count_pairs_optional"):
                    n_counts += 1
                    cats = _catalog_args(ev.expr, env)
                    if cats and cats[0] and not cats[0].startswith("?"):
                        pos0.add(cats[0])
        if n_counts == 0:
            raise AnalysisError(f"C07.R3: no pair counts in {name}")
        reported = set()
        for env, p in runs:
            calls = p.calls()
            for i, ev in enumerate(calls):
                if ev.callee not in ("count_pairs", "count_pairs_optional"):
                    continue
                cats = _catalog_args(ev.expr, env)
                if any(c is None for c in cats):
                    continue
                for var in cats:
                    if var.startswith("?"):
                        raise AnalysisError(f"C07.R3: catalog argument {var[1:]} of {ev.callee} in {name} is not a catalog parameter")
                    key = (id(ev.node), var)
                    want_binned = var in pos0
                    builds = [b for b in calls[:i] if b.callee == "build_trees" and isinstance(b.expr.func, ast.Attribute) and isinstance(b.expr.func.value, ast.Name) and b.expr.func.value.id == var]
                    if not builds:
                        anywhere = any(b.callee == "build_trees" and isinstance(b.expr.func.value, ast.Name) and b.expr.func.value.id == var for _e, q in runs for b in q.calls())
                        if ("bad",) + key not in reported:
                            reported.add(("bad",) + key)
                            total += 1
                            if anywhere:
                                res.violation("C07.R3", fi, ev.node, f"pair count on '{var}' is reachable without a preceding build_trees on it: trees cached by an earlier measurement are used as they are", key_extra=f"{name}-{var}-count-before-build")
                            else:
                                res.violation("C07.R3", fi, ev.node, f"catalog '{var}' is counted but no trees are built for it in this function: stale trees of an earlier measurement (other binning / closed side) are used", key_extra=f"{name}-{var}-no-build")
                        continue
                    bad = None
                    bc = builds[-1].expr  # the build whose trees the count uses
                    a0 = bc.args[0] if bc.args else kwarg(bc, "binning")
                    is_none = a0 is None or (isinstance(a0, ast.Constant) and a0.value is None)
                    from_cfg = a0 is not None and any(isinstance(y, ast.Attribute) and y.attr == "edges" and any(isinstance(z, ast.Name) and z.id == cfg_param for z in ast.walk(y)) for y in ast.walk(a0))
                    if want_binned and not from_cfg:
                        bad = f"'{var}' supplies the redshift-binned trees but is built with binning={unparse(a0)[:40] if a0 is not None else 'None'} (not config.binning.edges)"
                    if not want_binned and not is_none:
                        bad = f"'{var}' supplies the unbinned tree but is built with a redshift binning: bin i of the reference would only be paired with bin i of '{var}'"
                    if (bool(bad),) + key in reported:
                        continue
                    reported.add((bool(bad),) + key)
                    total += 1
                    if bad:
                        res.violation("C07.R3", fi, builds[-1].node, bad, key_extra=f"{name}-{var}-wrong-role")
                    else:
                        res.ok("C07.R3", res.site(fi, f"{unparse(ev.node)[:50]} / {var}"), f"preceded by build_trees({'config edges' if want_binned else 'None'}) on every path where {var} is given")
    if total < 10:
        raise AnalysisError(f"C07.R3: only {total} (count, catalog) obligations found, minimum 10")


def rule_r4(prog, res) -> None:
    """trees are rebuilt from the patch's own data file (no other input): on every path of build_trees
    (helpers looked through) the coordinates of every tree construction derive from patch.load_data()"""
    from .. import symx

    bt = prog.func("build_trees")
    res.touch(bt)
    patch = bt.param_names()[0]
    paths = symx.explore(prog, bt, inline=symx.inline_private_helpers(prog, public={"groupby"}))

    def is_load(n) -> bool:
        return isinstance(n, ast.Call) and isinstance(n.func, ast.Attribute) and n.func.attr == "load_data" and isinstance(n.func.value, ast.Name) and n.func.value.id == patch

    n_ctor = 0
    n_load = 0
    bad = None
    for p in paths:
        n_load += sum(1 for ev in p.calls("load_data"))
        for ev in p.calls():
            if not any(k.name == "AngularTree" for k in prog.resolve_call(ev.fi, ev.node).classes()):
                continue
            n_ctor += 1
            src = ev.expr.args[0] if ev.expr.args else (kwarg(ev.expr, "coords") or ev.expr)
            if not symx.mentions(src, is_load):
                bad = ev
    if n_load == 0:
        raise AnalysisError("C07.R4: build_trees no longer loads the patch data")
    if n_ctor and bad is None:
        res.ok("C07.R4", res.site(bt), f"all {n_ctor} tree constructions (over {len(paths)} paths) take their coordinates from {patch}.load_data()")
    else:
        res.violation("C07.R4", bt, bad.node if bad is not None else bt.node, "a tree is built from something else than the patch's data file", key_extra="tree-input")


def rule_r5(prog, res) -> None:
    """cached trees are read from disk on every use: no in-memory memo of file contents in the catalog modules"""
    from .common import memo_rule

    memo_rule(prog, res, "C07.R5", lambda f: f.module.name.startswith("yaw.catalog"), "trees rebuilt with another binning are not picked up")


def rule_r6(prog, res) -> None:
    """the decision to reuse or rebuild is taken per patch: Catalog.build_trees hands EVERY patch to BinnedTrees.build
    on every returning path (no shortcut that looks at one patch, a flag or a remembered binning), and consumes the
    resulting iterator completely"""
    from .. import symx

    bt = prog.func("Catalog.build_trees")
    res.touch(bt)
    build = prog.func("BinnedTrees.build")
    paths = [p for p in symx.explore(prog, bt, skip_tests=("logger",), env={"on_root()": True}) if p.outcome != "raise"]
    if not paths:
        raise AnalysisError("C07.R6: Catalog.build_trees has no returning path")
    short = []
    for p in paths:
        ok = False
        for ev in p.calls():
            if ev.callee in ("iter_unordered", "map", "imap", "imap_unordered") and ev.expr.args and any(build in prog.resolve_call(ev.fi, ast.Call(func=a, args=[], keywords=[])).funcs() if isinstance(a, (ast.Name, ast.Attribute)) else False for a in ev.expr.args[:1]):
                it = ev.expr.args[1] if len(ev.expr.args) > 1 else kwarg(ev.expr, "iterable")
                if it is not None and symx.mentions(it, lambda y: isinstance(y, ast.Name) and y.id == "self"):
                    ok = True
        if not ok:
            short.append(p)
    if short:
        res.violation(
            "C07.R6",
            bt,
            short[0].node or bt.node,
            f"Catalog.build_trees can return without handing every patch to BinnedTrees.build (when {short[0].cond_text()[:100]}): patches whose cached trees belong to another binning "
            "(an interrupted build, a patch-level build) keep them and are counted with the wrong bins",
            key_extra="build-trees-shortcut",
        )
    else:
        res.ok("C07.R6", res.site(bt), f"all {len(paths)} returning path(s) dispatch BinnedTrees.build over self.values()")


RULES = [
    ("C07.R1", rule_r1, QUICK),
    ("C07.R2", rule_r2, QUICK),
    ("C07.R3", rule_r3, QUICK),
    ("C07.R4", rule_r4, QUICK),
    ("C07.R5", rule_r5, QUICK),
    ("C07.R6", rule_r6, QUICK),
]
