"""Helpers shared by the rule modules: role discovery and path-sensitive reachability."""

from __future__ import annotations

import ast

from ..cfg import CFG, Node, cfg_of
from ..effects import Effect, Summaries, Unknown, classify_call, eval_test, path_leaf, summaries
from ..model import (
    AnalysisError,
    ClassInfo,
    External,
    FuncInfo,
    Program,
    dotted,
    norm_stmt,
    unparse,
    walk_no_nested,
)

QUICK = ("quick", "thorough")
THOROUGH = ("thorough",)


def parents_map(root: ast.AST) -> dict[int, ast.AST]:
    pm: dict[int, ast.AST] = {}
    for p in ast.walk(root):
        for c in ast.iter_child_nodes(p):
            pm[id(c)] = p
    return pm


def enclosing_stmt(fi: FuncInfo, node: ast.AST) -> ast.AST:
    pm = parents_map(fi.node)
    cur = node
    while id(cur) in pm and not isinstance(cur, ast.stmt):
        cur = pm[id(cur)]
    return cur


def calls_in(fi: FuncInfo):
    for x in walk_no_nested(fi.node):
        if isinstance(x, ast.Call):
            yield x


def resolves_to_class(prog: Program, fi: FuncInfo, expr: ast.AST, name: str) -> bool:
    env = prog.func_env(fi)
    for t in env.type_of(expr):
        if t[0] == "type" and t[1].name == name:
            return True
    return (dotted(expr) or "").split(".")[-1] == name


def is_sentinel_put(prog: Program, fi: FuncInfo, call: ast.Call) -> bool:
    effs = classify_call(prog, fi, call)
    if not any(e.kind == "ipc" and e.op == "queue.put" for e in effs):
        return False
    return bool(call.args) and resolves_to_class(prog, fi, call.args[0], "EndOfQueue")


def catalog_marker_leaf(prog: Program) -> str:
    """Role: the file whose absence makes the catalog loader raise and whose content is the
    patch-id list (exists-test and read of the same leaf in one raising function)."""
    S = summaries(prog)
    hits = set()
    for fi in prog.funcs:
        if not fi.module.name.startswith("yaw.catalog"):
            continue
        ex, rd = set(), set()
        for e in S.direct(fi):
            if e.kind != "fs" or e.subject is None:
                continue
            leaf = path_leaf(prog, fi, e.subject, at=e.call)
            if leaf is None:
                continue
            if e.op == "exists":
                ex.add(leaf)
            elif e.op == "read":
                rd.add(leaf)
        both = ex & rd
        if both and any(isinstance(x, ast.Raise) for x in walk_no_nested(fi.node)):
            hits |= both
    if len(hits) > 1:
        # … and which a context manager writes when it is left (the writer's finalisation)
        written = set()
        for ci in prog.classes:
            ex = ci.methods.get("__exit__")
            if ex is None:
                continue
            for e, f in S.may(ex):
                if e.kind == "fs" and e.op in ("write", "rename", "replace") and e.subject is not None:
                    leaf = path_leaf(prog, f, e.subject, at=e.call)
                    if leaf is not None:
                        written.add(leaf)
        hits &= written
    if len(hits) != 1:
        raise AnalysisError(f"cannot identify the catalog marker file by role (candidates: {sorted(hits)})")
    return hits.pop()


def exc_env(fi: FuncInfo, present: bool) -> dict:
    """Partial environment for the exception parameters of an ``__exit__`` method."""
    a = fi.node.args
    pos = [x.arg for x in [*a.posonlyargs, *a.args]][1:]
    val = "SOME" if present else None
    env = {p: val for p in pos[:3]}
    if a.vararg:
        n = max(0, 3 - len(pos))
        env[a.vararg.arg] = tuple([val] * n)
    return env


def pruned_reach(cfg: CFG, start: Node, env: dict, *, avoid=None, defs=None) -> set[int]:
    """Forward reachability where branch nodes contradicting `env` are not entered."""

    def blocked(n: Node) -> bool:
        if avoid is not None and avoid(n):
            return True
        if n.kind == "branch":
            try:
                v = eval_test(n.test.expr, env, defs)
            except Unknown:
                return False
            return bool(v) != bool(n.polarity)
        return False

    return cfg.reach([start], avoid=blocked)


def raise_dominated_by(cfg: CFG, branch: Node) -> list[Node]:
    out = []
    for n in cfg.nodes:
        if n.kind == "stmt" and isinstance(n.ast, ast.Raise) and cfg.dominates(branch, n):
            out.append(n)
    return out


def branch_nodes_of(cfg: CFG, test: Node) -> dict[bool, Node]:
    out = {}
    for j, lab in cfg.succ[test.id]:
        n = cfg.nodes[j]
        if n.kind == "branch":
            out[bool(n.polarity)] = n
    return out


def fmt_path(path) -> str:
    return " -> ".join(f"{'[' + lab + '] ' if lab else ''}{n.text()[:50]}" for n, lab in path)


def kwarg(call: ast.Call, name: str) -> ast.AST | None:
    """the argument a call binds to the parameter `name`: the keyword as written, or — for calls to functions of the
    package, which the program model spells positionally (canonical form) — the positional argument at that parameter's
    place (recorded on the node when the program was linked; copies of the node keep the record)"""
    for k in call.keywords:
        if k.arg == name:
            return k.value
    pos = getattr(call, "_kwpos", None)
    if pos and name in pos and pos[name] < len(call.args) and not any(isinstance(a, ast.Starred) for a in call.args[: pos[name] + 1]):
        return call.args[pos[name]]
    return None


def named_args(call: ast.Call) -> list:
    """[(parameter name, argument)] of a call: the keywords as written plus — for calls to functions of the package —
    the positional arguments under the callee's parameter names (see kwarg)"""
    pos = getattr(call, "_kwpos", None) or {}
    out = [(n_, call.args[i]) for n_, i in sorted(pos.items(), key=lambda kv: kv[1]) if i < len(call.args) and not isinstance(call.args[i], ast.Starred)]
    out += [(k.arg, k.value) for k in call.keywords if k.arg]
    return out


def argval(prog, fi, call: ast.Call, name: str) -> ast.AST | None:
    """the expression a call binds to the parameter `name` of its callee: the keyword when it is written, otherwise
    the positional argument at the parameter's place in the signature of the (precisely resolved) callee(s) of the
    package — the program model passes every argument that can be positional by position (canonical form)"""
    k = kwarg(call, name)
    if k is not None:
        return k
    try:
        tg = prog.resolve_call(fi, call)
    except Exception:  # noqa: BLE001
        return None
    idx = set()
    for t in list(tg.funcs()) + [prog.find_method(c, "__init__") for c in tg.classes()]:
        if t is None:
            continue
        a = t.node.args
        pos = [p_.arg for p_ in [*a.posonlyargs, *a.args]]
        bound = (t.cls is not None and not t.is_staticmethod) and not (
            isinstance(call.func, ast.Attribute) and isinstance(call.func.value, ast.Name) and call.func.value.id[:1].isupper() and not t.is_classmethod and bool(prog.find_classes(call.func.value.id))
        )
        if bound:
            pos = pos[1:]
        idx.add(pos.index(name) if name in pos else None)
    if len(idx) == 1:
        i = next(iter(idx))
        if i is not None and i < len(call.args) and not any(isinstance(x, ast.Starred) for x in call.args[: i + 1]):
            return call.args[i]
    return None


def mentions_name(expr: ast.AST, names) -> bool:
    names = set(names)
    return any(isinstance(x, ast.Name) and x.id in names for x in ast.walk(expr))


def attr_names(expr: ast.AST) -> set[str]:
    return {x.attr for x in ast.walk(expr) if isinstance(x, ast.Attribute)}


def shared_rule(res, fn, from_prop: str, from_rule: str, to_rule: str) -> None:
    """run a rule that belongs to another property and re-label its obligations / findings"""
    sub = type(res)(from_prop, res.prog, res.tier)
    fn(res.prog, sub)
    for o in sub.obligations:
        o.rule = to_rule
        res.obligations.append(o)
        res.count(to_rule)
    for f in sub.findings:
        f.prop, f.rule = res.prop, to_rule
        f.key = f.key.replace(from_rule, to_rule, 1)
        res.findings.append(f)
    res.functions_analysed |= sub.functions_analysed


def single_def_resolver(fn: ast.AST):
    """defs-callback for eval_test: the single `name = expr` definition of a local."""
    from ..dataflow import all_def_values

    def defs(name: str):
        vals = all_def_values(fn, name)
        if len(vals) == 1 and vals[0] is not None:
            return vals[0]
        return None

    return defs


def eq_is_conjunction(prog: Program, res, rule: str, ci: ClassInfo, eq) -> None:
    """equality of two objects means equality of EVERY compared component: the boolean expression an `__eq__` returns is
    false as soon as one of its component comparisons is false (decided by folding the returned expression, on the
    symbolic paths, with each comparison in turn set to false and all others to true)"""
    from .. import symx as _sx

    try:
        paths = _sx.explore(prog, eq, inline=_sx.inline_private_helpers(prog), max_paths=300)
    except _sx.TooManyPaths:
        return
    if eq.name == "__eq__":
        # for an operand of the same type the comparison is carried out: NotImplemented / a constant False is only
        # returned on paths that have established that the other operand is of another type
        for p in paths:
            if p.outcome != "return" or p.value is None:
                continue
            v = _sx.strip_wrappers(p.value)
            gives_up = (isinstance(v, ast.Name) and v.id == "NotImplemented") or (isinstance(v, ast.Constant) and v.value is False)
            if not gives_up:
                continue
            lits = p.literals()
            same_type = [pol for t, pol in lits if isinstance(t, ast.Call) and isinstance(t.func, ast.Name) and t.func.id == "isinstance"]
            if same_type and all(same_type) and len(same_type) == len(lits):  # (nothing else was decided on this path)
                res.violation(rule, eq, p.node or eq.node, f"{ci.name}.__eq__ gives up ({unparse(v)}) for an operand that IS of the same type: two equal containers never compare equal (Python falls back to identity), compatibility checks built on `==` reject everything", key_extra="eq-gives-up-same-type")
                return
    if eq.name == "__eq__":
        # the loop form (`for part: if a.part != b.part: return False` … `return True`): a constant True is returned
        # only on paths on which no component was found different, a constant False only where one was; and both occur
        me_, ot_ = (eq.param_names() + ["", ""])[:2]

        def differs(t, pol) -> bool | None:
            """does the decision (t, pol) say that components of the two operands differ?  None: another kind of test"""
            for x in ast.walk(t):
                if isinstance(x, ast.Compare) and len(x.ops) == 1 and isinstance(x.ops[0], (ast.Eq, ast.NotEq)):
                    names = {y.id for y in ast.walk(x) if isinstance(y, ast.Name)}
                    if me_ in names and ot_ in names:
                        return (isinstance(x.ops[0], ast.NotEq)) == pol
            return None

        consts = [(p, _sx.strip_wrappers(p.value).value) for p in paths if p.outcome == "return" and p.value is not None and isinstance(_sx.strip_wrappers(p.value), ast.Constant) and isinstance(_sx.strip_wrappers(p.value).value, bool)]
        computed = [p for p in paths if p.outcome == "return" and p.value is not None and isinstance(_sx.strip_wrappers(p.value), (ast.Compare, ast.BoolOp, ast.Call))]  # e.g. `return self.x == other.x` as the last step
        decided = [(p, val_, [d for d in (differs(t, pol) for t, pol in p.literals()) if d is not None]) for p, val_ in consts]

        def only_components(p) -> bool:
            """every decision of the path, apart from the same-type guard, is a comparison of components"""
            rest = [(t, pol) for t, pol in p.literals() if not (isinstance(t, ast.Call) and isinstance(t.func, ast.Name) and t.func.id == "isinstance" and len(t.args) == 2 and isinstance(t.args[0], ast.Name) and t.args[0].id == ot_)]
            return bool(rest) and all(differs(t, pol) is not None for t, pol in rest)

        if any(ds for _p, _v, ds in decided):
            for p, val_, ds in decided:
                if val_ is True and any(ds):
                    res.violation(rule, eq, p.node or eq.node, f"{ci.name}.__eq__ returns True on a path on which components of the operands were found different [{p.cond_text()[:80]}]", key_extra="eq-true-when-different")
                    return
                if val_ is False and ds and not any(ds) and only_components(p):
                    res.violation(rule, eq, p.node or eq.node, f"{ci.name}.__eq__ returns False because components of the operands are EQUAL [{p.cond_text()[:80]}]: an object does not compare equal to an identical copy of itself", key_extra="eq-false-when-equal")
                    return
            if not any(v_ is True for _p, v_, _d in decided) and not computed:
                res.violation(rule, eq, eq.node, f"{ci.name}.__eq__ never returns True for two objects of the same type", key_extra="eq-never-true")
                return
            if not any(v_ is False and any(ds) for _p, v_, ds in decided) and not computed:
                res.violation(rule, eq, eq.node, f"{ci.name}.__eq__ never returns False for components that differ: all objects of the type compare equal", key_extra="eq-never-false")
                return
            res.ok(rule, res.site(eq, "component loop"), "True only when no component differs, False when one does", nontrivial=False)
        elif consts and not any(isinstance(_sx.strip_wrappers(p.value), (ast.BoolOp, ast.Compare, ast.Call)) for p in paths if p.outcome == "return" and p.value is not None):
            # only constants are returned and no comparison of components decides between them
            if any(v_ is True for _p, v_ in consts) and ci.name != "":
                res.violation(rule, eq, eq.node, f"{ci.name}.__eq__ returns constants without comparing any component of the two operands: all objects of the type compare equal", key_extra="eq-compares-nothing")
                return
    if eq.name == "__eq__" and len(eq.param_names()) >= 2:
        # like is compared with like: a comparison whose operands are one-sided (one reads the object, the other the other
        # operand) reads the SAME component on both sides
        me_, ot_ = eq.param_names()[:2]

        def comp_of(e) -> tuple[set, set]:
            a_, b_ = set(), set()
            for y in ast.walk(e):
                if isinstance(y, ast.Attribute) and isinstance(y.value, ast.Name) and y.value.id in (me_, ot_):
                    (a_ if y.value.id == me_ else b_).add(y.attr)
            return a_, b_

        def one_sided(e) -> bool:
            ns = {y.id for y in ast.walk(e) if isinstance(y, ast.Name)} & {me_, ot_}
            return len(ns) <= 1

        seen_txt = set()
        for p in paths:
            exprs_ = [t for t, _pol in p.literals()] + ([p.value] if p.outcome == "return" and p.value is not None else [])
            for e in exprs_:
                for x in ast.walk(e):
                    # structural equality is exact: a comparison within a tolerance makes `==` — and every compatibility
                    # check, cache key and membership test built on it — accept operands that differ
                    if isinstance(x, ast.Call) and (dotted(x.func) or "").split(".")[-1] in ("allclose", "isclose", "approx", "assert_allclose") and not one_sided(x) and "tolerant" not in seen_txt:
                        seen_txt.add("tolerant")
                        res.violation(rule, eq, p.node or eq.node, f"{ci.name}.__eq__ compares within a tolerance (`{unparse(x)[:60]}`): objects that differ compare equal, so operands with (slightly) different binning / data pass the compatibility checks and are combined, and equality is no longer transitive", key_extra="eq-tolerant")
                    ops = [x.left, *x.comparators] if isinstance(x, ast.Compare) and all(isinstance(o, (ast.Eq, ast.NotEq)) for o in x.ops) else list(x.args) if isinstance(x, ast.Call) and len(x.args) == 2 and not x.keywords and (dotted(x.func) or "").split(".")[-1] in ("array_equal", "allclose", "array_equiv", "isclose", "eq") else None
                    if not ops or len(ops) != 2 or not all(one_sided(o) for o in ops):
                        continue
                    (a0, b0), (a1, b1) = comp_of(ops[0]), comp_of(ops[1])
                    mine, theirs = a0 | a1, b0 | b1
                    if mine and theirs and len(mine) == 1 and len(theirs) == 1 and mine != theirs and unparse(x) not in seen_txt:
                        seen_txt.add(unparse(x))
                        res.violation(rule, eq, p.node or eq.node, f"{ci.name}.__eq__ compares `{me_}.{sorted(mine)[0]}` with `{ot_}.{sorted(theirs)[0]}` (`{unparse(x)[:70]}`): two identical objects whose components differ from each other compare unequal, and objects that differ in that component can compare equal", key_extra=f"eq-compares-unlike-{sorted(mine)[0]}")
    for p in paths:
        if p.outcome != "return" or p.value is None:
            continue
        v = _sx.strip_wrappers(p.value)
        if not isinstance(v, (ast.BoolOp, ast.UnaryOp)):
            continue
        atoms: list = []

        def collect(e):
            if isinstance(e, ast.BoolOp):
                for x in e.values:
                    collect(x)
            elif isinstance(e, ast.UnaryOp) and isinstance(e.op, ast.Not):
                collect(e.operand)
            else:
                if not any(e is a for a in atoms):
                    atoms.append(e)

        collect(v)
        comps = [a for a in atoms if len({y.id for y in ast.walk(a) if isinstance(y, ast.Name)} & set(eq.param_names()[:2])) == 2]
        if eq.name == "__eq__":
            # reflexive: each component comparison asks for equality (`a.x == b.x`, array_equal(a.x, b.x)), positively
            pm_ = parents_map(v)
            for a in comps:
                negs = 0
                cur = pm_.get(id(a))
                while cur is not None:
                    if isinstance(cur, ast.UnaryOp) and isinstance(cur.op, ast.Not):
                        negs += 1
                    cur = pm_.get(id(cur))
                unequal = isinstance(a, ast.Compare) and len(a.ops) == 1 and isinstance(a.ops[0], (ast.NotEq, ast.IsNot))
                if isinstance(a, ast.Call) and isinstance(a.func, ast.Name) and a.func.id in ("any", "all"):
                    # any(x != y for …) says "some component differs", all(x == y for …) "all agree"; other mixes: no verdict
                    inner_ops = {type(o) for y in ast.walk(a) if isinstance(y, ast.Compare) for o in y.ops}
                    if a.func.id == "any" and inner_ops == {ast.NotEq}:
                        unequal = True
                    elif a.func.id == "all" and inner_ops == {ast.Eq}:
                        unequal = False
                    else:
                        continue
                if unequal != (negs % 2 == 1):
                    res.violation(rule, eq, p.node or eq.node, f"{ci.name}.__eq__ demands that `{unparse(a)[:60]}` {'is false' if negs % 2 else 'holds'}: an object does not compare equal to an identical copy of itself (equality is not reflexive), every check built on equality rejects operands that agree", key_extra="eq-not-reflexive")
                    return
        if len(comps) < 2 or len(atoms) > 12:
            continue

        def val(e, env):
            if isinstance(e, ast.BoolOp):
                vs = [val(x, env) for x in e.values]
                return all(vs) if isinstance(e.op, ast.And) else any(vs)
            if isinstance(e, ast.UnaryOp) and isinstance(e.op, ast.Not):
                return not val(e.operand, env)
            return env[id(e)]

        weak = [a for a in comps if val(v, {id(x): (x is not a) for x in atoms})]
        if weak:
            res.violation(
                rule,
                eq,
                p.node or eq.node,
                f"{ci.name}.{eq.name} is true although `{unparse(weak[0])[:60]}` is false (the partial verdicts are not joined by `and`): containers that differ there pass as equal / compatible, and everything built on that verdict (operand checks, cache reuse) lets them through",
                key_extra="eq-not-conjunction",
            )
            return
        res.ok(rule, res.site(eq, "conjunction"), f"false as soon as one of the {len(comps)} component comparisons is false", nontrivial=False)


def eq_covers_slots(prog: Program, res, rule: str, ci: ClassInfo, *, exceptions: dict | None = None) -> None:
    """generic rule: __eq__ of a slotted class reads every slot (directly, through a loop over
    __slots__/to_dict, or through a property that reads it)."""
    exceptions = exceptions or {}
    eq = ci.methods.get("__eq__")
    if eq is None:
        eq = prog.find_method(ci, "__eq__")
    if eq is None:
        raise AnalysisError(f"{rule}: {ci.name} has no __eq__")
    eq_is_conjunction(prog, res, rule, ci, eq)
    slots = [s for s in (ci.slots or []) if not s.startswith("__")]
    if not slots:
        slots = [a for a in ci.class_ann if not a.startswith("_")]
    if not slots:
        raise AnalysisError(f"{rule}: cannot determine the data attributes of {ci.name}")
    res.touch(eq)
    read = set()
    generic = False
    # attribute reads that only exist on the symbolic store: getattr(self, name) over a literal / module-level table of
    # names, in __eq__ itself or in a private (generator) method it delegates to
    try:
        from .. import symx as _sx

        scope_ = [eq] + [m_ for x in walk_no_nested(eq.node) if isinstance(x, ast.Attribute) and isinstance(x.value, ast.Name) and x.value.id == "self" for m_ in [prog.find_method(ci, x.attr)] if m_ is not None and not m_.is_property and m_ is not eq]
        for f_ in scope_:
            if not any(isinstance(y, ast.Call) and isinstance(y.func, ast.Name) and y.func.id == "getattr" for y in ast.walk(f_.node)):
                continue
            for p_ in _sx.explore(prog, f_, inline=_sx.inline_private_helpers(prog), max_paths=300):
                exprs_ = [ev.expr for ev in p_.events if ev.expr is not None] + [t for t, _pl, _n in p_.conds] + ([p_.value] if p_.value is not None else [])
                for e_ in exprs_:
                    for y in ast.walk(e_):
                        if isinstance(y, ast.Attribute) and isinstance(y.value, ast.Name):
                            read.add(y.attr)
                            m3 = prog.find_method(ci, y.attr)
                            if m3 is not None and m3.is_property:
                                for z in walk_no_nested(m3.node):
                                    if isinstance(z, ast.Attribute) and isinstance(z.value, ast.Name) and z.value.id == "self":
                                        read.add(z.attr)
    except Exception:  # noqa: BLE001 - the syntactic collection below still applies
        pass
    for x in walk_no_nested(eq.node):
        if isinstance(x, ast.Attribute):
            read.add(x.attr)
            m = prog.find_method(ci, x.attr)
            if m is not None and (m.is_property or isinstance(getattr(x, "ctx", None), ast.Load)):
                for y in walk_no_nested(m.node):
                    if isinstance(y, ast.Attribute) and isinstance(y.value, ast.Name) and y.value.id == "self":
                        read.add(y.attr)
                        m2 = prog.find_method(ci, y.attr)
                        if m2 is not None:
                            for z in walk_no_nested(m2.node):
                                if isinstance(z, ast.Attribute) and isinstance(z.value, ast.Name) and z.value.id == "self":
                                    read.add(z.attr)
                    if isinstance(y, ast.Attribute) and y.attr == "__slots__":
                        generic = True
        if isinstance(x, ast.Attribute) and x.attr == "__slots__":
            generic = True
    # a comparison that iterates over an instance-dependent key set (e.g. the counts that are present) must take the
    # keys of BOTH operands: iterating over self's keys alone ignores what only the other operand has
    from ..dataflow import single_def_value

    params = eq.param_names()
    if len(params) >= 2:
        me, other = params[0], params[1]
        domains = [x.iter for x in walk_no_nested(eq.node) if isinstance(x, (ast.For, ast.comprehension))]
        for dmn in domains:
            d2 = dmn
            if isinstance(d2, ast.Name):
                d2 = single_def_value(eq.node, d2.id) or d2
            inst_calls = [y for y in ast.walk(d2) if isinstance(y, ast.Call) and isinstance(y.func, ast.Attribute) and any(isinstance(z, ast.Name) and z.id == me for z in ast.walk(y.func.value))]
            mentions_other = any(isinstance(z, ast.Name) and z.id == other for z in ast.walk(d2))
            if inst_calls and not mentions_other:
                res.violation(
                    rule,
                    eq,
                    dmn,
                    f"{ci.name}.__eq__ iterates over {unparse(dmn)[:50]}, the keys of one operand only: a component that only the other operand has is never compared (a == b although b holds more; a == b but b != a)",
                    key_extra="eq-asymmetric-domain",
                )
                return
    # a slot that is only ever read through a proper part of it (x.edges[:-1], directly or through a property such
    # as `left`) is compared in part only: the parts that are read must add up to the whole sequence
    cover: dict[str, set] = {}

    def scan(root: ast.AST, depth: int = 0) -> None:
        pm = parents_map(root)
        for x in ast.walk(root):
            if not isinstance(x, ast.Attribute):
                continue
            if x.attr in slots and isinstance(x.value, ast.Name):
                par = pm.get(id(x))
                got = {"first", "middle", "last"}
                if isinstance(par, ast.Subscript) and par.value is x:
                    sl = par.slice
                    if isinstance(sl, ast.Slice) and sl.step is None:
                        lo = sl.lower.value if isinstance(sl.lower, ast.Constant) else (None if sl.lower is None else "?")
                        hi = sl.upper
                        hi = (-hi.operand.value if isinstance(hi, ast.UnaryOp) and isinstance(hi.op, ast.USub) and isinstance(hi.operand, ast.Constant) else hi.value if isinstance(hi, ast.Constant) else None if hi is None else "?")
                        if lo != "?" and hi != "?":
                            got = {"middle"}
                            if lo in (None, 0):
                                got.add("first")
                            if hi is None:
                                got.add("last")
                    elif isinstance(sl, ast.Constant) and sl.value == 0:
                        got = {"first"}
                    elif isinstance(sl, ast.UnaryOp) and isinstance(sl.op, ast.USub) and isinstance(sl.operand, ast.Constant) and sl.operand.value == 1:
                        got = {"last"}
                cover.setdefault(x.attr, set()).update(got)
            elif depth < 2:
                m_ = prog.find_method(ci, x.attr)
                if m_ is not None and m_.is_property:
                    scan(m_.node, depth + 1)

    scan(eq.node)
    partial = [s_ for s_ in slots if s_ in cover and cover[s_] != {"first", "middle", "last"} and s_ not in exceptions]
    if partial and not generic:
        lost = sorted({"first", "middle", "last"} - cover[partial[0]])
        res.violation(
            rule,
            eq,
            eq.node,
            f"{ci.name}.__eq__ reads '{partial[0]}' only in part (its {' and '.join(lost)} element(s) are never compared): objects that differ only there compare equal",
            key_extra=f"eq-partial-{partial[0]}",
        )
        return
    # one belief per method: if one array comparison of this __eq__ treats NaN as equal (undefined bins / samples are
    # stored as NaN), every array comparison in it must — otherwise an object with an undefined entry is not equal to
    # itself, to its copy, or to the same selection taken in another order
    aeq = [x for x in walk_no_nested(eq.node) if isinstance(x, ast.Call) and (dotted(x.func) or "").split(".")[-1] in ("array_equal", "allclose", "array_equiv")]
    nan_safe = [x for x in aeq if isinstance(kwarg(x, "equal_nan"), ast.Constant) and kwarg(x, "equal_nan").value is True]
    if nan_safe and len(nan_safe) != len(aeq):
        odd = next(x for x in aeq if x not in nan_safe)
        res.violation(
            rule,
            eq,
            odd,
            f"{ci.name}.__eq__ compares `{unparse(odd.args[0])[:30]}` without equal_nan=True while the other array comparison(s) of the method use it: a container with an undefined (NaN) entry there "
            "does not compare equal to itself or to its copy",
            key_extra=f"eq-nan-inconsistent-{ci.name}",
        )
        return
    missing = [s for s in slots if s not in read and s not in exceptions and not generic]
    if missing:
        res.violation(rule, eq, eq.node, f"{ci.name}.__eq__ does not compare attribute(s) {missing}: objects differing only there compare equal", key_extra=f"eq-misses-{'-'.join(missing)}")
    else:
        res.ok(rule, res.site(eq), f"__eq__ reads all of {slots}" + (f" (frozen exceptions: {sorted(exceptions)})" if exceptions else ""))


# ----------------------------------------------------------------------------- memoisation


MEMO_DECORATORS = ("lru_cache", "cache", "cached_property", "memoize", "memoise")


def _module_containers(mod) -> set:
    """names of module-level mutable containers ({} / dict() / [] / set() / defaultdict(...) / OrderedDict())"""
    out = set()
    for st in mod.tree.body if hasattr(mod, "tree") else []:
        tgt = val = None
        if isinstance(st, ast.Assign) and len(st.targets) == 1 and isinstance(st.targets[0], ast.Name):
            tgt, val = st.targets[0].id, st.value
        elif isinstance(st, ast.AnnAssign) and isinstance(st.target, ast.Name) and st.value is not None:
            tgt, val = st.target.id, st.value
        if tgt is None:
            continue
        if isinstance(val, (ast.Dict, ast.List, ast.Set)) and not getattr(val, "keys", getattr(val, "elts", [])):
            out.add(tgt)
        elif isinstance(val, ast.Call) and (dotted(val.func) or "").split(".")[-1] in ("dict", "list", "set", "defaultdict", "OrderedDict", "WeakValueDictionary") and not val.args:
            out.add(tgt)
    return out


def memo_rule(prog: Program, res, rule: str, scope, what: str) -> None:
    """results are recomputed from their inputs: no memoisation whose key cannot stand for everything the result
    depends on.  (a) a function under functools.lru_cache / cache / cached_property must not (transitively) read
    files: the file can be rewritten while the process lives; (b) a hand-rolled cache in a module-level container
    must be keyed by the inputs themselves, not by a projection (attribute, getattr, repr, str, name) of them."""
    from ..effects import summaries

    S = summaries(prog)
    n = 0
    for fi in prog.funcs:
        if not scope(fi):
            continue
        decos = [d.split(".")[-1] for d in fi.decorators()]
        memo = [d for d in decos if d in MEMO_DECORATORS]
        if memo:
            n += 1
            res.touch(fi)
            reads = [(e, f) for e, f in S.may(fi) if e.kind == "fs" and (e.op == "read" or (e.op == "open" and not (e.mode and e.mode[0] in "wax")))]
            if reads:
                e, f = reads[0]
                res.violation(
                    rule,
                    fi,
                    fi.node,
                    f"{fi.qualname} is memoised with @{memo[0]} but reads a file ({norm_stmt(e.call)[:50]}): {what} — the file can be rebuilt while the process lives, the memo then serves the old content "
                    "(its key names the path, not the content)",
                    key_extra=f"memo-file-{fi.qualname}",
                )
            else:
                res.ok(rule, res.site(fi, f"@{memo[0]}"), "memoised function reads no file", nontrivial=False)
        # (b) hand-rolled: G[key] = value  together with  … in G / G.get / G[key] read, G a module-level container
        containers = _module_containers(fi.module)
        if not containers:
            continue
        stores = [x for x in walk_no_nested(fi.node) if isinstance(x, ast.Assign) and isinstance(x.targets[0], ast.Subscript) and isinstance(x.targets[0].value, ast.Name) and x.targets[0].value.id in containers]
        stores += [x for x in walk_no_nested(fi.node) if isinstance(x, ast.Call) and isinstance(x.func, ast.Attribute) and x.func.attr in ("setdefault", "add", "append") and isinstance(x.func.value, ast.Name) and x.func.value.id in containers]
        if not stores:
            continue
        locals_ = {x.id for x in ast.walk(fi.node) if isinstance(x, ast.Name) and isinstance(x.ctx, ast.Store)}
        for st in stores:
            g = st.targets[0].value.id if isinstance(st, ast.Assign) else st.func.value.id
            if g in locals_:
                continue  # shadowed by a local of the same name
            n += 1
            res.touch(fi)
            key = st.targets[0].slice if isinstance(st, ast.Assign) else (st.args[0] if st.args else None)
            from ..dataflow import single_def_value

            kexpr = key
            if isinstance(kexpr, ast.Name):
                kexpr = single_def_value(fi.node, kexpr.id) or kexpr
            elems = list(kexpr.elts) if isinstance(kexpr, ast.Tuple) else [kexpr]
            partial = []
            for el in elems:
                for x in ast.walk(el):
                    if isinstance(x, ast.Call) and (dotted(x.func) or "") in ("getattr", "repr", "str", "id", "type") and x.args and not isinstance(x.args[0], ast.Constant):
                        partial.append(unparse(x)[:50])
                    elif isinstance(x, ast.Attribute) and isinstance(x.ctx, ast.Load) and x.attr in ("name", "__name__", "shape", "size") :
                        partial.append(unparse(x)[:50])
                    elif isinstance(x, ast.Attribute) and isinstance(x.ctx, ast.Load) and any(w in x.attr for w in ("path", "dir", "file", "id")):
                        # where an object lives (a cache directory, a file name): the content there can be replaced
                        partial.append(unparse(x)[:50])
            if partial:
                res.violation(
                    rule,
                    fi,
                    st,
                    f"{fi.qualname} memoises its result in the module-level container `{g}` under a key built from {partial}: a projection of an input, not the input — {what}; "
                    "two different inputs with the same projection (e.g. two cosmologies of the same name) share one cached result",
                    key_extra=f"memo-key-{fi.qualname}-{g}",
                )
            else:
                raise AnalysisError(f"{rule}: hand-rolled memoisation of {fi.short} in `{g}`: completeness of the key {unparse(kexpr)[:60]} cannot be decided")
    if n == 0:
        res.ok(rule, "no memoisation", "no functools cache decorator and no module-level result cache in scope: every result is recomputed from its inputs", nontrivial=False)


def expand_locals(fn, expr: ast.AST, keep: set, depth: int = 3) -> ast.AST:
    """copy of expr with every local that has exactly one definition replaced by that definition
    (so that `num_bins = len(binning)` … `i <= num_bins` reads `i <= len(binning)`)"""
    import copy

    from ..dataflow import single_def_value

    class T(ast.NodeTransformer):
        def __init__(self, d):
            self.d = d

        def visit_Name(self, n):
            if isinstance(n.ctx, ast.Load) and n.id not in keep and self.d > 0:
                v = single_def_value(fn, n.id)
                if v is not None and not isinstance(v, (ast.Lambda, ast.Dict, ast.List, ast.ListComp, ast.DictComp, ast.GeneratorExp)):
                    return T(self.d - 1).visit(copy.deepcopy(v))
            return n

    return T(depth).visit(copy.deepcopy(expr))


def const_value(prog, fi, e):
    """the constant an expression names: a literal, a module-level constant (also one imported from another module of
    the package), a class-level constant read as `self.X` / `cls.X` / `ClassName.X`; None when it is none of these"""
    from ..model import ClassInfo

    if isinstance(e, ast.Constant):
        return e

    def class_const(ci, name):
        for c in [k for k in prog.mro(ci) if isinstance(k, ClassInfo)]:
            for st in c.node.body:
                tgt = val = None
                if isinstance(st, ast.Assign) and len(st.targets) == 1:
                    tgt, val = st.targets[0], st.value
                elif isinstance(st, ast.AnnAssign) and st.value is not None:
                    tgt, val = st.target, st.value
                if isinstance(tgt, ast.Name) and tgt.id == name:
                    return val if isinstance(val, ast.Constant) else None
        return None

    if isinstance(e, ast.Name):
        try:
            vals = [g.value for g in prog.lookup(fi.module, e.id, fi.variant) if getattr(g, "kind", "") == "global" and isinstance(g.value, ast.Constant)]
        except Exception:  # noqa: BLE001
            vals = []
        if len(vals) == 1 and e.id not in fi.param_names():
            return vals[0]
        from ..effects import module_const_env

        try:
            env = module_const_env(prog, fi.module)
        except Exception:  # noqa: BLE001
            env = {}
        if e.id in env and isinstance(env[e.id], (int, str, float, bytes)) and e.id not in fi.param_names():
            return ast.Constant(value=env[e.id])
        return None
    if isinstance(e, ast.Attribute) and isinstance(e.value, ast.Name):
        if e.value.id in ("self", "cls"):
            ci = fi.cls or (fi.parent.cls if fi.parent is not None else None)
            origin = getattr(fi, "origin", None)
            if ci is None and origin is not None:
                ci = origin.cls
            return class_const(ci, e.attr) if ci is not None else None
        cis = [c for c in prog.find_classes(e.value.id) if fi.variant is None or getattr(c, "variant", None) in (None, fi.variant)] if e.value.id[:1].isupper() else []
        vals = [class_const(c, e.attr) for c in cis]
        if vals and all(v is not None for v in vals) and len({v.value for v in vals}) == 1:
            return vals[0]
    return None


def expanded_keywords(prog, fi, call: ast.Call):
    """(name -> value, complete): the keywords of a call including those of its `**<dict>` expansions when the dictionary
    can be read — a dict literal / dict(...) call bound once to a local, or returned by a (precisely resolved) helper of
    the package as its only return value; values of a helper's dictionary are written in the helper's parameters, which
    are replaced by the arguments of the call.  complete is False when some expansion could not be read"""
    import copy

    out = {k.arg: k.value for k in call.keywords if k.arg}
    complete = True
    for k in call.keywords:
        if k.arg is not None:
            continue
        e = k.value
        seen = 0
        while isinstance(e, ast.Name) and seen < 3:
            from ..dataflow import all_def_values

            vals = [v for v in all_def_values(fi.node, e.id) if v is not None]
            if len(vals) != 1:
                break
            e = vals[0]
            seen += 1
        d = None
        if isinstance(e, ast.Dict) and all(isinstance(q, ast.Constant) for q in e.keys):
            d = {q.value: v for q, v in zip(e.keys, e.values)}
        elif isinstance(e, ast.Call) and isinstance(e.func, ast.Name) and e.func.id == "dict" and not e.args and all(q.arg for q in e.keywords):
            d = {q.arg: q.value for q in e.keywords}
        elif isinstance(e, ast.Call):
            try:
                tg = prog.resolve_call(fi, e)
                hs = list(tg.funcs()) if tg.precise else []
            except Exception:  # noqa: BLE001
                hs = []
            if len(hs) == 1:
                h = hs[0]
                rets = [y.value for y in walk_no_nested(h.node) if isinstance(y, ast.Return) and y.value is not None]
                if len(rets) == 1:
                    r = rets[0]
                    hd = None
                    if isinstance(r, ast.Dict) and all(isinstance(q, ast.Constant) for q in r.keys):
                        hd = {q.value: v for q, v in zip(r.keys, r.values)}
                    elif isinstance(r, ast.Call) and isinstance(r.func, ast.Name) and r.func.id == "dict" and not r.args and all(q.arg for q in r.keywords):
                        hd = {q.arg: q.value for q in r.keywords}
                    if hd is not None:
                        bind = dict(named_args(e))
                        a_ = h.node.args
                        for q_, dflt in zip(a_.args[len(a_.args) - len(a_.defaults):], a_.defaults):
                            bind.setdefault(q_.arg, dflt)
                        for q_, dflt in zip(a_.kwonlyargs, a_.kw_defaults):
                            if dflt is not None:
                                bind.setdefault(q_.arg, dflt)

                        class _S(ast.NodeTransformer):
                            def visit_Name(self, n_):
                                return copy.deepcopy(bind[n_.id]) if isinstance(n_.ctx, ast.Load) and n_.id in bind else n_

                        d = {kk: _S().visit(copy.deepcopy(vv)) for kk, vv in hd.items()}
        if d is None:
            complete = False
        else:
            for kk, vv in d.items():
                out.setdefault(kk, vv)
    return out, complete
