"""A3: statement-level control-flow graph with exception edges.

Node kinds
  entry, exit (normal return), raise (exceptional exit),
  stmt      simple statement (Assign, Expr, AugAssign, Return, Raise, Assert, …)
  test      test expression of If / While
  branch    synthetic node on each out-edge of a test: (test node, polarity)
  for       loop header: evaluates the iterable / asks for the next item
  with_enter / with_exit   one per with-item; with_exit carries exc=True|False
  dispatch  entry of the except-clauses of a try
  except    one except clause
Edge labels: n (normal), t / f (branch), e (exception), loop (back edge), exh (iterator exhausted)

`finally` bodies and `with` exits are cloned per way of leaving (normal, exception, jump),
so paths are not merged.  A node "may raise" if it contains a call, a subscript, a raise,
an assert or an import; `for` headers and with-enter/exit always may raise.
"""

from __future__ import annotations

import ast
from dataclasses import dataclass, field

from .model import AnalysisError, calls_in_order, norm_stmt, walk_no_nested


@dataclass(eq=False)
class Node:
    id: int
    kind: str
    ast: ast.AST | None = None  # owning statement (or withitem / handler)
    expr: ast.AST | None = None  # the part evaluated at this node
    exc: bool = False  # with_exit: leaving because of an exception
    polarity: bool | None = None  # branch nodes
    test: "Node | None" = None  # branch nodes: the test node
    clone: str = ""  # which clone of a finally / with_exit this is

    @property
    def lineno(self) -> int:
        a = self.expr if self.expr is not None and hasattr(self.expr, "lineno") else self.ast
        return getattr(a, "lineno", 0) or 0

    def calls(self) -> list[ast.Call]:
        if self.expr is None:
            return []
        return calls_in_order(self.expr)

    def text(self) -> str:
        if self.kind in ("entry", "exit", "raise", "dispatch"):
            return f"<{self.kind}>"
        if self.kind == "branch":
            return f"<{'then' if self.polarity else 'else'} of {self.test.text()}>"
        if self.kind == "with_enter":
            return "enter " + norm_stmt(self.ast)
        if self.kind == "with_exit":
            return ("exit[exc] " if self.exc else "exit ") + norm_stmt(self.ast)
        if self.kind == "except":
            return "except " + (norm_stmt(self.ast.type) if self.ast.type is not None else "")
        if self.kind == "test":
            return "test " + norm_stmt(self.expr)
        return norm_stmt(self.ast)

    def __repr__(self) -> str:
        return f"<N{self.id} {self.kind} L{self.lineno} {self.text()[:50]}>"


class _Frame:
    def __init__(self, kind: str, **kw) -> None:
        self.kind = kind  # try | with | loop
        self.__dict__.update(kw)
        self.exc_entry: Node | None = None


class CFG:
    def __init__(self, func: ast.FunctionDef | ast.AsyncFunctionDef | ast.Module) -> None:
        self.func = func
        self.nodes: list[Node] = []
        self.succ: dict[int, list[tuple[int, str]]] = {}
        self.pred: dict[int, list[tuple[int, str]]] = {}
        self.entry = self._new("entry")
        self.exit = self._new("exit")
        self.raise_exit = self._new("raise")
        self._frames: list[_Frame] = []
        self._by_ast: dict[int, list[Node]] = {}
        body = func.body
        out = self._body(body, [(self.entry, "n")])
        self._connect(out, self.exit)
        self._idom: dict[int, int] | None = None

    # ------------------------------------------------------------- construction
    def _new(self, kind: str, ast_node=None, expr=None, **kw) -> Node:
        n = Node(len(self.nodes), kind, ast_node, expr, **kw)
        self.nodes.append(n)
        self.succ[n.id] = []
        self.pred[n.id] = []
        if ast_node is not None:
            self._by_ast.setdefault(id(ast_node), []).append(n)
        return n

    def _edge(self, a: Node, b: Node, label: str) -> None:
        if (b.id, label) not in self.succ[a.id]:
            self.succ[a.id].append((b.id, label))
            self.pred[b.id].append((a.id, label))

    def _connect(self, pending, node: Node) -> None:
        for p, label in pending:
            self._edge(p, node, label)

    @staticmethod
    def may_raise(expr: ast.AST | None) -> bool:
        if expr is None:
            return False
        for n in walk_no_nested(expr):
            if isinstance(n, (ast.Call, ast.Subscript, ast.Raise, ast.Assert, ast.Import, ast.ImportFrom)):
                return True
        return False

    def _exc_target(self, depth: int | None = None) -> Node:
        """Node that receives an exception raised inside frames[:depth]."""
        if depth is None:
            depth = len(self._frames)
        for i in range(depth - 1, -1, -1):
            fr = self._frames[i]
            if fr.kind == "with":
                if fr.exc_entry is None:
                    n = self._new("with_exit", fr.item, fr.item.context_expr, exc=True)
                    fr.exc_entry = n
                    self._edge(n, self._exc_target(i), "e")
                return fr.exc_entry
            if fr.kind == "try":
                if fr.phase == "body" and fr.stmt.handlers:
                    if fr.dispatch is None:
                        fr.dispatch = self._new("dispatch", fr.stmt)
                    return fr.dispatch
                if fr.stmt.finalbody:
                    if fr.exc_entry is None:
                        fr.exc_entry = self._finally_clone(fr, i, "exc", ("e", None))
                    return fr.exc_entry
        return self.raise_exit

    def _finally_clone(self, fr: _Frame, depth: int, tag: str, cont) -> Node:
        """Build a copy of fr's finalbody in the context of frames[:depth]; its
        fall-through continues with `cont` = (label, node) or ("e", None) = re-raise."""
        saved = self._frames
        self._frames = saved[:depth]
        try:
            head = self._new("stmt", None, None, clone=f"finally[{tag}]")
            out = self._body(fr.stmt.finalbody, [(head, "n")])
            if cont[1] is None:
                tgt = self._exc_target()
                self._connect([(p, "e" if lab == "n" else lab) for p, lab in out], tgt)
            else:
                self._connect(out, cont[1])
        finally:
            self._frames = saved
        return head

    def _jump(self, src_pending, target_depth: int, target: Node | None, kind: str) -> list:
        """Leave all frames above target_depth (running with-exits / finally bodies),
        then go to target (or return the pending list when target is None)."""
        pending = src_pending
        for i in range(len(self._frames) - 1, target_depth - 1, -1):
            fr = self._frames[i]
            if fr.kind == "with":
                n = self._new("with_exit", fr.item, fr.item.context_expr, exc=False, clone=kind)
                self._connect(pending, n)
                self._edge(n, self._exc_target(i), "e")
                pending = [(n, "n")]
            elif fr.kind == "try" and fr.stmt.finalbody:
                saved = self._frames
                self._frames = saved[:i]
                try:
                    head = self._new("stmt", None, None, clone=f"finally[{kind}]")
                    self._connect(pending, head)
                    pending = self._body(fr.stmt.finalbody, [(head, "n")])
                finally:
                    self._frames = saved
        if target is not None:
            self._connect(pending, target)
            return []
        return pending

    def _simple(self, st: ast.stmt, pending, kind="stmt", expr=None) -> Node:
        n = self._new(kind, st, st if expr is None else expr)
        self._connect(pending, n)
        if self.may_raise(n.expr):
            self._edge(n, self._exc_target(), "e")
        return n

    def _body(self, stmts, pending) -> list:
        for st in stmts:
            if not pending:
                # unreachable code: still build it (dangling) so that nodes exist
                pending = []
            pending = self._stmt(st, pending)
        return pending

    def _branch(self, test: Node, polarity: bool) -> Node:
        b = self._new("branch", test.ast, None, polarity=polarity, test=test)
        self._edge(test, b, "t" if polarity else "f")
        return b

    @staticmethod
    def _const_truth(expr: ast.AST):
        if isinstance(expr, ast.Constant):
            return bool(expr.value)
        return None

    def _stmt(self, st: ast.stmt, pending) -> list:
        if isinstance(st, ast.If):
            t = self._simple(st, pending, "test", st.test)
            bt, bf = self._branch(t, True), self._branch(t, False)
            out = self._body(st.body, [(bt, "n")])
            out += self._body(st.orelse, [(bf, "n")])
            return out
        if isinstance(st, ast.While):
            t = self._simple(st, pending, "test", st.test)
            truth = self._const_truth(st.test)
            fr = _Frame("loop", stmt=st, cont=t, breaks=[])
            self._frames.append(fr)
            bt = self._branch(t, True)
            out = self._body(st.body, [(bt, "n")])
            self._frames.pop()
            self._connect([(p, "loop") for p, _ in out], t)
            res = list(fr.breaks)
            if truth is not True:
                bf = self._branch(t, False)
                res += self._body(st.orelse, [(bf, "n")])
            return res
        if isinstance(st, (ast.For, ast.AsyncFor)):
            h = self._new("for", st, st.iter)
            self._connect(pending, h)
            self._edge(h, self._exc_target(), "e")
            fr = _Frame("loop", stmt=st, cont=h, breaks=[])
            self._frames.append(fr)
            out = self._body(st.body, [(h, "n")])
            self._frames.pop()
            self._connect([(p, "loop") for p, _ in out], h)
            res = self._body(st.orelse, [(h, "exh")])
            return res + list(fr.breaks)
        if isinstance(st, (ast.With, ast.AsyncWith)):
            return self._with(st, list(st.items), pending)
        if isinstance(st, ast.Try) or st.__class__.__name__ == "TryStar":
            return self._try(st, pending)
        if isinstance(st, ast.Return):
            n = self._simple(st, pending, "stmt", st)
            self._jump([(n, "n")], 0, self.exit, "return")
            return []
        if isinstance(st, ast.Raise):
            n = self._new("stmt", st, st)
            self._connect(pending, n)
            self._edge(n, self._exc_target(), "e")
            return []
        if isinstance(st, (ast.Break, ast.Continue)):
            n = self._simple(st, pending)
            for i in range(len(self._frames) - 1, -1, -1):
                if self._frames[i].kind == "loop":
                    fr = self._frames[i]
                    if isinstance(st, ast.Break):
                        fr.breaks += self._jump([(n, "n")], i + 1, None, "break")
                    else:
                        self._jump([(n, "loop")], i + 1, fr.cont, "continue")
                    return []
            raise AnalysisError("break/continue outside loop")
        if st.__class__.__name__ == "Match":
            raise AnalysisError("match statement not supported by the CFG builder")
        if isinstance(st, (ast.FunctionDef, ast.AsyncFunctionDef, ast.ClassDef)):
            n = self._new("stmt", st, None)
            self._connect(pending, n)
            return [(n, "n")]
        n = self._simple(st, pending)
        return [(n, "n")]

    def _with(self, st, items, pending) -> list:
        item = items[0]
        enter = self._new("with_enter", item, item.context_expr)
        self._by_ast.setdefault(id(st), []).append(enter)
        self._connect(pending, enter)
        self._edge(enter, self._exc_target(), "e")
        fr = _Frame("with", stmt=st, item=item)
        self._frames.append(fr)
        if len(items) > 1:
            out = self._with(st, items[1:], [(enter, "n")])
        else:
            out = self._body(st.body, [(enter, "n")])
        self._frames.pop()
        ex = self._new("with_exit", item, item.context_expr, exc=False)
        self._connect(out, ex)
        self._edge(ex, self._exc_target(), "e")
        return [(ex, "n")] if out else []

    @staticmethod
    def _catch_all(h: ast.ExceptHandler) -> bool:
        if h.type is None:
            return True
        names = []
        t = h.type
        elts = t.elts if isinstance(t, ast.Tuple) else [t]
        for e in elts:
            names.append(ast.unparse(e).split(".")[-1])
        return any(n in ("Exception", "BaseException") for n in names)

    def _try(self, st, pending) -> list:
        fr = _Frame("try", stmt=st, phase="body", dispatch=None)
        depth = len(self._frames)
        self._frames.append(fr)
        out = self._body(st.body, pending)
        fr.phase = "else"
        out = self._body(st.orelse, out)
        fr.phase = "handler"
        if fr.dispatch is not None:
            for h in st.handlers:
                hn = self._new("except", h, h.type)
                self._edge(fr.dispatch, hn, "e")
                out += self._body(h.body, [(hn, "n")])
            if not any(self._catch_all(h) for h in st.handlers):
                self._edge(fr.dispatch, self._exc_target(), "e")
        else:
            # handlers unreachable from the body (body cannot raise): build them dangling
            for h in st.handlers:
                hn = self._new("except", h, h.type)
                self._body(h.body, [(hn, "n")])
        self._frames.pop()
        if st.finalbody:
            saved = self._frames
            self._frames = saved[:depth]
            try:
                head = self._new("stmt", None, None, clone="finally[normal]")
                self._connect(out, head)
                out = self._body(st.finalbody, [(head, "n")]) if out else []
            finally:
                self._frames = saved
        return out

    # ------------------------------------------------------------- queries
    def nodes_of(self, ast_node: ast.AST) -> list[Node]:
        return list(self._by_ast.get(id(ast_node), []))

    def node_containing(self, sub: ast.AST) -> list[Node]:
        """All CFG nodes whose evaluated expression contains `sub` (clones included)."""
        out = []
        for n in self.nodes:
            if n.expr is None:
                continue
            if n.expr is sub or any(x is sub for x in walk_no_nested(n.expr)):
                out.append(n)
        return out

    def reach(self, starts, *, avoid=None, labels=None, backward=False) -> set[int]:
        """Node ids reachable from `starts` (the starts themselves are not tested
        against `avoid`); nodes with avoid(node) true are not entered."""
        adj = self.pred if backward else self.succ
        seen: set[int] = set()
        stack = [s.id if isinstance(s, Node) else s for s in starts]
        first = set(stack)
        while stack:
            i = stack.pop()
            if i in seen:
                continue
            seen.add(i)
            for j, lab in adj[i]:
                if labels is not None and lab not in labels:
                    continue
                if j in seen:
                    continue
                if avoid is not None and avoid(self.nodes[j]):
                    continue
                stack.append(j)
        return seen

    def find_path(self, src: Node, dst_pred, *, avoid=None, skip_first_edge_labels=None) -> list[tuple[Node, str]] | None:
        """Shortest path from src to a node satisfying dst_pred that enters no `avoid`
        node; returns [(node, label-of-edge-into-node), …] or None."""
        from collections import deque

        prev: dict[int, tuple[int, str]] = {}
        dq = deque([src.id])
        seen = {src.id}
        while dq:
            i = dq.popleft()
            for j, lab in self.succ[i]:
                if j in seen:
                    continue
                if i == src.id and skip_first_edge_labels and lab in skip_first_edge_labels:
                    continue
                nj = self.nodes[j]
                if dst_pred(nj):
                    path = [(nj, lab)]
                    k = i
                    while k != src.id:
                        pk, pl = prev[k]
                        path.append((self.nodes[k], pl))
                        k = pk
                    path.append((src, ""))
                    return list(reversed(path))
                if avoid is not None and avoid(nj):
                    continue
                seen.add(j)
                prev[j] = (i, lab)
                dq.append(j)
        return None

    def dominators(self) -> dict[int, int]:
        """Immediate dominators (Cooper–Harvey–Kennedy) from the entry node."""
        if self._idom is not None:
            return self._idom
        order: list[int] = []
        seen: set[int] = set()

        def dfs(start: int) -> None:
            stack = [(start, iter(self.succ[start]))]
            seen.add(start)
            while stack:
                i, it = stack[-1]
                for j, _ in it:
                    if j not in seen:
                        seen.add(j)
                        stack.append((j, iter(self.succ[j])))
                        break
                else:
                    order.append(i)
                    stack.pop()

        dfs(self.entry.id)
        rpo = list(reversed(order))
        index = {n: k for k, n in enumerate(rpo)}
        idom: dict[int, int] = {self.entry.id: self.entry.id}

        def intersect(a: int, b: int) -> int:
            while a != b:
                while index[a] > index[b]:
                    a = idom[a]
                while index[b] > index[a]:
                    b = idom[b]
            return a

        changed = True
        while changed:
            changed = False
            for n in rpo[1:]:
                preds = [p for p, _ in self.pred[n] if p in idom]
                if not preds:
                    continue
                new = preds[0]
                for p in preds[1:]:
                    new = intersect(p, new)
                if idom.get(n) != new:
                    idom[n] = new
                    changed = True
        self._idom = idom
        return idom

    def dominates(self, a: Node, b: Node) -> bool:
        idom = self.dominators()
        if b.id not in idom:
            return False  # b unreachable
        x = b.id
        while True:
            if x == a.id:
                return True
            if idom[x] == x:
                return False
            x = idom[x]

    def dom_chain(self, n: Node) -> list[Node]:
        idom = self.dominators()
        out = []
        if n.id not in idom:
            return out
        x = n.id
        while idom[x] != x:
            x = idom[x]
            out.append(self.nodes[x])
        return out

    def guards(self, n: Node) -> list[tuple[ast.AST, bool]]:
        """(test expression, polarity) of every branch node dominating n."""
        return [(d.test.expr, d.polarity) for d in self.dom_chain(n) if d.kind == "branch"]

    def reachable_nodes(self) -> set[int]:
        return self.reach([self.entry])


_CFG_CACHE: dict = {}


def cfg_of(func_node) -> CFG:
    hit = _CFG_CACHE.get(id(func_node))
    if hit is not None and hit[0] is func_node:
        return hit[1]
    c = CFG(func_node)
    _CFG_CACHE[id(func_node)] = (func_node, c)  # the node is kept alive with its entry: an address is never reused for another function
    return c
