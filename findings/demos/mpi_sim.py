"""Thread-based stand-in for mpi4py.MPI (one thread per rank, pickled point-to-point messages with
per-sender FIFO, wildcard receives with adversarial-but-legal matching, synchronous or eager sends,
Barrier/bcast/Bcast/gather/Split, exact deadlock detection).

Written by the independent sub-agent that produced seeded/C06-*; reused here for the demos of findings
#21 and #27, because mpi4py is not installed in this sandbox.  Import this module BEFORE yaw: it injects
itself as `mpi4py`, so that yaw selects its real MPI code paths.  Development aid only, never used by a
registered check."""
from __future__ import annotations

import os
import pickle
import sys
import threading
import types

os.environ.setdefault("YAW_NUM_THREADS", "1")


# --------------------------------------------------------------------------
# minimal thread based MPI simulation
# --------------------------------------------------------------------------
class Deadlock(RuntimeError):
    pass


class World:
    """Shared state of the simulated MPI world."""

    def __init__(self, size, sync=True, wildcard="lowest"):
        self.size = size
        self.sync = sync  # synchronous (rendezvous) or eager sends
        self.wildcard = wildcard  # which sender an ANY_SOURCE receive prefers
        self.cond = threading.Condition()
        self.msgs = []  # pending point-to-point messages
        self.coll = {}  # collective slots
        self.waiting = {}  # rank -> (predicate, description)
        self.finished = set()
        self.deadlock = None

    def reset(self, size=None, sync=None, wildcard=None):
        self.__init__(
            size or self.size,
            self.sync if sync is None else sync,
            wildcard or self.wildcard,
        )

    # all methods below must be called with self.cond held
    def others_quiescent(self, rank):
        """True if every other rank is finished or blocked and cannot move."""
        for other in range(self.size):
            if other == rank or other in self.finished:
                continue
            if other not in self.waiting:
                return False
            if self.waiting[other][0]():
                return False
        return True

    def check_deadlock(self):
        if self.deadlock is None and self.waiting:
            if len(self.waiting) + len(self.finished) == self.size:
                if not any(full() for _, full, _ in self.waiting.values()):
                    self.deadlock = {r: d for r, (_, _, d) in self.waiting.items()}
                    self.cond.notify_all()

    def wait_for(self, rank, base, desc, full=None):
        full = full or base
        self.waiting[rank] = (base, full, desc)
        self.cond.notify_all()
        try:
            while True:
                if self.deadlock is not None:
                    raise Deadlock(f"rank {rank} blocked forever in {desc}")
                if full():
                    return
                self.check_deadlock()
                if self.deadlock is None:
                    self.cond.wait(0.5)
        finally:
            del self.waiting[rank]
            self.cond.notify_all()

    def finish(self, rank):
        with self.cond:
            self.finished.add(rank)
            self.check_deadlock()
            self.cond.notify_all()


WORLD = World(4)
_local = threading.local()


def my_world_rank():
    return getattr(_local, "rank", 0)


class SimComm:
    def __init__(self, comm_id, members):
        self.comm_id = comm_id
        self.members = list(members)  # comm rank -> world rank

    # -- bookkeeping ------------------------------------------------------
    def _members(self):
        return self.members

    def Get_size(self):
        return len(self._members())

    def Get_rank(self):
        return self._members().index(my_world_rank())

    def _next_seq(self):
        seqs = _local.__dict__.setdefault("seqs", {})
        seqs[self.comm_id] = seqs.get(self.comm_id, 0) + 1
        return seqs[self.comm_id]

    def Free(self):
        pass

    # -- point to point ---------------------------------------------------
    def send(self, obj, dest, tag=0):
        me = self.Get_rank()
        msg = dict(
            comm=self.comm_id,
            src=me,
            dst=dest,
            tag=tag,
            data=pickle.dumps(obj),
            done=False,
        )
        w = WORLD
        with w.cond:
            w.msgs.append(msg)
            w.cond.notify_all()
            if w.sync:
                w.wait_for(
                    my_world_rank(),
                    lambda: msg["done"],
                    f"send(dest={self.members[dest]}, tag={tag})",
                )

    def recv(self, source=0, tag=0):
        me = self.Get_rank()
        w = WORLD
        wrank = my_world_rank()

        def candidates():
            first = {}
            for msg in w.msgs:
                if msg["comm"] != self.comm_id or msg["dst"] != me:
                    continue
                if msg["tag"] != tag:
                    continue
                if source != MPI.ANY_SOURCE and msg["src"] != source:
                    continue
                first.setdefault(msg["src"], msg)  # FIFO per sender
            return first

        with w.cond:
            if source == MPI.ANY_SOURCE:
                # adversarial but legal matching: wait until nobody else can
                # move, then take the message of the preferred sender
                w.wait_for(
                    wrank,
                    lambda: False,  # never counts as "about to move" for others
                    f"recv(source=ANY_SOURCE, tag={tag})",
                    full=lambda: bool(candidates()) and w.others_quiescent(wrank),
                )
                cands = candidates()
                pick = min(cands) if w.wildcard == "lowest" else max(cands)
                msg = cands[pick]
            else:
                w.wait_for(
                    wrank,
                    lambda: bool(candidates()),
                    f"recv(source={self.members[source]}, tag={tag})",
                )
                msg = candidates()[source]
            w.msgs.remove(msg)
            msg["done"] = True
            w.cond.notify_all()
        return pickle.loads(msg["data"])

    # -- collectives ------------------------------------------------------
    def _slot(self, kind):
        key = (self.comm_id, kind, self._next_seq())
        return WORLD.coll.setdefault(key, {})

    def Barrier(self):
        w = WORLD
        with w.cond:
            slot = self._slot("barrier")
            slot[self.Get_rank()] = True
            w.cond.notify_all()
            size = self.Get_size()
            w.wait_for(my_world_rank(), lambda: len(slot) == size, "Barrier()")

    def bcast(self, obj, root=0):
        w = WORLD
        with w.cond:
            slot = self._slot("bcast")
            if self.Get_rank() == root:
                slot["value"] = pickle.dumps(obj)
                w.cond.notify_all()
                return obj
            w.wait_for(my_world_rank(), lambda: "value" in slot, "bcast()")
            return pickle.loads(slot["value"])

    def Bcast(self, buf, root=0):
        value = self.bcast(buf, root=root)
        if self.Get_rank() != root:
            buf[...] = value
        return buf

    def gather(self, obj, root=0):
        w = WORLD
        with w.cond:
            slot = self._slot("gather")
            slot[self.Get_rank()] = obj
            w.cond.notify_all()
            if self.Get_rank() != root:
                return None
            size = self.Get_size()
            w.wait_for(my_world_rank(), lambda: len(slot) == size, "gather()")
            return [slot[i] for i in range(size)]

    def Split(self, color, key=0):
        w = WORLD
        with w.cond:
            seq = self._next_seq()
            slot = WORLD.coll.setdefault((self.comm_id, "split", seq), {})
            slot[my_world_rank()] = (color, key)
            w.cond.notify_all()
            size = self.Get_size()
            w.wait_for(my_world_rank(), lambda: len(slot) == size, "Split()")
            if color == MPI.UNDEFINED:
                return None
            group = sorted(
                (k, wr) for wr, (c, k) in slot.items() if c == color
            )
            return SimComm((self.comm_id, seq, color), [wr for _, wr in group])


class WorldComm(SimComm):
    def __init__(self):
        self.comm_id = "world"

    @property
    def members(self):
        return list(range(WORLD.size))

    def _members(self):
        return self.members


MPI = types.ModuleType("mpi4py.MPI")
MPI.ANY_SOURCE = -1
MPI.UNDEFINED = -32766
MPI.COMM_WORLD = WorldComm()
MPI.Comm = SimComm
MPI.Get_processor_name = lambda: "node0"
mpi4py = types.ModuleType("mpi4py")
mpi4py.MPI = MPI
sys.modules["mpi4py"] = mpi4py
sys.modules["mpi4py.MPI"] = MPI


def mpirun(size, target, *, sync=True, wildcard="lowest", timeout=60.0):
    """Run ``target()`` on ``size`` simulated ranks, return (results, errors,
    deadlock-info)."""
    WORLD.reset(size=size, sync=sync, wildcard=wildcard)
    results, errors = {}, {}

    def run(rank):
        _local.rank = rank
        _local.seqs = {}
        try:
            results[rank] = target()
        except BaseException as err:  # noqa
            errors[rank] = err
        finally:
            WORLD.finish(rank)

    threads = [threading.Thread(target=run, args=(r,), daemon=True) for r in range(size)]
    for t in threads:
        t.start()
    for t in threads:
        t.join(timeout)
    hung = [r for r, t in enumerate(threads) if t.is_alive()]
    if hung:
        errors["timeout"] = TimeoutError(f"ranks {hung} did not terminate")
    return results, errors, WORLD.deadlock




