"""Reproducers for findings #17, #22, #26 (C08).  Development aid, not a registered check.
usage: /venv/bin/python findings/demos/c08_crash.py <trees|results|zero_marker>
exit 0 = behaves as the property demands, 1 = defect reproduced"""
import os, sys, tempfile, shutil, subprocess, textwrap
import numpy as np, pandas as pd
os.environ["YAW_NUM_THREADS"] = "1"
case = sys.argv[1]
tmp = tempfile.mkdtemp(prefix="yawdemo_")
rc = 0
from yaw import Catalog, AngularCoordinates
from yaw.binning import Binning
from yaw.catalog.trees import BinnedTrees

def make_cat(path):
    rng = np.random.default_rng(1)
    n = 400
    df = pd.DataFrame(dict(ra=rng.uniform(0, 20, n), dec=rng.uniform(-10, 10, n), z=rng.uniform(0.1, 1.0, n)))
    centers = AngularCoordinates(np.deg2rad([[5.0, 0.0], [15.0, 0.0]]))
    return Catalog.from_dataframe(path, df, ra_name="ra", dec_name="dec", redshift_name="z", patch_centers=centers)

try:
    if case == "trees":
        cat = make_cat(os.path.join(tmp, "cat"))
        A = np.array([0.1, 0.5, 1.0]); B = np.array([0.1, 0.2, 0.3, 1.0])
        cat.build_trees(A, closed="right")
        ref = [t.num_records for t in BinnedTrees(cat[0]).trees]
        # crash while rebuilding with binning B: die right after the trees were dumped
        code = textwrap.dedent(f"""
            import os, pickle, numpy as np
            os.environ["YAW_NUM_THREADS"] = "1"
            import yaw.catalog.trees as T
            from yaw import Catalog
            real = pickle.dump
            def dying_dump(obj, f):
                real(obj, f); f.flush(); os._exit(9)
            T.pickle.dump = dying_dump
            cat = Catalog({os.path.join(tmp, 'cat')!r})
            cat.build_trees(np.array({B.tolist()!r}), closed="right")
        """)
        p = subprocess.run([sys.executable, "-c", code], capture_output=True, text=True)
        print("crashed child exit code:", p.returncode)
        cat = Catalog(os.path.join(tmp, "cat"))
        try:
            cat.build_trees(A, closed="right")   # same binning as before the crash: may reuse
            got = [t.num_records for t in BinnedTrees(cat[0]).trees]
            print("bins expected", len(ref), ref, "got", len(got), got)
            if got != ref:
                print("DEFECT: stale marker validates trees of another binning"); rc = 1
        except Exception as e:
            print("next use fails with", type(e).__name__, "(acceptable)")
    elif case == "results":
        from yaw.correlation.corrdata import CorrData
        b = Binning([0.1, 0.5, 1.0])
        old = CorrData(b, np.array([1.0, 2.0]), np.array([[1.0, 2.0], [1.1, 2.1], [0.9, 1.9]]))
        new = CorrData(b, np.array([10.0, 20.0]), np.array([[10.0, 20.0], [10.1, 20.1], [9.9, 19.9]]))
        prefix = os.path.join(tmp, "res")
        old.to_files(prefix)
        code = textwrap.dedent(f"""
            import os, numpy as np
            os.environ["YAW_NUM_THREADS"] = "1"
            import yaw.correlation.corrdata as C
            from yaw.binning import Binning
            real = C.write_samples
            def dying(*a, **k):
                os._exit(9)
            C.write_samples = dying
            b = Binning([0.1, 0.5, 1.0])
            new = C.CorrData(b, np.array([10.0, 20.0]), np.array([[10.0, 20.0], [10.1, 20.1], [9.9, 19.9]]))
            new.to_files({prefix!r})
        """)
        p = subprocess.run([sys.executable, "-c", code], capture_output=True, text=True)
        print("crashed child exit code:", p.returncode)
        try:
            got = CorrData.from_files(prefix)
            if got == old or got == new:
                print("loaded a consistent product")
            else:
                print("DEFECT: loaded data", got.data, "with samples of another product", got.samples[0]); rc = 1
        except Exception as e:
            print("next use fails with", type(e).__name__, "(acceptable)")
    elif case == "zero_marker":
        # die at the earliest point at which the marker path could exist: the child kills itself
        # inside numpy's tofile (file created, nothing written) via a patched builtins.open / io.open
        code = textwrap.dedent(f"""
            import os, io, builtins, numpy as np, pandas as pd
            os.environ["YAW_NUM_THREADS"] = "1"
            from yaw import Catalog, AngularCoordinates
            import numpy.lib._npyio_impl  # noqa
            real_open = io.open
            def dying_open(file, *a, **k):
                f = real_open(file, *a, **k)
                if "patch_ids" in str(file) and ("w" in (a[0] if a else k.get("mode", "r"))):
                    os._exit(9)   # file exists with zero bytes
                return f
            io.open = builtins.open = dying_open
            rng = np.random.default_rng(1); n = 400
            df = pd.DataFrame(dict(ra=rng.uniform(0, 20, n), dec=rng.uniform(-10, 10, n)))
            centers = AngularCoordinates(np.deg2rad([[5.0, 0.0], [15.0, 0.0]]))
            Catalog.from_dataframe({os.path.join(tmp, 'cat')!r}, df, ra_name="ra", dec_name="dec", patch_centers=centers)
        """)
        p = subprocess.run([sys.executable, "-c", code], capture_output=True, text=True)
        print("child exit code:", p.returncode, "| files:", sorted(os.listdir(os.path.join(tmp, "cat"))))
        if p.returncode != 9:
            # numpy opens the file in C: emulate the crash state instead (create the file tofile() would create)
            target = [f for f in ("patch_ids.bin.tmp", "patch_ids.bin")]
            import inspect, yaw.catalog.catalog as CC
            src = inspect.getsource(CC.CatalogWriter.finalize)
            name = "patch_ids.bin.tmp" if ".tmp" in src else "patch_ids.bin"
            shutil.rmtree(os.path.join(tmp, "cat"), ignore_errors=True)
            cat = make_cat(os.path.join(tmp, "cat"))
            os.remove(os.path.join(tmp, "cat", "patch_ids.bin"))
            open(os.path.join(tmp, "cat", name), "w").close()
            print("emulated crash state: zero-byte", name)
        try:
            c2 = Catalog(os.path.join(tmp, "cat"))
            print("DEFECT: crash state opens as catalog with", len(c2), "patches"); rc = 1
        except Exception as e:
            print("next use fails with", type(e).__name__, "(acceptable)")
finally:
    shutil.rmtree(tmp, ignore_errors=True)
sys.exit(rc)
