"""C11 — every persisted product reads back equal to what was written (table agreement).

R1 HDF5 name tables: names read (non-legacy arm) are written.
R2 fixed tables are zipped only with fixed-size sequences of the same length.
R3 dict protocols: keys produced by to_dict / modify are accepted by what from_dict hands them to;
   keys popped without default are produced.
R4 text files: row arity written = arity read; closed-side header character round trip.
R5 rank-stable loading of text files (ndmin=2 when the result is unpacked / sliced by axis).
"""

from __future__ import annotations

import ast

from ..dataflow import all_def_values
from ..effects import Unknown, ceval
from ..model import AnalysisError, ClassInfo, FuncInfo, dotted, norm_stmt, unparse, walk_no_nested
from .common import QUICK, calls_in, kwarg, parents_map, named_args

EXPLANATION = (
    "Static writer/reader agreement on /repo's current source. For every to_hdf/from_hdf pair the dataset and group "
    "names read on the current-format arm must be among the names written; every zip of a fixed name table must have a "
    "fixed-size partner of equal length; the to_dict -> from_dict and modify -> from_dict protocols are interpreted "
    "over abstract key sets (keys with none/some/unknown values, forking on conditions) and every **-expansion is "
    "checked against the signature of the constructor it reaches; the text writers' row arity and header encoding are "
    "compared with what the loaders unpack; numpy.loadtxt results that are unpacked or sliced along an axis must be "
    "loaded rank-stably. Float formatting precision is NOT decided."
    ' R6 (sparse HDF5 layout: mask over the bin axis, one selection object, moved axis), R9 (file-name derivation agreement), R10 (constructors store same-named parameters), R11 (every member read from an HDF5 group reaches the restored object), R12 (every to_file / to_files opens its destination for writing) were added in later rounds.'
)
ASSUMPTIONS = [
    "h5py: group[name] raises KeyError for a name that was not created; create_dataset/create_group define the names",
    "numpy.loadtxt returns a 1-D array for a single row unless ndmin=2 is given",
    "zip stops at the shorter argument without error",
]


def _is_legacy_test(t: ast.AST) -> bool | None:
    txt = unparse(t)
    if "is_legacy_dataset" in txt:
        return not (isinstance(t, ast.UnaryOp) and isinstance(t.op, ast.Not))
    return None


def _name_values(prog, fi, e) -> set | None:
    """the constant strings an HDF5 member name expression can stand for (None: unknown)"""
    from .. import symx

    e = symx.strip_wrappers(e)
    if isinstance(e, ast.Constant) and isinstance(e.value, str):
        return {e.value}
    if isinstance(e, ast.IfExp):
        a_, b_ = _name_values(prog, fi, e.body), _name_values(prog, fi, e.orelse)
        return None if a_ is None or b_ is None else a_ | b_
    ex = symx.Explorer(prog)
    ex._stack.append(fi)
    # ELEM(<literal sequence>) / ELEM(zip(<literals>))[i]: any element
    idx = None
    base = e
    if isinstance(e, ast.Subscript) and isinstance(e.slice, ast.Constant) and isinstance(e.slice.value, int):
        idx, base = e.slice.value, symx.strip_wrappers(e.value)
    if isinstance(base, ast.Call) and isinstance(base.func, ast.Name) and base.func.id == symx.ELEM and base.args:
        items = ex.literal_items(base.args[0], fi)
        if items is not None:
            vals = set()
            for it in items:
                v = it.elts[idx] if idx is not None and isinstance(it, ast.Tuple) and idx < len(it.elts) else it
                if not (isinstance(v, ast.Constant) and isinstance(v.value, str)):
                    return None
                vals.add(v.value)
            return vals
    return None


def _hdf_paths(prog, m: FuncInfo, legacy: bool | None):
    from .. import symx

    def oracle(t):
        if isinstance(t, ast.Call) and (dotted(t.func) or "").split(".")[-1] == "is_legacy_dataset":
            return legacy
        return None

    def watch(x):
        return isinstance(x, ast.Subscript) and isinstance(x.ctx, ast.Load) and not isinstance(x.slice, ast.Slice)

    return symx.explore(prog, m, oracle=oracle if legacy is not None else None, inline=symx.inline_private_helpers(prog, public={"to_hdf", "from_hdf", "write_version_tag", "load_version_tag", "set_patch_pair", "from_dict", "to_dict"}), watch=watch)


def _hdf_names_written(prog, m: FuncInfo) -> set[str]:
    """names created on the destination group on any path (symbolic store: loops over literal name tables are
    unrolled, module constants and helpers looked through)"""
    out = set()
    for p in _hdf_paths(prog, m, None):
        for ev in p.calls():
            c = ev.expr
            if isinstance(c.func, ast.Attribute) and c.func.attr in ("create_dataset", "create_group", "require_group", "require_dataset") and c.args:
                vals = _name_values(prog, m, c.args[0])
                if vals is None:
                    raise AnalysisError(f"C11.R1: name of the HDF5 member created by `{unparse(ev.node)[:60]}` in {m.short} cannot be determined")
                out |= vals
            if any(t.name == "write_version_tag" for t in prog.resolve_call(ev.fi, ev.node).funcs()):
                out.add("version")
    return out


def _hdf_names_read(prog, m: FuncInfo) -> set[str]:
    """names subscripted on the source group on the current-format paths"""
    src = m.param_names()[1] if len(m.param_names()) > 1 else "source"
    out = set()
    for p in _hdf_paths(prog, m, False):
        for ev in p.events:
            if ev.kind != "expr" or not isinstance(ev.expr, ast.Subscript):
                continue
            base = ev.expr.value
            if not (isinstance(base, ast.Name) and base.id == src):
                continue
            vals = _name_values(prog, m, ev.expr.slice)
            if vals is None:
                raise AnalysisError(f"C11.R1: name of the HDF5 member read by `{unparse(ev.node)[:60]}` in {m.short} cannot be determined")
            out |= vals
    return out


def _literal_values(m: FuncInfo, name: str) -> list:
    out = []
    for x in walk_no_nested(m.node):
        if isinstance(x, (ast.For, ast.comprehension)):
            tgt, it = x.target, x.iter
            names = [e.id if isinstance(e, ast.Name) else None for e in (tgt.elts if isinstance(tgt, ast.Tuple) else [tgt])]
            if name not in names:
                continue
            pos = names.index(name)
            if isinstance(it, ast.Call) and isinstance(it.func, ast.Name) and it.func.id == "zip":
                src = it.args[pos] if pos < len(it.args) else None
            else:
                src = it
            if isinstance(src, ast.Name):
                vals = [v for v in all_def_values(m.node, src.id) if v is not None]
                src = vals[0] if len(vals) == 1 else None
            if isinstance(src, (ast.Tuple, ast.List)):
                out.extend(e.value for e in src.elts if isinstance(e, ast.Constant))
    return out


def rule_r1(prog, res) -> None:
    """HDF5 names read on the current-format arm are written"""
    n = 0
    for ci in prog.classes:
        w, r = ci.methods.get("to_hdf"), ci.methods.get("from_hdf")
        if w is None or r is None or w.is_abstract:
            continue
        n += 1
        res.touch(w)
        res.touch(r)
        written, read = _hdf_names_written(prog, w), _hdf_names_read(prog, r)
        if not written or not read:
            raise AnalysisError(f"C11.R1: cannot extract the HDF5 name tables of {ci.name} (written={sorted(written)}, read={sorted(read)})")
        missing = sorted(read - written)
        if missing:
            res.violation("C11.R1", r, r.node, f"{ci.name}.from_hdf reads {missing}, which to_hdf never writes (written: {sorted(written)}): a file just written cannot be read back", key_extra=f"hdf-names-{'-'.join(missing)}")
        else:
            unread = sorted(written - read - {"version"})
            res.ok("C11.R1", res.site(r), f"reads {sorted(read)} ⊆ written {sorted(written)}" + (f" (written but never read: {unread})" if unread else ""))
            if unread:
                res.violation("C11.R1", w, w.node, f"{ci.name}.to_hdf writes {unread} but from_hdf never reads them: that part of the object does not survive the round trip", key_extra=f"hdf-unread-{'-'.join(unread)}")
    if n < 5:
        raise AnalysisError(f"C11.R1: only {n} to_hdf/from_hdf pairs found, minimum 5")


def _fixed_len(prog, fi: FuncInfo, e: ast.AST):
    """('fixed', n) | ('variable', why) | None (unknown)"""
    if isinstance(e, (ast.Tuple, ast.List)) and not any(isinstance(x, ast.Starred) for x in e.elts):
        return ("fixed", len(e.elts))
    if isinstance(e, ast.Attribute) and e.attr == "__slots__":
        cls = fi.cls
        if cls is not None and cls.slots is not None:
            return ("fixed", len(cls.slots))
    if isinstance(e, ast.Name):
        if e.id == "ATTR_ORDER":
            return ("fixed", 5)
        vals = [v for v in all_def_values(fi.node, e.id) if v is not None]
        if len(vals) == 1:
            return _fixed_len(prog, fi, vals[0])
        return None
    if isinstance(e, ast.Call) and isinstance(e.func, ast.Attribute) and e.func.attr in ("values", "keys", "items"):
        base = e.func.value
        if isinstance(base, ast.Call) and isinstance(base.func, ast.Attribute) and base.func.attr == "to_dict":
            recv_cls = fi.cls
            td = prog.find_method(recv_cls, "to_dict") if recv_cls else None
            if td is not None:
                for x in walk_no_nested(td.node):
                    if isinstance(x, ast.DictComp) and any(g.ifs for g in x.generators):
                        return ("variable", "to_dict() drops entries that are None")
                    if isinstance(x, ast.If):
                        return ("variable", "to_dict() has conditional entries")
        return None
    return None


def rule_r2(prog, res) -> None:
    """fixed name tables are zipped only with fixed-size sequences of equal length"""
    n = 0
    for fi in prog.funcs:
        if not fi.module.name.startswith(("yaw.correlation", "yaw.binning", "yaw.redshifts", "yaw.catalog.patch", "yaw.utils.abc")):
            continue
        for c in calls_in(fi):
            if not (isinstance(c.func, ast.Name) and c.func.id == "zip" and len(c.args) >= 2):
                continue
            infos = [_fixed_len(prog, fi, a) for a in c.args]
            fixed = [i for i in infos if i and i[0] == "fixed"]
            if not fixed:
                continue
            n += 1
            res.touch(fi)
            var = [i for i in infos if i and i[0] == "variable"]
            if var:
                res.violation(
                    "C11.R2",
                    fi,
                    c,
                    f"a fixed table of {fixed[0][1]} names is zipped with a sequence of variable length ({var[0][1]}): when an optional member is missing the "
                    "remaining members are stored under the wrong names",
                    key_extra="fixed-table-zip-variable",
                )
            elif len({f[1] for f in fixed}) > 1:
                res.violation("C11.R2", fi, c, f"fixed tables of different lengths {[f[1] for f in fixed]} are zipped: entries are dropped silently", key_extra="fixed-table-zip-length")
            elif any(i is None for i in infos):
                res.ok("C11.R2", res.site(fi, norm_stmt(c)[:60]), "partner of the fixed table has data-dependent length (row/column data)", nontrivial=False)
            else:
                res.ok("C11.R2", res.site(fi, norm_stmt(c)[:60]), f"all operands are fixed tables of length {fixed[0][1]}")
    if n < 3:
        raise AnalysisError(f"C11.R2: only {n} fixed-table zips found, minimum 3")


def dict_protocol(prog, res, rule: str, *, only_modify: bool = False) -> int:
    """to_dict -> from_dict and modify -> from_dict, decided on the symbolic store (see yawsa.dictsym)"""
    from .. import dictsym, symx

    n = 0
    for ci in prog.classes:
        td, fd = prog.find_method(ci, "to_dict"), prog.find_method(ci, "from_dict")
        if td is None or fd is None or td.is_abstract or not ci.module.name.startswith("yaw."):
            continue
        if any(m.is_abstract for m in [prog.find_method(ci, x) for x in ("create", "modify", "__eq__")] if m is not None) and ci.name in ("BaseConfig",):
            continue
        param = fd.param_names()[1]
        # entries are left out by `is None` / sentinel tests only: a truthiness filter (`if value`, filter(None, …))
        # also drops the valid values 0, 0.0, False and empty sequences, which then read back as the default
        truthy = None
        for x in walk_no_nested(td.node):
            if isinstance(x, (ast.DictComp, ast.ListComp, ast.GeneratorExp)):
                for g in x.generators:
                    names = {t.id for t in ast.walk(g.target) if isinstance(t, ast.Name)}
                    for c_ in g.ifs:
                        t_ = c_.operand if isinstance(c_, ast.UnaryOp) and isinstance(c_.op, ast.Not) else c_
                        if isinstance(t_, ast.Name) and t_.id in names:
                            truthy = c_
            if isinstance(x, ast.Call) and (dotted(x.func) or "") == "filter" and x.args and isinstance(x.args[0], ast.Constant) and x.args[0].value is None:
                truthy = x
        if truthy is not None and not only_modify:
            res.touch(td)
            res.violation(
                rule,
                td,
                truthy,
                f"{ci.name}.to_dict() leaves out entries by truthiness (`{unparse(truthy)[:40]}`): a parameter that is set to 0 / 0.0 / False is dropped from the written form and reads back as its default",
                key_extra=f"{ci.name}-todict-truthiness-filter",
            )
            continue
        try:
            arms = dictsym.produced(prog, td)
        except AnalysisError as err:
            raise AnalysisError(f"{rule}: {err}")
        if not only_modify:
            for p, d in arms:
                n += 1
                res.touch(td)
                res.touch(fd)
                keys = sorted(k.value for k in d.keys)
                # keys that some arm of to_dict writes with a value carry object state: they must not be missing on another arm
                state_keys = {k.value for _p2, d2 in arms for k, v in zip(d2.keys, d2.values) if not (isinstance(v, ast.Constant) and v.value is None)} - {k.value for k in d.keys}
                # … and so do the keys named after what the object is built from (constructor parameters): a reader that
                # falls back to a default for one of them because NO arm writes it loses that part of the object
                init = prog.find_method(ci, "__init__")
                if init is not None and not ci.is_dataclass:
                    state_keys |= {q for q in init.param_names()[1:] if not q.startswith("_")} - {k.value for k in d.keys}
                elif ci.is_dataclass:
                    state_keys |= {q for q in ci.class_ann if not q.startswith("_")} - {k.value for k in d.keys}
                elsewhere = {k.value for _p2, d2 in arms for k in d2.keys} - {k.value for k in d.keys}
                probs = dictsym.consume(prog, ci, fd, param, d, dictsym.facts_of(p), f"{ci.name}.to_dict() -> from_dict", state_keys, written_elsewhere=elsewhere)
                if probs:
                    for pr in probs:
                        res.violation(rule, pr.func, pr.node, pr.message, key_extra=f"{ci.name}-roundtrip-{pr.key}")
                else:
                    res.ok(rule, res.site(fd, f"to_dict arm {p.cond_text()[:50]}"), f"keys {keys} are consumed by from_dict without unaccepted / missing keys")
        # modify -> from_dict
        md = ci.methods.get("modify")
        if md is None:
            continue
        res.touch(md)
        mpaths = symx.explore(prog, md, inline=dictsym._policy(prog, {"create", "to_dict"}), skip_tests=("logger",))
        sites = 0
        handed = []
        for p in mpaths:
            for ev in p.calls("from_dict"):
                if ev.fi is not md and getattr(ev.fi, "origin", None) is not md:
                    continue
                if not ev.expr.args:
                    continue
                d = dictsym._dict_of(ev.expr.args[0])
                if d is None:
                    raise AnalysisError(f"{rule}: dictionary handed to from_dict in {md.short} could not be tracked ({unparse(ev.expr.args[0])[:60]})")
                handed.append((p, ev, d))
        generic = [c for c in calls_in(md) if isinstance(c.func, ast.Attribute) and c.func.attr == "modify" and isinstance(c.func.value, ast.Call) and isinstance(c.func.value.func, ast.Name) and c.func.value.func.id == "super"]
        if not handed and not generic:
            continue
        probs = dictsym.check_paths(prog, ci, mpaths, f"{ci.name}.modify() -> from_dict")
        for p, ev, d in handed:
            sites += 1
            n += 1
            have = {k.value for k in d.keys}
            # modify keeps what it is not asked to change: the dictionary covers the keys that (one arm of) to_dict stores with a value
            short = min((sorted({k.value for k, v in zip(a_.keys, a_.values) if not (isinstance(v, ast.Constant) and v.value is None)} - have) for _p, a_ in arms), key=len)
            if short:
                probs.append(dictsym.Problem(ev.node, md, f"{ci.name}.modify() hands {sorted(have)} to from_dict and leaves out {short}, which to_dict() stores: the modified copy silently takes the default for it instead of the current value [when {p.cond_text()[:100]}]", f"modify-drops-{'-'.join(short)}"))
        seen = set()
        for pr in probs:
            if (pr.key, id(pr.node)) in seen:
                continue
            seen.add((pr.key, id(pr.node)))
            res.violation(rule, pr.func, pr.node, pr.message, key_extra=f"{ci.name}-modify-{pr.key}")
        if not probs and handed:
            res.ok(rule, res.site(md, "modify -> from_dict"), f"on all {len(handed)} path(s) the dictionary is consumed by from_dict without unaccepted / missing keys and covers what to_dict stores")
        # modify delegating to the generic base implementation: to_dict keys merged with the given keywords
        for call in generic:
            kws = {n_ for n_, _v in named_args(call)}
            for p, d in arms:
                n += 1
                merged = ast.Dict(keys=list(d.keys) + [ast.Constant(value=k) for k in sorted(kws) if k not in {x.value for x in d.keys}], values=list(d.values) + [ast.Name(id=k, ctx=ast.Load()) for k in sorted(kws) if k not in {x.value for x in d.keys}])
                probs2 = dictsym.consume(prog, ci, fd, param, merged, dictsym.facts_of(p), f"{ci.name}.modify() (generic) -> from_dict")
                if probs2:
                    for pr in probs2:
                        res.violation(rule, pr.func, pr.node, pr.message, key_extra=f"{ci.name}-modify-{pr.key}")
                else:
                    res.ok(rule, res.site(md, "super().modify"), f"to_dict keys merged with {sorted(kws)} are accepted by from_dict")
    return n


def rule_r3(prog, res) -> None:
    """dict protocols to_dict -> from_dict and modify -> from_dict"""
    n = dict_protocol(prog, res, "C11.R3")
    if n < 6:
        raise AnalysisError(f"C11.R3: only {n} protocol instances interpreted, minimum 6")


def rule_r4(prog, res) -> None:
    """text columns: arity written = arity read; closed-side character round trip"""
    wd, ld = prog.func("write_data"), prog.func("load_data")
    ws, ls = prog.func("write_samples"), prog.func("load_samples")
    cc, lh = prog.func("create_columns"), prog.func("load_header")
    for f in (wd, ld, ws, ls, cc, lh):
        res.touch(f)
    # rows as written: the argument of " ".join(...) in the write call of the row loop, on the symbolic store
    # (helpers looked through): a fixed number of leading columns, optionally followed by a variable tail
    from .. import symx

    def row_shape(fi):
        """-> (leading column expressions, variable tail expression or None, write event)"""
        paths = symx.explore(prog, fi, inline=symx.inline_private_helpers(prog, public={"write_header", "create_columns", "format_float_fixed_width"}))
        for p in paths:
            for ev in p.calls("write"):
                if not ev.loops:
                    continue
                joins = [x for x in ast.walk(ev.expr) if isinstance(x, ast.Call) and isinstance(x.func, ast.Attribute) and x.func.attr == "join" and x.args]
                if not joins:
                    continue
                J = joins[0].args[0]

                def shape(e, depth=0):
                    if depth > 6:
                        return None
                    e = symx.strip_wrappers(e)
                    if isinstance(e, ast.List) and len(e.elts) == 1 and isinstance(e.elts[0], ast.Starred) and isinstance(e.elts[0].value, ast.Call) and isinstance(e.elts[0].value.func, ast.Name) and e.elts[0].value.func.id == symx.LOOP and e.elts[0].value.args:
                        # a list filled by `append` in a loop over Y: one item per element of Y (the loop form of
                        # `[f(v) for v in Y]`)
                        inner = [y for y in ast.walk(e.elts[0].value.args[0]) if isinstance(y, ast.Call) and isinstance(y.func, ast.Name) and y.func.id == symx.ELEM and y.args]
                        if len(inner) >= 1:
                            return shape(inner[0].args[0], depth + 1)
                    if isinstance(e, (ast.ListComp, ast.GeneratorExp)) and len(e.generators) == 1 and not e.generators[0].ifs:
                        return shape(e.generators[0].iter, depth + 1)
                    if isinstance(e, (ast.List, ast.Tuple)):
                        lead = []
                        for i, x in enumerate(e.elts):
                            if isinstance(x, ast.Starred):
                                if i != len(e.elts) - 1:
                                    return None
                                return lead, x.value
                            lead.append(x)
                        # a list literal that is extended afterwards by an iterable
                        ext = [e2 for e2 in p.calls("extend") if isinstance(e2.expr.func, ast.Attribute) and unparse(e2.expr.func.value) == unparse(e) and e2.expr.args]
                        return lead, (ext[0].expr.args[0] if ext else None)
                    if isinstance(e, ast.Call) and isinstance(e.func, ast.Name) and e.func.id == symx.ELEM and e.args:
                        z = symx.strip_wrappers(e.args[0])
                        if isinstance(z, ast.Call) and isinstance(z.func, ast.Name) and z.func.id == "zip":
                            return list(z.args), None
                        if isinstance(z, (ast.GeneratorExp, ast.ListComp)) and len(z.generators) == 1 and not z.generators[0].ifs:
                            return shape(z.elt, depth + 1)  # an element of a generator of rows: the row expression itself
                    if isinstance(e, ast.BinOp) and isinstance(e.op, ast.Add):
                        l, r = shape(e.left, depth + 1), shape(e.right, depth + 1)
                        if l is not None and l[1] is None:
                            if r is not None and r[1] is None:
                                return l[0] + r[0], None
                            return l[0], e.right
                    if isinstance(e, ast.Call) and isinstance(e.func, ast.Name) and e.func.id in ("list", "tuple") and len(e.args) == 1:
                        return shape(e.args[0], depth + 1)
                    if isinstance(e, ast.Call) and (dotted(e.func) or "").split(".")[-1] == "chain" and e.args and not e.keywords:
                        # itertools.chain(a, b, …): the parts one after the other
                        lead, tail = [], None
                        for part in e.args:
                            sh_ = shape(part, depth + 1)
                            if tail is not None:
                                return None  # something after a variable part
                            if sh_ is None:
                                tail = part
                            else:
                                lead += sh_[0]
                                tail = sh_[1]
                        return lead, tail
                    return None

                sh = shape(J)
                if sh is not None:
                    return sh[0], sh[1], ev
        return None

    shd = row_shape(wd)
    if shd is None or shd[1] is not None:
        raise AnalysisError("C11.R4: rows written by write_data not recognised (expected a fixed number of columns per row)")
    n_written = len(shd[0])
    unpack = [x for x in walk_no_nested(ld.node) if isinstance(x, ast.Assign) and isinstance(x.targets[0], ast.Tuple) and "loadtxt" in unparse(x.value)]
    if len(unpack) != 1:
        raise AnalysisError("C11.R4: load_data no longer unpacks the loaded columns")
    n_read = len(unpack[0].targets[0].elts)
    cols_w = None
    for c in calls_in(wd):
        if any(t.name == "create_columns" for t in prog.resolve_call(wd, c).funcs()) and c.args and isinstance(c.args[0], ast.List):
            cols_w = 2 + len(c.args[0].elts)
    if n_written == n_read and (cols_w is None or cols_w == n_written):
        res.ok("C11.R4", res.site(ld), f"{n_written} columns written per row, {n_read} unpacked")
    else:
        res.violation("C11.R4", ld, unpack[0], f".dat rows have {n_written} values (header announces {cols_w}) but load_data unpacks {n_read}", key_extra="dat-arity")
    # the column roles: written in the order of write_data's (keyword) parameters; read back by position — decided on
    # the symbolic return value of load_data (`…loadtxt(…).T[k]`), so the names of its locals do not matter:
    # edges = append(column of zleft, last element of column of zright), data = column of data
    from .. import symx

    wnames = [unparse(a) for a in shd[0]]

    def col_index(e):
        e = symx.strip_wrappers(e)
        if isinstance(e, ast.Subscript) and isinstance(e.slice, ast.Constant) and isinstance(e.slice.value, int) and "loadtxt" in unparse(e.value):
            return e.slice.value
        return None

    roles = None
    for p_ in symx.explore(prog, ld, inline=symx.inline_private_helpers(prog)):
        if p_.outcome != "return" or not isinstance(p_.value, ast.Tuple):
            continue
        got = {}
        for el in p_.value.elts:
            k = col_index(el)
            if k is not None:
                got["data"] = k
            for c in [x for x in ast.walk(el) if isinstance(x, ast.Call) and (dotted(x.func) or "").split(".")[-1] in ("append", "concatenate", "hstack", "r_")]:
                parts = list(c.args[0].elts) if len(c.args) == 1 and isinstance(c.args[0], (ast.Tuple, ast.List)) else list(c.args)
                if len(parts) == 2:
                    a, b = parts
                    b_ = b.value if isinstance(b, ast.Subscript) and col_index(b) is None else b
                    if isinstance(b, (ast.List, ast.Tuple)) and len(b.elts) == 1:
                        b_ = b.elts[0].value if isinstance(b.elts[0], ast.Subscript) else b.elts[0]
                    if col_index(a) is not None and col_index(b_) is not None:
                        got["zleft"], got["zright"] = col_index(a), col_index(b_)
        if roles is not None and got != roles:
            raise AnalysisError("C11.R4: load_data reads different columns on different paths")
        roles = got
    if not roles or set(roles) != {"zleft", "zright", "data"}:
        raise AnalysisError(f"C11.R4: column roles read by load_data not recognised ({roles})")
    want = {k: wnames.index(k) for k in ("zleft", "zright", "data") if k in wnames}
    if len(want) != 3:
        raise AnalysisError(f"C11.R4: write_data no longer writes the columns zleft, zright, data ({wnames})")
    if roles == want:
        res.ok("C11.R4", res.site(ld, "column order"), f"columns written as {wnames}; read back: left edges from column {roles['zleft']}, right edge from column {roles['zright']}, data from column {roles['data']}")
    else:
        res.violation("C11.R4", ld, unpack[0], f"columns are written in the order {wnames} but read as { {k: f'column {v}' for k, v in sorted(roles.items())} }", key_extra="dat-column-order")
    # samples: two binning columns then the samples, reader drops exactly two
    shs = row_shape(ws)
    lead = len(shs[0]) if shs is not None and shs[1] is not None else None
    drop = None
    for x in walk_no_nested(ls.node):
        if isinstance(x, ast.Subscript) and isinstance(x.slice, ast.Slice) and x.slice.lower is not None and x.slice.upper is None and isinstance(x.slice.lower, ast.Constant):
            drop = x.slice.lower.value
    if lead is None or drop is None:
        raise AnalysisError("C11.R4: write_samples/load_samples shape not recognised")
    if lead == drop:
        res.ok("C11.R4", res.site(ls), f"{lead} leading binning columns written, {drop} dropped on load")
    else:
        res.violation("C11.R4", ls, ls.node, f".smp rows start with {lead} binning columns but load_samples drops {drop}", key_extra="smp-leading-columns")
    # the text written for a number is computed from that number on every path (a literal can stand for NaN only:
    # it is the one value that has no sign or magnitude to preserve)
    fmt = prog.func("format_float_fixed_width")
    res.touch(fmt)
    vparam = fmt.param_names()[0]
    fpaths = [p for p in symx.explore(prog, fmt, inline=symx.inline_private_helpers(prog)) if p.outcome == "return"]
    if not fpaths:
        raise AnalysisError("C11.R4: format_float_fixed_width has no returning path")
    lost = None
    for p in fpaths:
        if p.value is not None and symx.mentions(p.value, lambda y: isinstance(y, ast.Name) and y.id == vparam):
            continue
        only_nan = any(pol and isinstance(t, ast.Call) and (dotted(t.func) or "").split(".")[-1] == "isnan" for t, pol in p.literals())
        if not only_nan:
            lost = p
    if lost is None:
        res.ok("C11.R4", res.site(fmt), f"all {len(fpaths)} returning path(s) format the value itself (a literal is returned for NaN at most)")
    else:
        res.violation(
            "C11.R4",
            fmt,
            lost.node or fmt.node,
            f"format_float_fixed_width returns `{unparse(lost.value)[:50]}`, which does not depend on the value, on a path that is not restricted to NaN (when {lost.cond_text()[:80]}): "
            "different values (e.g. -inf and +inf) are written as the same text and read back as one of them",
            key_extra="format-literal-for-values",
        )
    # closed side: create_columns(closed) -> first character -> load_header
    # decided by folding writer and reader for both sides: the first character of the first column name that
    # create_columns(…, closed) produces, handed to load_header as the first character read from the file
    closed_param = cc.param_names()[1]
    rt = {}
    for side in ("left", "right"):
        wp = [p for p in symx.explore(prog, cc, env={closed_param: side}, inline=symx.inline_private_helpers(prog)) if p.outcome == "return" and p.value is not None]
        firsts = set()
        for p in wp:
            try:
                cols = ceval(p.value, {cc.param_names()[0]: []})
                firsts.add(str(cols[0])[0])
            except Exception as err:  # noqa: BLE001
                raise AnalysisError(f"C11.R4: cannot evaluate the closed-side header round trip (create_columns: {err})") from None
        if len(firsts) != 1:
            raise AnalysisError("C11.R4: closed-side header encoding not recognised")
        first = firsts.pop()

        def oracle(t, first=first):
            # a comparison of the first character of the first header column with a literal
            if isinstance(t, ast.Compare) and len(t.ops) == 1 and isinstance(t.ops[0], (ast.Eq, ast.NotEq)):
                sides = [t.left, t.comparators[0]]
                lit = [x for x in sides if isinstance(x, ast.Constant) and isinstance(x.value, str)]
                oth = [x for x in sides if x not in lit]
                if len(lit) == 1 and len(oth) == 1 and isinstance(oth[0], ast.Subscript) and symx.mentions(oth[0], lambda y: isinstance(y, ast.Call) and isinstance(y.func, ast.Attribute) and y.func.attr in ("readline", "readlines", "read")):
                    eq = lit[0].value == first
                    return eq if isinstance(t.ops[0], ast.Eq) else not eq
            if isinstance(t, ast.Call) and isinstance(t.func, ast.Attribute) and t.func.attr == "startswith" and t.args and isinstance(t.args[0], ast.Constant) and symx.mentions(t.func.value, lambda y: isinstance(y, ast.Call) and isinstance(y.func, ast.Attribute) and y.func.attr in ("readline", "readlines", "read")):
                return first.startswith(t.args[0].value)
            return None

        rp = [p for p in symx.explore(prog, lh, oracle=oracle, inline=symx.inline_private_helpers(prog)) if p.outcome == "return" and p.value is not None]
        decoded = set()
        for p in rp:
            v = p.value
            cand = [x for x in (v.elts if isinstance(v, ast.Tuple) else [v]) if isinstance(x, ast.Constant) and x.value in ("left", "right")]
            cand += [x for x in (v.elts if isinstance(v, ast.Tuple) else [v]) if isinstance(x, ast.Attribute) and (dotted(x) or "").startswith("Closed.")]
            for x in cand:
                decoded.add(x.value if isinstance(x, ast.Constant) else x.attr)
        if len(decoded) != 1:
            raise AnalysisError(f"C11.R4: cannot evaluate the closed-side header round trip (load_header decodes {sorted(decoded)} for '{first}')")
        rt[side] = decoded.pop()
    if rt == {"left": "left", "right": "right"}:
        res.ok("C11.R4", res.site(lh, "closed side"), "header bracket written for closed=left/right is decoded to the same side")
    else:
        res.violation("C11.R4", lh, lh.node, f"closed side does not survive the file header: left->{rt['left']}, right->{rt['right']}", key_extra="header-closed-roundtrip")
    # writer passes str(binning.closed); reader builds Binning(edges, closed=closed)
    ff = prog.func("CorrData.from_files")
    res.touch(ff)
    # on the symbolic store (a reading helper is looked through): Binning(…, closed=<second value returned by load_data>)
    okb = False
    for p in symx.explore(prog, ff, env={"on_root()": True, "on_worker()": False}, inline=symx.inline_private_helpers(prog, public={"load_data", "load_samples", "load_header"}), skip_tests=("logger",)):
        for ev in p.calls("Binning"):
            cl = kwarg(ev.expr, "closed") or (ev.expr.args[1] if len(ev.expr.args) > 1 else None)
            cl = symx.strip_wrappers(cl) if cl is not None else None
            if isinstance(cl, ast.Subscript) and isinstance(cl.slice, ast.Constant) and cl.slice.value == 1 and symx.calls_named(cl.value, "load_data"):
                okb = True
            elif isinstance(cl, ast.Name) and any(isinstance(x, ast.Assign) and isinstance(x.targets[0], ast.Tuple) and any(isinstance(t, ast.Name) and t.id == cl.id for t in x.targets[0].elts) and "load_data" in unparse(x.value) for f_ in [ff] for x in walk_no_nested(f_.node)):
                okb = True
    if okb:
        res.ok("C11.R4", res.site(ff), "restored binning receives the decoded closed side")
    else:
        res.violation("C11.R4", ff, ff.node, "the binning restored from the text files does not receive the stored closed side", key_extra="from-files-closed")


def rule_r5(prog, res) -> None:
    """rank-stable loading"""
    n = 0
    for fi in prog.funcs:
        pm = None
        for c in calls_in(fi):
            if "numpy.loadtxt" not in prog.resolve_call(fi, c).ext_names():
                continue
            n += 1
            res.touch(fi)
            pm = pm or parents_map(fi.node)
            # is the result transposed / unpacked / sliced by axis?
            cur, axis_use = c, False
            while True:
                p = pm.get(id(cur))
                if isinstance(p, ast.Attribute) and p.attr == "T":
                    axis_use = True
                    cur = p
                    continue
                if isinstance(p, ast.Subscript) and p.value is cur:
                    axis_use = True
                    cur = p
                    continue
                if isinstance(p, ast.Assign) and isinstance(p.targets[0], (ast.Tuple, ast.List)):
                    axis_use = True
                break
            nd = kwarg(c, "ndmin")
            if not axis_use:
                res.ok("C11.R5", res.site(fi, norm_stmt(c)), "result not used by axis", nontrivial=False)
            elif isinstance(nd, ast.Constant) and nd.value == 2:
                res.ok("C11.R5", res.site(fi, norm_stmt(c)), "ndmin=2: rank 2 for any number of rows")
            else:
                res.violation(
                    "C11.R5",
                    fi,
                    c,
                    "numpy.loadtxt without ndmin=2 returns a 1-D array for a single row; the result is transposed / unpacked by column: products with one redshift bin cannot be read back",
                    key_extra="loadtxt-ndmin",
                )
    if n < 2:
        raise AnalysisError(f"C11.R5: only {n} loadtxt calls found, minimum 2")


def rule_r6(prog, res) -> None:
    """sparse storage keeps every patch pair that has any non-zero bin, and row k of the stored values belongs to
    pair k of the stored pair list. Decided on the symbolic store of every HDF5 writer that stores a selection: (1)
    the mask of stored pairs is `any(<counts> [!= 0], axis=bins)` — not an arithmetic reduction compared with a
    threshold (cancelling / negative / NaN bins are dropped) and not narrowed afterwards (e.g. to a triangle); (2) the
    pair list and the values are selected by ONE selection object (the same nonzero()/argwhere() result), so their
    order agrees by construction."""
    from .. import symx

    n = 0
    for ci in prog.classes:
        w = ci.methods.get("to_hdf")
        if w is None or not any((dotted(c.func) or "").split(".")[-1] in ("nonzero", "argwhere", "flatnonzero", "where") for c in calls_in(w)):
            continue
        res.touch(w)
        for p in symx.explore(prog, w, inline=symx.inline_private_helpers(prog, public={"to_hdf"})):
            if p.outcome == "raise":
                continue
            sels = []
            for ev in p.calls():
                for x in ast.walk(ev.expr):
                    if isinstance(x, ast.Call) and (dotted(x.func) or "").split(".")[-1] in ("nonzero", "argwhere", "flatnonzero") and x.args:
                        if unparse(x) not in [unparse(y) for y in sels]:
                            sels.append(x)
            if not sels:
                continue
            n += 1
            # (1) the mask
            m = symx.strip_wrappers(sels[0].args[0])

            def is_any(e) -> bool:
                if isinstance(e, ast.Call):
                    fn = (dotted(e.func) or "").split(".")[-1]
                    if fn == "any" and (e.args or isinstance(e.func, ast.Attribute)):
                        inner = e.args[0] if (dotted(e.func) or "").startswith(("np.", "numpy.")) and e.args else (e.func.value if isinstance(e.func, ast.Attribute) else None)
                        if inner is None:
                            return False
                        if isinstance(inner, ast.Compare):
                            return len(inner.ops) == 1 and isinstance(inner.ops[0], ast.NotEq) and isinstance(inner.comparators[0], ast.Constant) and inner.comparators[0].value in (0, 0.0)
                        return not any(isinstance(x, (ast.BinOp, ast.Compare)) for x in ast.walk(inner))
                return False

            contains_any = any(is_any(x) for x in ast.walk(m))
            tol = next((x for x in ast.walk(m) if isinstance(x, ast.Call) and (dotted(x.func) or "").split(".")[-1] in ("isclose", "allclose")), None)
            if tol is not None:
                res.violation("C11.R6", w, sels[0], f"the mask of stored patch pairs compares the counts with zero within a tolerance (`{unparse(tol)[:50]}`): pairs whose counts are small (tiny weights) but not zero are dropped from the file and read back as zeros", key_extra="sparse-mask-tolerance")
                continue
            arith = any(isinstance(x, ast.Call) and (dotted(x.func) or "").split(".")[-1] in ("sum", "nansum", "mean", "prod", "max", "min") for x in ast.walk(m)) or isinstance(m, ast.Compare)
            ax_bad = None
            if is_any(m):
                # … over the BIN axis: the counts are stored as (bins, patches, patches), the mask is per patch pair
                np_form = (dotted(m.func) or "").startswith(("np.", "numpy."))
                arr = m.args[0] if np_form and m.args else m.func.value
                if isinstance(arr, ast.Compare):
                    arr = arr.left
                ax = kwarg(m, "axis") or (m.args[1] if np_form and len(m.args) > 1 else (m.args[0] if not np_form and m.args else None))
                if isinstance(arr, ast.Attribute) and arr.attr == "counts":
                    if not (isinstance(ax, ast.Constant) and ax.value == 0):
                        ax_bad = unparse(ax) if ax is not None else "none (all axes)"
            if ax_bad is not None:
                res.violation("C11.R6", w, sels[0], f"the mask of stored patch pairs reduces the counts over axis {ax_bad} instead of over the redshift bins (axis 0): it marks (bin, patch) combinations, not patch pairs — the stored pair list and values do not describe the counts, the file reads back as different counts", key_extra="sparse-mask-axis")
            elif is_any(m):
                res.ok("C11.R6", res.site(w, "non-zero mask"), f"mask {unparse(m)[:60]} marks a patch pair iff any bin is non-zero")
            elif contains_any:
                res.violation(
                    "C11.R6",
                    w,
                    sels[0],
                    f"the mask of stored patch pairs is narrowed after it was computed ({unparse(m)[:70]}): pairs with non-zero counts outside the kept part (e.g. below the diagonal after the patches "
                    "were reordered) are dropped from the file and read back as zeros",
                    key_extra="sparse-mask-narrowed",
                )
            elif arith:
                res.violation(
                    "C11.R6",
                    w,
                    sels[0],
                    f"the mask of stored patch pairs is {unparse(m)[:70]}, an arithmetic reduction compared with a threshold: pairs whose bins cancel, are negative or contain NaN are dropped "
                    "from the file and read back as zeros",
                    key_extra="sparse-mask-not-any",
                )
            else:
                raise AnalysisError(f"C11.R6: sparse mask {unparse(m)[:60]} in {w.short} not recognised")
            # (2) one selection object for pairs and values
            stored = [(ev, kwarg(ev.expr, "data") or (ev.expr.args[1] if len(ev.expr.args) > 1 else None)) for ev in p.calls("create_dataset")]
            stored = [(ev, d) for ev, d in stored if d is not None]
            sel_txt = unparse(sels[0])
            using = [(ev, d) for ev, d in stored if sel_txt in unparse(d)]
            masked = [(ev, d) for ev, d in stored if sel_txt not in unparse(d) and unparse(m) in unparse(d).replace(".T", "")]
            # the values of one pair form one row: the bin axis of the selection `counts[:, i, j]` (axis 0) is moved to the
            # end, nothing else
            for ev, d in using:
                for y in ast.walk(d):
                    if isinstance(y, ast.Call) and (dotted(y.func) or "").split(".")[-1] == "moveaxis" and len(y.args) >= 3 and any(isinstance(z, ast.Subscript) for z in ast.walk(y.args[0])):
                        try:
                            a_, b_ = ceval(y.args[1], {}), ceval(y.args[2], {})
                        except Unknown:
                            continue
                        if (a_, b_) not in ((0, -1), (0, 1)):
                            res.violation("C11.R6", w, ev.node, f"the stored values are `{unparse(y)[:60]}`: the axis moved to the end is not the bin axis of the selection — the rows of the stored values no longer correspond to the rows of the pair list, counts are read back at other pairs / bins", key_extra="sparse-values-axis")
            # … and by its components in the same roles: where the components of the selection are used one by one, each
            # stored array uses the first as the first patch index and the second as the second (`[i, i]` stores the
            # diagonal, `[j, i]` the transposed pair)
            comp_bad = None
            for ev, d in using:
                comps = []
                for y in ast.walk(d):
                    if isinstance(y, ast.Subscript) and unparse(y.value) == sel_txt and isinstance(y.slice, ast.Constant) and isinstance(y.slice.value, int):
                        comps.append((getattr(y, "col_offset", 0), y.slice.value))
                order = [k_ for _o, k_ in comps]  # ast.walk is breadth-first over one expression: siblings keep their order
                if order and order not in ([0, 1], [-2, -1]):
                    comp_bad = (ev, order)
            if comp_bad is not None:
                res.violation("C11.R6", w, comp_bad[0].node, f"`{unparse(comp_bad[0].expr.args[0]) if comp_bad[0].expr.args else '?'}` is built from the components {comp_bad[1]} of the selection {sel_txt[:40]} instead of (first, second): the stored pair list / values describe other patch pairs than the non-zero ones, counts are read back at the wrong place", key_extra="sparse-selection-components")
            elif len(using) >= 2 and not masked:
                res.ok("C11.R6", res.site(w, "pair/value order"), "the pair list and the values are selected by the same index arrays")
            elif masked and using:
                res.violation(
                    "C11.R6",
                    w,
                    masked[0][0].node,
                    f"the pair list is selected with {sel_txt[:50]} but the values with another use of the mask ({unparse(masked[0][1])[:60]}): the two selections enumerate the non-zero entries in different orders "
                    "(row-major vs. column-major), so after reading back the counts sit at other patch pairs",
                    key_extra="sparse-order-mismatch",
                )
            elif len(using) < 2:
                raise AnalysisError(f"C11.R6: cannot relate the stored pair list and values to one selection in {w.short}")
    if n < 1:
        raise AnalysisError("C11.R6: no sparse (nonzero-mask) HDF5 writer found")
    # the reader puts row k back at pair k: the two patch indices handed to set_patch_pair are the first and the second
    # entry of ONE stored pair, in this order, on the current and on the legacy arm
    k = 0
    for ci in prog.classes:
        r = ci.methods.get("from_hdf")
        if r is None or r.is_abstract:
            continue  # (the call may sit in a private helper of the reader: decided on the inlined paths)
        res.touch(r)
        for legacy in (False, True):
            for p in _hdf_paths(prog, r, legacy):
                for ev in p.calls("set_patch_pair"):
                    if len(ev.expr.args) < 3:
                        continue
                    a, b = (symx.strip_wrappers(x) for x in ev.expr.args[:2])
                    k += 1
                    ok_ = isinstance(a, ast.Subscript) and isinstance(b, ast.Subscript) and unparse(a.value) == unparse(b.value) and isinstance(a.slice, ast.Constant) and isinstance(b.slice, ast.Constant) and (a.slice.value, b.slice.value) in ((0, 1), (-2, -1))
                    if ok_:
                        res.ok("C11.R6", res.site(r, f"set_patch_pair ({'legacy' if legacy else 'current'})"), "patch indices are entry 0 and entry 1 of one stored pair")
                    elif isinstance(a, ast.Subscript) and isinstance(b, ast.Subscript) and unparse(a.value) == unparse(b.value):
                        res.violation("C11.R6", r, ev.node, f"{ci.name}.from_hdf stores the counts of a pair at `[{unparse(a.slice)}]`, `[{unparse(b.slice)}]` of the stored pair instead of at (first, second): counts come back on the diagonal / transposed", key_extra="sparse-reader-indices")
                    else:
                        raise AnalysisError(f"C11.R6: patch indices `{unparse(a)[:40]}`, `{unparse(b)[:40]}` handed to set_patch_pair in {r.short} not recognised as entries of a stored pair")
    if k < 2:
        raise AnalysisError(f"C11.R6: only {k} set_patch_pair call(s) found in HDF5 readers (current and legacy arm), minimum 2")


def rule_r7(prog, res) -> None:
    """regenerated bin edges use the stored cosmology (= C15.R2) and exact outer edges (= C15.R7)"""
    from . import c15
    from .common import shared_rule

    shared_rule(res, c15.rule_r2, "C15", "C15.R2", "C11.R7")
    shared_rule(res, c15.rule_r7, "C15", "C15.R7", "C11.R7")


def rule_r8(prog, res) -> None:
    """what is written for a field is a value of the field's declared type: a to_dict that narrows (int(...) of a
    float field, a truncating cast) stores something else than what it reads back"""
    n = 0
    for ci in prog.classes:
        td = ci.methods.get("to_dict")
        if td is None or not ci.class_ann:
            continue
        ann = {k: unparse(v) for k, v in ci.class_ann.items()}
        for x in walk_no_nested(td.node):
            items = []
            if isinstance(x, ast.Call) and (dotted(x.func) or "") == "dict" and not x.args:
                items = [(k.arg, k.value) for k in x.keywords if k.arg]
            elif isinstance(x, ast.Dict):
                items = [(k.value, v) for k, v in zip(x.keys, x.values) if isinstance(k, ast.Constant)]
            for key, val in items:
                if key not in ann or not isinstance(val, ast.Call) or not isinstance(val.func, ast.Name):
                    continue
                n += 1
                res.touch(td)
                cast, declared = val.func.id, ann[key]
                if cast == "int" and declared in ("float", "np.float64", "numpy.float64"):
                    res.violation("C11.R8", td, val, f"{ci.name}.to_dict stores the {declared} field '{key}' as int(...): the fractional part is lost in the file, the restored object differs from the stored one", key_extra=f"narrowing-{ci.name}-{key}")
                elif cast in ("int", "float", "str", "bool") and declared.split("[")[0] in ("int", "float", "str", "bool") and cast != declared and not (cast == "float" and declared == "int"):
                    res.violation("C11.R8", td, val, f"{ci.name}.to_dict stores the {declared} field '{key}' through {cast}(...)", key_extra=f"cast-mismatch-{ci.name}-{key}")
                else:
                    res.ok("C11.R8", res.site(td, key), f"field '{key}: {declared}' is written through {cast}()")
    if n < 2:
        raise AnalysisError(f"C11.R8: only {n} typed fields with an explicit conversion found in to_dict methods, minimum 2")


def name_derivations(prog, fi, ev_fi, e: ast.AST) -> list[str]:
    """the files of a multi-file product that an expression names: '<suffix>' when the suffix replaces the prefix's
    own (prefix.with_suffix(".dat")), '+<suffix>' when it is appended (Path(f"{prefix}.dat"), str(prefix) + ".dat");
    the two derivations name different files as soon as the prefix contains a dot"""
    from ..effects import const_str

    out = []
    skip: set = set()
    for x in ast.walk(e):
        if id(x) in skip:
            continue
        if isinstance(x, ast.Call) and isinstance(x.func, ast.Attribute) and x.func.attr == "with_suffix" and x.args:
            sfx = const_str(prog, ev_fi, x.args[0]) or const_str(prog, fi, x.args[0])
            if sfx is not None:
                # replacing the suffix of `prefix + ".ext"` (a placeholder extension appended first) keeps the dots of
                # the prefix: the net derivation appends
                recv = x.func.value
                appended = False
                for y in ast.walk(recv):
                    t_ = None
                    if isinstance(y, ast.JoinedStr) and len(y.values) >= 2 and isinstance(y.values[-1], ast.Constant) and isinstance(y.values[-2], ast.FormattedValue):
                        t_ = y.values[-1].value
                    elif isinstance(y, ast.BinOp) and isinstance(y.op, ast.Add) and not isinstance(y.left, ast.Constant):
                        t_ = const_str(prog, ev_fi, y.right) or const_str(prog, fi, y.right)
                    if isinstance(t_, str) and t_.startswith(".") and t_.count(".") == 1:
                        appended = True
                out.append(("+" if appended else "") + sfx)
                if appended:
                    skip.update(id(y) for y in ast.walk(recv))
        tail = None
        if isinstance(x, ast.JoinedStr) and len(x.values) >= 2 and isinstance(x.values[-1], ast.Constant) and isinstance(x.values[-2], ast.FormattedValue):
            tail = x.values[-1].value
        elif isinstance(x, ast.BinOp) and isinstance(x.op, ast.Add) and not isinstance(x.left, ast.Constant):
            tail = const_str(prog, ev_fi, x.right) or const_str(prog, fi, x.right)
        if isinstance(tail, str) and tail.startswith(".") and tail.count(".") == 1 and len(tail) <= 6:
            out.append("+" + tail)
    return out


def rule_r9(prog, res) -> None:
    """multi-file products: the reader derives each file name from the prefix in the same way as the writer (both
    replace the suffix or both append it) and reads no file the writer does not write — decided on the symbolic
    store of every to_files / from_files pair"""
    from .. import symx

    n = 0
    for ci in prog.classes:
        w, r = ci.methods.get("to_files"), ci.methods.get("from_files")
        if w is None or r is None or w.is_abstract or r.is_abstract:
            continue
        names = {}
        for role, fi in (("write", w), ("read", r)):
            got = set()
            for p in symx.explore(prog, fi, env={"on_root()": True, "on_worker()": False}, inline=symx.inline_private_helpers(prog, public={"write_data", "write_samples", "write_covariance", "write_header", "load_data", "load_samples", "load_header"}), skip_tests=("logger",)):
                if p.outcome == "raise":
                    continue
                for ev in p.calls():
                    f = ev.expr.func
                    if isinstance(f, ast.Attribute) and f.attr in ("unlink", "with_suffix", "exists"):
                        continue
                    for a in [*ev.expr.args, *[k.value for k in ev.expr.keywords]]:
                        got.update(name_derivations(prog, fi, ev.fi, a))
            names[role] = got
        if not names["write"] or not names["read"]:
            raise AnalysisError(f"C11.R9: file names of {ci.name}.to_files / from_files not recognised ({names})")
        n += 1
        res.touch(w)
        res.touch(r)
        bad = sorted(x for x in names["read"] if x not in names["write"])
        if bad:
            other = [x for x in bad if (x[1:] if x.startswith("+") else "+" + x) in names["write"]]
            why = (
                f"from_files {'appends' if other[0].startswith('+') else 'replaces'} the suffix '{other[0].lstrip('+')}' where to_files {'replaces' if other[0].startswith('+') else 'appends'} it: for a prefix that contains a dot the product is not found, or another product is read"
                if other
                else f"from_files reads '{bad[0]}', which to_files never writes"
            )
            res.violation("C11.R9", r, r.node, f"{ci.name}: {why}", key_extra=f"file-name-derivation-{ci.name}")
        else:
            res.ok("C11.R9", res.site(r, "file names"), f"reads {sorted(names['read'])}, all written the same way by to_files ({sorted(names['write'])})")
    if n == 0:
        raise AnalysisError("C11.R9: no to_files / from_files pair found")


def rule_r10(prog, res) -> None:
    """constructors keep what they are given: an attribute that has the name of a constructor parameter is
    initialised from THAT parameter (possibly converted), not from another one — unless the path has established
    that the parameter is None and a fallback is computed. A copy-paste slip such as `self.sum_weights =
    float(num_records)` is invisible while objects are built through another constructor (e.g. compute() via
    __new__) and only shows when the object is restored from its stored form. Decided on the symbolic store of
    every __init__ / alternative constructor of the package."""
    from .. import symx

    n = 0
    for fi in prog.funcs:
        if not (fi.name in ("__init__", "__post_init__") or fi.is_classmethod) or fi.cls is None or fi.is_abstract:
            continue
        params = set(fi.param_names()) - {"self", "cls"}
        if not params or not any(isinstance(x, ast.Attribute) and isinstance(x.ctx, ast.Store) and x.attr in params for x in walk_no_nested(fi.node)):
            continue
        try:
            paths = symx.explore(prog, fi, inline=lambda *a_: False, skip_tests=("logger",), max_paths=400)
        except symx.TooManyPaths:
            continue
        res.touch(fi)
        reported = set()
        for p in paths:
            if p.outcome == "raise":
                continue
            facts = {unparse(t): pol for t, pol in p.literals()}
            for key, val in p.store.items():
                if not (isinstance(key, str) and key.count(".") == 1):
                    continue
                obj, attr = key.split(".")
                if attr not in params or obj in params:
                    continue
                n += 1
                names = {y.id for y in ast.walk(val) if isinstance(y, ast.Name)}
                others = sorted((names & params) - {attr})
                if attr in names or not others:
                    continue
                absent = facts.get(f"{attr} is None") is True or facts.get(f"{attr} is not None") is False or facts.get(attr) is False
                if absent or (fi.short, attr) in reported:
                    continue
                reported.add((fi.short, attr))
                res.violation(
                    "C11.R10",
                    fi,
                    fi.node,
                    f"{fi.cls.name}.{fi.name} stores `{attr} = {unparse(val)[:50]}`: the attribute is initialised from the parameter(s) {others}, not from `{attr}` itself — "
                    f"an object restored through this constructor (from_dict / from file) does not hold the stored value of `{attr}`",
                    key_extra=f"ctor-field-{fi.cls.name}-{attr}",
                )
        if not any(r[0] == fi.short for r in reported):
            res.ok("C11.R10", res.site(fi), "every attribute named like a parameter is initialised from that parameter", nontrivial=False)
    if n < 30:
        raise AnalysisError(f"C11.R10: only {n} parameter-named attribute stores found in constructors, minimum 30")


ITER_HELPERS = {"zip", "enumerate", "len", "range", "iter", "list", "tuple", "sorted", "reversed", "print", "debug", "info", "isinstance", "load_version_tag", "is_legacy_dataset"}


def rule_r11(prog, res) -> None:
    """what a reader takes from the file ends up in the object it returns: every member of the source group that
    `from_hdf` reads (on the current-format and on the legacy arm) is mentioned in the returned expression or in the
    arguments of a call that does something with it (a constructor, a setter of the object under construction) —
    a member that is read and then only iterated over or dropped restores as zeros / defaults without any error.
    Decided on the symbolic store (locals substituted by what they were read from)."""
    from .. import symx

    n = 0
    for ci in prog.classes:
        r = ci.methods.get("from_hdf")
        if r is None or r.is_abstract or ci.methods.get("to_hdf") is None:
            continue
        src = r.param_names()[1] if len(r.param_names()) > 1 else "source"
        res.touch(r)
        for legacy in (False, True):
            for p in _hdf_paths(prog, r, legacy):
                if p.outcome != "return":
                    continue
                reads = {}
                for ev in p.events:
                    if ev.kind == "expr" and isinstance(ev.expr, ast.Subscript) and isinstance(ev.expr.value, ast.Name) and ev.expr.value.id == src:
                        reads.setdefault(unparse(ev.expr), ev)
                if not reads:
                    continue
                sinks = [unparse(p.value)] if p.value is not None else []
                for ev in p.calls():
                    if ev.callee in ITER_HELPERS:
                        continue
                    f = ev.expr.func
                    if isinstance(f, ast.Attribute) and f.attr in ("debug", "info", "warning"):
                        continue
                    sinks.append(" ".join(unparse(a) for a in [*ev.expr.args, *[k.value for k in ev.expr.keywords]]))
                    if isinstance(f, ast.Attribute) and f.attr not in ("keys", "values", "items"):
                        sinks.append(unparse(f.value))  # source[name].attrs.get(...), source[name][:] as receiver of a conversion
                # … and what is stored on the object under construction (new.attr = value, new[key] = value)
                sinks += [unparse(ev.value) for ev in p.events if ev.kind == "store" and ev.value is not None]
                for txt, ev in reads.items():
                    n += 1
                    # a read that is itself the receiver of a further read (`source["g"]["x"]`) is used through that one
                    if any(txt in s_ for s_ in sinks) or any(txt in k and k != txt for k in reads):
                        res.ok("C11.R11", res.site(r, f"{txt[:40]} [{'legacy' if legacy else 'current'}]"), "reaches the restored object", nontrivial=False)
                    else:
                        res.violation("C11.R11", r, ev.node, f"{ci.name}.from_hdf reads {txt[:50]} but the value reaches neither the returned object nor any call that builds it ({'legacy' if legacy else 'current'} format): that part of the stored object is restored as zeros / defaults, silently", key_extra=f"hdf-read-unused-{ci.name}-{txt[:30]}")
    if n < 6:
        raise AnalysisError(f"C11.R11: only {n} reads of HDF5 members followed, minimum 6")


def rule_r12(prog, res) -> None:
    """writers write: every concrete `to_file` / `to_files` opens its destination for writing (itself, through super()
    or through a helper it calls) and hands the object's own serialiser (`to_hdf` / `to_dict` / the text writers) the
    handle — an override that only logs and synchronises leaves no file behind, and the next `from_file` reads an older
    product or fails far from the cause"""
    from ..effects import summaries

    S = summaries(prog)
    n = 0
    for ci in prog.classes:
        for name in ("to_file", "to_files"):
            m = ci.methods.get(name)
            if m is None or m.is_abstract:
                continue
            n += 1
            res.touch(m)
            scope_ = [m] + [g for g in m.module.all_funcs if g.parent is m]  # closures handed to a helper (call_on_root(write)) count
            opens = [e for g in scope_ for e, _f in S.may(g) if e.kind == "fs" and e.op == "open" and e.mode and e.mode[0] in "wax"]
            if not opens:
                # a bound super() method kept in a local and called from the closure: parent = super().to_file
                opens = [1 for g in scope_ for x in ast.walk(g.node) if isinstance(x, ast.Attribute) and x.attr == name and isinstance(x.value, ast.Call) and isinstance(x.value.func, ast.Name) and x.value.func.id == "super" and any(e.kind == "fs" and e.op == "open" and e.mode and e.mode[0] in "wax" for b_ in prog.mro(ci)[1:] if hasattr(b_, "methods") and name in b_.methods for e, _f in S.may(b_.methods[name]))]
            # … and the opened handle is used: handed to a serialiser / written to (direct opens of this method only)
            unused = None
            for w_ in [x for x in ast.walk(m.node) if isinstance(x, ast.With)]:
                for it_ in w_.items:
                    if isinstance(it_.optional_vars, ast.Name) and isinstance(it_.context_expr, ast.Call) and any(isinstance(a_, ast.Constant) and isinstance(a_.value, str) and a_.value[:1] in "wax" for a_ in [*it_.context_expr.args, *[k.value for k in it_.context_expr.keywords]]):
                        h = it_.optional_vars.id
                        if not any(isinstance(y, ast.Name) and y.id == h and isinstance(y.ctx, ast.Load) for s_ in w_.body for y in ast.walk(s_)):
                            unused = (w_, h)
            if opens and unused is not None:
                res.violation("C11.R12", m, unused[0], f"{ci.name}.{name} opens its destination for writing as `{unused[1]}` but never hands the handle to a serialiser nor writes to it: an empty file is left behind, the call returns normally", key_extra=f"writer-handle-unused-{ci.name}-{name}")
            elif opens:
                res.ok("C11.R12", res.site(m), "opens its destination for writing")
            else:
                res.violation("C11.R12", m, m.node, f"{ci.name}.{name} never opens a file for writing (not itself, not through super() or a helper): nothing is stored, the call returns normally", key_extra=f"writer-writes-nothing-{ci.name}-{name}")
    if n < 4:
        raise AnalysisError(f"C11.R12: only {n} file writers found, minimum 4")


def rule_r13(prog, res) -> None:
    """members travel under their own name: when the HDF5 writer of a class stores component A of the object under the
    name n and the reader of the same class puts what it reads from n into component B, then A is B — decided on the
    symbolic stores of both (writer: the `data=` of create_dataset / the receiver of a nested to_hdf; reader: the
    attribute stored to, or the constructor parameter bound, on the current-format arm).  Only a cross-wiring is
    reported (B is itself written, or A itself read, under another name): a parameter that is merely named differently
    from the attribute it initialises is not"""
    from .. import symx

    n = 0
    for ci in prog.classes:
        w, r = ci.methods.get("to_hdf"), ci.methods.get("from_hdf")
        if w is None or r is None or w.is_abstract:
            continue
        res.touch(w)
        res.touch(r)
        me = w.param_names()[0]
        src = r.param_names()[1] if len(r.param_names()) > 1 else "source"

        def own_attrs(e) -> set:
            return {y.attr for y in ast.walk(e) if isinstance(y, ast.Attribute) and isinstance(y.value, ast.Name) and y.value.id == me}

        def names_read(e) -> set:
            out = set()
            for y in ast.walk(e):
                if isinstance(y, ast.Subscript) and isinstance(y.value, ast.Name) and y.value.id == src:
                    vals = _name_values(prog, r, y.slice)
                    if vals and len(vals) == 1:
                        out |= vals
                    else:
                        out.add(None)
            return out

        W: dict = {}
        for p in _hdf_paths(prog, w, None):
            for ev in p.calls():
                c = ev.expr
                if not isinstance(c.func, ast.Attribute):
                    continue
                if c.func.attr in ("create_dataset", "require_dataset") and c.args:
                    data = kwarg(c, "data") or (c.args[1] if len(c.args) > 1 else None)
                    vals = _name_values(prog, w, c.args[0])
                    if data is not None and vals and len(vals) == 1 and len(own_attrs(data)) == 1:
                        W.setdefault(next(iter(vals)), set()).update(own_attrs(data))
                elif c.func.attr == "to_hdf" and c.args and isinstance(c.args[0], ast.Call) and isinstance(c.args[0].func, ast.Attribute) and c.args[0].func.attr in ("create_group", "require_group") and c.args[0].args:
                    vals = _name_values(prog, w, c.args[0].args[0])
                    if vals and len(vals) == 1 and len(own_attrs(c.func.value)) == 1:
                        W.setdefault(next(iter(vals)), set()).update(own_attrs(c.func.value))
        T: dict = {}
        for p in _hdf_paths(prog, r, False):
            if p.outcome != "return":
                continue
            for k, v in p.store.items():
                if isinstance(k, str) and "." in k and isinstance(v, ast.AST):
                    nr = names_read(v)
                    if len(nr) == 1 and None not in nr:
                        T.setdefault(next(iter(nr)), set()).add(k.rsplit(".", 1)[1])
            if isinstance(p.value, ast.Call):
                bound = [(k_.arg, k_.value) for k_ in p.value.keywords if k_.arg]
                for ev in p.calls():
                    if ev.expr is p.value or unparse(ev.expr) == unparse(p.value):
                        pos = getattr(ev.node, "_kwpos", None) or {}
                        bound += [(q, p.value.args[i]) for q, i in pos.items() if i < len(p.value.args)]
                for q, a in bound:
                    nr = names_read(a)
                    if len(nr) == 1 and None not in nr:
                        T.setdefault(next(iter(nr)), set()).add(q)
        both = sorted(set(W) & set(T))
        if not both:
            continue
        n += 1
        written_attrs = {a for v in W.values() for a in v}
        read_attrs = {b for v in T.values() for b in v}
        bad = [(nm, sorted(W[nm])[0], sorted(T[nm])[0]) for nm in both if len(W[nm]) == 1 and len(T[nm]) == 1 and W[nm] != T[nm] and (next(iter(T[nm])) in written_attrs or next(iter(W[nm])) in read_attrs)]
        if bad:
            nm, a, b = bad[0]
            res.violation("C11.R13", w, w.node, f"{ci.name}.to_hdf stores `{me}.{a}` under the name '{nm}', from which from_hdf fills `{b}`: the component comes back in another place, a file just written is read back as a different object", key_extra=f"hdf-member-cross-wired-{ci.name}-{nm}")
        else:
            res.ok("C11.R13", res.site(w, "member names"), f"{len(both)} member(s) {both} are written from and read into the same component")
    if n < 3:
        raise AnalysisError(f"C11.R13: only {n} classes whose HDF5 writer and reader could be matched member by member, minimum 3")


RULES = [
    ("C11.R1", rule_r1, QUICK),
    ("C11.R2", rule_r2, QUICK),
    ("C11.R3", rule_r3, QUICK),
    ("C11.R4", rule_r4, QUICK),
    ("C11.R5", rule_r5, QUICK),
    ("C11.R6", rule_r6, QUICK),
    ("C11.R7", rule_r7, QUICK),
    ("C11.R8", rule_r8, QUICK),
    ("C11.R9", rule_r9, QUICK),
    ("C11.R10", rule_r10, QUICK),
    ("C11.R11", rule_r11, QUICK),
    ("C11.R12", rule_r12, QUICK),
    ("C11.R13", rule_r13, QUICK),
]
