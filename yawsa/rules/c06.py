"""C06 — MPI runs terminate and the root rank gets the single-process result (protocol rules).

All rules run on the `mpi` variant of the program, which no test in this sandbox can import.
R1 collectives on the world communicator are not under rank-dependent control (here or in callers).
R2 point-to-point matching: every send(tag, communicator class) has a receive and vice versa.
R3 wildcard receive loops that stop at the first sentinel are sound only if every data sender sends
   its own sentinel after its data (per-sender FIFO) or the loop counts one sentinel per sender.
R4 every consumer of the parallel iterator runs it to exhaustion (the trailing barrier is reached).
R5 dispatcher counter discipline (task/sentinel sends vs. active-worker counter).
R6 values computed on the root rank only are broadcast before any unguarded use.
"""

from __future__ import annotations

import ast

from ..cfg import cfg_of
from ..dataflow import all_def_values, reaching_defs, depends_on
from ..effects import MPI_COLLECTIVES, Unknown, ceval, classify_call, is_mpi_receiver
from ..model import AnalysisError, FuncInfo, dotted, norm_stmt, unparse, walk_no_nested
from .c05 import SOURCE_NAMES, _is_source_call, _passthrough_classes
from .common import QUICK, calls_in, const_value, kwarg, parents_map, resolves_to_class

EXPLANATION = (
    "Static protocol analysis of the MPI arm (variant `mpi`: the `if parallel.use_mpi():` branch of catalog.py and the "
    "mpi4py code paths of parallel.py), which cannot be imported or executed in this sandbox. MPI calls are identified "
    "through the receiver (parallel.COMM, MPI.COMM_WORLD, parameters annotated Comm, aliases such as "
    "`recv = parallel.COMM.recv`). R1 uses control dependence (dominating branch nodes) inside each function and up "
    "the call graph (bound 4) to show that no world-communicator collective is guarded by a rank-dependent predicate "
    "unless both branches perform the same collective. R2 builds the tag/communicator tables. R3 checks the sentinel "
    "discipline of wildcard receives against what the MPI standard guarantees (non-overtaking per sender pair only). "
    "R4-R6 are CFG/def-use rules. Deadlock freedom in general and equality with the single-process run are NOT decided."
    " R7 also requires that dispatcher and root-local fallback consume one shared one-shot iterator; R8-R11: pass-through iterators hand every item through on every rank, every non-root rank enters the worker loop, rank-divergent raises before collectives, contiguous buffers for upper-case collectives; R12: every path from a rank-guarded file write to the function exit passes a world barrier / broadcast; R3 folds the counting loop's test (false at 0 active senders); R6 checks the broadcast root."
)
ASSUMPTIONS = [
    "MPI guarantees non-overtaking only between one sender and one receiver on one communicator and tag; a wildcard receive may match any sender's pending message",
    "mpi4py send() is a standard-mode send: it may complete locally (eager/buffered) before the message is received; a barrier among senders does not flush it",
    "a collective must be called by every rank of its communicator; Comm.Split creates a communicator of exactly the ranks passing the same colour",
]

WORLD = "WORLD"
SUB = "SUB"


def _mpi_funcs(prog):
    return [f for f in prog.funcs if f.variant in (None, "mpi")]


_INL: dict = {}


def _mpi_funcs_inl(prog):
    """the MPI-arm functions with their same-module helpers and closures expanded in place (see yawsa.inline): a
    send / receive that was moved into a helper is seen where it happens, with the communicator, tag and payload
    of that call site.  Helpers that were expanded everywhere they are called are not listed on their own."""
    key = prog.uid
    if key in _INL:
        return _INL[key]
    from ..inline import inlined

    keep = {"iter_unordered", "_mpi_iter_unordered", "_mpi_root_task", "_mpi_worker_task", "write_patches", "scatter_data_chunk", "chunk_processing_task", "writer_task", "load_patches", "create_patch_centers", "bcast_array", "bcast_instance", "get_bcast_method", "ranks_on_same_node", "world_to_comm_rank", "on_root", "on_worker", "get_size", "use_mpi", "split_into_patches", "get_patch_centers"}
    funcs = _mpi_funcs(prog)
    mpi_ops = ("send", "recv", "bcast", "Bcast", "Barrier", "gather", "Split")
    has_mpi = {
        f
        for f in funcs
        if any((isinstance(c.func, ast.Attribute) and c.func.attr in mpi_ops) or any(k.arg in ("tag", "source", "dest", "root") for k in c.keywords) for c in calls_in(f))
    }  # (a communicator method handed over as a callable is called with the message keywords)
    out = []
    expanded_names = set()
    for f in funcs:
        if f.parent is not None:
            continue
        g = inlined(prog, f, keep=keep, only={h.name for h in has_mpi} - keep, desugar=True)
        expanded_names |= set(getattr(g, "inlined_helpers", []))
        out.append(g)
    for f in funcs:
        if f.parent is not None and f.qualname not in expanded_names:
            out.append(f)
    # a helper that was expanded into its callers is dropped when it performs MPI calls itself and is not a kept anchor
    out = [g for g in out if not (g.qualname in expanded_names and g.name not in keep and getattr(g, "origin", g) in has_mpi)]
    _INL[key] = out
    return out


def _comm_class(prog, fi: FuncInfo, recv: ast.AST) -> str:
    d = dotted(recv) or ""
    last = d.split(".")[-1]
    if last in ("COMM", "COMM_WORLD"):
        return WORLD
    if isinstance(recv, ast.Name):
        # parameter with default COMM -> world unless a caller passes a split communicator
        a = fi.node.args
        allp = [*a.posonlyargs, *a.args, *a.kwonlyargs]
        defaults = dict(zip([p.arg for p in a.args][len(a.args) - len(a.defaults) :], a.defaults))
        defaults.update({p.arg: d_ for p, d_ in zip(a.kwonlyargs, a.kw_defaults) if d_ is not None})
        if recv.id in defaults and (dotted(defaults[recv.id]) or "").split(".")[-1] == "COMM":
            return WORLD
        vals = [v for v in all_def_values(fi.node, recv.id) if v is not None]
        if any("Split" in unparse(v) or "get_comm" in unparse(v) for v in vals):
            return SUB
        if len(vals) == 1 and isinstance(vals[0], (ast.Name, ast.Attribute)) and unparse(vals[0]) != recv.id:
            return _comm_class(prog, fi, vals[0])  # a local that stands for another communicator expression
        if recv.id in [p.arg for p in allp]:
            return SUB
    return SUB


def _mpi_calls(prog, fi: FuncInfo):
    """[(call, op, communicator class)] incl. aliased bound methods"""
    out = []
    env = prog.func_env(fi)
    for c in calls_in(fi):
        f = c.func
        if isinstance(f, ast.Name):
            al = env.alias_of(f.id)
            if al is not None and isinstance(al, ast.Attribute):
                f = al
        elif isinstance(f, ast.Attribute) and isinstance(f.value, ast.Name) and f.value.id == "self" and fi.cls is not None and f.attr not in fi.cls.methods:
            # an instance attribute that holds a bound communicator method (`self._recv = COMM.recv`, stored once)
            stores = [x.value for m in fi.cls.methods.values() for x in walk_no_nested(m.node) if isinstance(x, ast.Assign) and any(isinstance(t_, ast.Attribute) and isinstance(t_.value, ast.Name) and t_.value.id == "self" and t_.attr == f.attr for t_ in x.targets)]
            if len(stores) == 1 and isinstance(stores[0], ast.Attribute):
                f = stores[0]
        if isinstance(f, ast.Attribute) and f.attr in ("send", "recv", "bcast", "Bcast", "Barrier", "gather", "Split", "Free", "scatter", "allgather", "isend", "irecv") and is_mpi_receiver(prog, fi, f.value):
            out.append((c, f.attr, _comm_class(prog, fi, f.value)))
    return out


def _rank_dependent(prog, fi: FuncInfo, test: ast.AST) -> bool:
    for x in ast.walk(test):
        if isinstance(x, ast.Call):
            fn = (dotted(x.func) or "").split(".")[-1]
            if fn in ("on_root", "on_worker", "Get_rank"):
                return True
        if isinstance(x, ast.Name) and "rank" in x.id.lower():
            vals = [v for v in all_def_values(fi.node, x.id) if v is not None]
            if any("Get_rank" in unparse(v) for v in vals) or x.id in ("rank",):
                return True
    return False


def _collectives_in(prog, stmts, fi) -> list[str]:
    out = []
    for st in stmts:
        for x in ast.walk(st):
            if isinstance(x, ast.Call) and isinstance(x.func, ast.Attribute) and x.func.attr in MPI_COLLECTIVES and is_mpi_receiver(prog, fi, x.func.value):
                out.append(f"{x.func.attr}")
    return sorted(out)


def _world_collective_funcs(prog) -> dict:
    """functions that (transitively, through precisely resolved calls) perform a world collective"""
    direct = {}
    for f in _mpi_funcs(prog):
        ops = [(c, op) for c, op, k in _mpi_calls(prog, f) if op in MPI_COLLECTIVES and k == WORLD]
        if ops:
            direct[f] = ops
    reach = dict.fromkeys(direct, True)
    changed = True
    depth = 0
    while changed and depth < 4:
        changed = False
        depth += 1
        for f in _mpi_funcs(prog):
            if f in reach:
                continue
            for c in calls_in(f):
                tg = prog.resolve_call(f, c)
                if tg.precise and any(t in reach for t in tg.funcs()):
                    reach[f] = True
                    changed = True
                    break
    return reach


def _same_collectives_on_both_sides(prog, fi, test: ast.AST, coll_funcs) -> bool:
    """the ranks on which a rank test holds and the ranks on which it does not run through the same sequence of world
    collectives until the function ends (symbolic paths grouped by the polarity of the test): early-return forms of
    `value = … if on_root() else None; return bcast(value)`"""
    from .. import symx

    ttxt = unparse(test)
    neg = unparse(test.operand) if isinstance(test, ast.UnaryOp) and isinstance(test.op, ast.Not) else None
    try:
        paths = symx.explore(prog, fi, skip_tests=("logger",), inline=lambda *a_: False)
    except symx.TooManyPaths:
        return False
    seqs = {True: set(), False: set()}
    for p in paths:
        if p.outcome == "raise":
            continue
        pol = None
        for t, pl in p.literals():
            tt = unparse(t)
            if tt == ttxt:
                pol = pl
            elif neg is not None and tt == neg:
                pol = not pl
        if pol is None:
            # the decision as taken on this path, found by its syntax node (the store may have substituted its locals)
            for t, pl, node in p.conds:
                if node is test or getattr(node, "test", None) is test:
                    pol = pl
        if pol is None:
            continue
        ops = []
        for ev in p.calls():
            f_ = ev.expr.func
            if isinstance(f_, ast.Attribute) and f_.attr in MPI_COLLECTIVES and is_mpi_receiver(prog, ev.fi, ev.node.func.value if isinstance(ev.node.func, ast.Attribute) else f_.value):
                root = kwarg(ev.expr, "root")
                ops.append((f_.attr, unparse(root) if root is not None else ""))
            else:
                try:
                    tg = prog.resolve_call(ev.fi, ev.node)
                except Exception:  # noqa: BLE001
                    continue
                if tg.precise and any(t_ in coll_funcs for t_ in tg.funcs()):
                    ops.append(("call:" + tg.funcs()[0].name, ""))
        seqs[pol].add(tuple(ops))
    return bool(seqs[True]) and seqs[True] == seqs[False] and all(s_ for s_ in seqs[True])


def rule_r1(prog, res) -> None:
    """collective alignment"""
    n = 0
    coll_funcs = _world_collective_funcs(prog)
    for fi in _mpi_funcs(prog):
        calls = _mpi_calls(prog, fi)
        sites = [(c, op, WORLD) for c, op, k in calls if op in MPI_COLLECTIVES and k == WORLD]
        # calls into functions that perform world collectives count as collectives here
        for c in calls_in(fi):
            tg = prog.resolve_call(fi, c)
            if tg.precise and any(t in coll_funcs and t is not fi for t in tg.funcs()):
                sites.append((c, "call:" + tg.funcs()[0].name, WORLD))
        if not sites:
            continue
        res.touch(fi)
        cfg = cfg_of(fi.node)
        pm = parents_map(fi.node)
        for c, op, _ in sites:
            n += 1
            bad = None
            for nd in cfg.node_containing(c):
                for d in cfg.dom_chain(nd):
                    if d.kind != "branch" or not _rank_dependent(prog, fi, d.test.expr):
                        continue
                    # both branches performing the same collectives is fine (e.g. Split with two colours)
                    st = d.test.ast
                    if isinstance(st, ast.If) and _collectives_in(prog, st.body, fi) == _collectives_in(prog, st.orelse, fi) and _collectives_in(prog, st.body, fi):
                        continue
                    if _same_collectives_on_both_sides(prog, fi, d.test.expr, coll_funcs):
                        continue  # e.g. `if not on_root(): return bcast(None)` followed by `return bcast(value)`
                    bad = d
            # generator functions: a collective after a yield-loop is reached only on exhaustion (R4)
            if bad is not None:
                res.violation(
                    "C06.R1",
                    fi,
                    c,
                    f"collective {op} on the world communicator is control-dependent on the rank-dependent test `{unparse(bad.test.expr)}`: ranks on the other branch never enter it and the collective blocks forever",
                    key_extra=f"collective-{op}-under-rank-guard",
                )
            else:
                res.ok("C06.R1", res.site(fi, norm_stmt(c)[:50]), "not under rank-dependent control in this function")
    if n < 20:
        raise AnalysisError(f"C06.R1: only {n} world-collective sites found on the MPI variant, minimum 20")


def rule_r2(prog, res) -> None:
    """point-to-point tag / communicator matching"""
    sends, recvs = {}, {}
    for fi in _mpi_funcs_inl(prog):
        for c, op, k in _mpi_calls(prog, fi):
            if op not in ("send", "recv", "isend", "irecv"):
                continue
            t = kwarg(c, "tag")
            if t is not None:
                # a module-level constant (e.g. _TAG_TASK = 1) or a class-level one (self.PATCH_TAG, WorkerManager.PATCH_TAG)
                t = const_value(prog, fi, t) or t
            tag = t.value if isinstance(t, ast.Constant) else ("?" if t is not None else 0)
            (sends if "send" in op else recvs).setdefault((k, tag), []).append((fi, c))
            res.touch(fi)
    if len(sends) < 3 or len(recvs) < 3:
        raise AnalysisError(f"C06.R2: tag tables too small (sends {sorted(map(str, sends))}, recvs {sorted(map(str, recvs))})")
    for key, lst in sends.items():
        if key in recvs:
            res.ok("C06.R2", f"send tag={key[1]} on {key[0]}", f"{len(lst)} send site(s) matched by {len(recvs[key])} receive site(s)")
        else:
            fi, c = lst[0]
            res.violation("C06.R2", fi, c, f"messages sent with tag={key[1]} on the {key[0]} communicator are never received with that tag: the receiver blocks forever on another tag / the message is lost", key_extra=f"unmatched-send-{key[0]}-{key[1]}")
    for key, lst in recvs.items():
        if key not in sends:
            fi, c = lst[0]
            res.violation("C06.R2", fi, c, f"a receive waits for tag={key[1]} on the {key[0]} communicator but nothing is ever sent with that tag: the rank blocks forever", key_extra=f"unmatched-recv-{key[0]}-{key[1]}")
    # each worker answers every task: recv(tag a) loop body sends exactly one result
    wt = prog.func("_mpi_worker_task")
    res.touch(wt)
    wt = next((g for g in _mpi_funcs_inl(prog) if g.name == "_mpi_worker_task"), wt)  # communicator methods bound to a local / partial expanded
    cfg = cfg_of(wt.node)
    calls_wt = _mpi_calls(prog, wt)

    def nodes_with(opname):
        return [n for n in cfg.nodes if any(op == opname for c, op, k in calls_wt if any(x is c for x in ast.walk(n.expr or ast.Pass())))]

    rn, sn = nodes_with("recv"), nodes_with("send")
    if rn and sn:
        # from a receive, no way back to a receive that avoids every send (the sentinel leaves the loop instead)
        unanswered = None
        for r in rn:
            nxt = [cfg.nodes[j] for j, lab in cfg.succ[r.id] if lab != "e"]
            skip = cfg.reach(nxt, avoid=lambda x: x in sn, labels={"n", "t", "f", "loop", "exh"})
            if any(x.id in skip for x in rn):
                unanswered = r
        if unanswered is not None:
            res.violation("C06.R2", wt, wt.node, "a worker can take a task without sending a result back: the dispatcher waits for it forever", key_extra="worker-no-result")
        else:
            res.ok("C06.R2", res.site(wt), "every received task is answered by exactly one result message")
    else:
        raise AnalysisError("C06.R2: worker loop not recognised")


def _is_sentinel(prog, fi, e: ast.AST) -> bool:
    return resolves_to_class(prog, fi, e, "EndOfQueue")


def rule_r3(prog, res) -> None:
    """wildcard-receive sentinel discipline"""
    n = 0
    # all sends grouped by (class, tag): data vs sentinel, with the rank guard of the send
    sends = []
    for fi in _mpi_funcs_inl(prog):
        for c, op, k in _mpi_calls(prog, fi):
            if op != "send" or not c.args:
                continue
            t = kwarg(c, "tag")
            tag = t.value if isinstance(t, ast.Constant) else None
            sends.append((fi, c, k, tag, _is_sentinel(prog, fi, c.args[0])))
            # a message goes to the rank it is meant for: the destination is named (left out, mpi4py sends to rank 0 —
            # the message meant for a worker / the writer rank arrives at the root, which never receives it or takes
            # it for something else; the intended receiver waits forever)
            if kwarg(c, "dest") is None and len(c.args) < 2:
                res.violation("C06.R3", fi, c, f"`{norm_stmt(c)[:60]}` names no destination: mpi4py sends to rank 0 by default, the rank this message is meant for never gets it (it blocks in its receive) and rank 0 gets a message it does not expect", key_extra=f"send-without-dest-{fi.name}")
            else:
                res.ok("C06.R3", res.site(fi, norm_stmt(c)[:40]), "destination named", nontrivial=False)
    for fi in _mpi_funcs_inl(prog):
        env = prog.func_env(fi)
        for c, op, k in _mpi_calls(prog, fi):
            if op != "recv":
                continue
            src = kwarg(c, "source") or (c.args[1] if len(c.args) > 1 else None)
            if src is not None and "ANY_SOURCE" not in unparse(src):
                continue  # (no source at all is mpi4py's default: ANY_SOURCE)
            n += 1
            res.touch(fi)
            t = kwarg(c, "tag")
            tag = t.value if isinstance(t, ast.Constant) else None
            pm = parents_map(fi.node)
            # is it the test of a while loop that stops at the first sentinel?
            cur = c
            stops_at_sentinel = False
            while id(cur) in pm:
                cur = pm[id(cur)]
                if isinstance(cur, ast.While) and any(x is c for x in ast.walk(cur.test)) and "EndOfQueue" in unparse(cur.test):
                    stops_at_sentinel = True
                if isinstance(cur, ast.stmt):
                    break
            # protocol families are per module (tasks/results in parallel.py, splits/patches in catalog.py)
            data = [(f, s) for f, s, kk, tg_, sen in sends if kk == k and tg_ == tag and not sen and f.module is fi.module]
            sent = [(f, s) for f, s, kk, tg_, sen in sends if kk == k and tg_ == tag and sen and f.module is fi.module]
            if not stops_at_sentinel:
                if fi.name == "_mpi_root_task":
                    res.ok("C06.R3", res.site(fi, norm_stmt(c)[:50]), "wildcard receive in the dispatcher's counting loop (termination by counter, see R5)")
                    continue
                _counting_receiver(prog, res, fi, c, k, tag, sends)
                continue
            if not data or not sent:
                raise AnalysisError(f"C06.R3: cannot find data/sentinel senders for the wildcard receive in {fi.short}")
            # a loop that stops at the FIRST sentinel is sound only for a single sending rank: the function that
            # sends the data must run under an equality guard on the rank, not under a membership test
            multi = False
            for f, s in data:
                for g in _mpi_funcs(prog):
                    gcfg = None
                    for cc in calls_in(g):
                        if f in prog.resolve_call(g, cc).funcs():
                            gcfg = gcfg or cfg_of(g.node)
                            for nd in gcfg.node_containing(cc):
                                gs = [(t, pol) for t, pol in gcfg.guards(nd) if _rank_dependent(prog, g, t)]
                                single = any(pol and isinstance(t, ast.Compare) and len(t.ops) == 1 and isinstance(t.ops[0], ast.Eq) for t, pol in gs)
                                if not single:
                                    multi = True
            if multi:
                dfs = sorted({f.short for f, _ in data})
                res.violation(
                    "C06.R3",
                    fi,
                    c,
                    f"the receive loop stops at the FIRST EndOfQueue although data on tag {tag} are sent by several ranks ({dfs}): the first sender's sentinel ends the loop while "
                    "other ranks' patch messages are still pending; their records are never written",
                    key_extra=f"recv-any-source-tag{tag}-single-sentinel",
                )
                continue
            # sound iff every function that sends data also sends the sentinel after its data loop
            ok = True
            for f, s in data:
                own = [ss for ff, ss in sent if ff is f]
                if not own:
                    ok = False
                    continue
                cfg = cfg_of(f.node)
                dn, snn = cfg.node_containing(s), cfg.node_containing(own[0])
                if not (dn and snn and all(x.id in cfg.reach([d]) for d in dn for x in snn) and not any(d.id in cfg.reach([x]) for d in dn for x in snn)):
                    ok = False
            if ok:
                res.ok("C06.R3", res.site(fi, norm_stmt(c)[:50]), "every data sender sends its own sentinel after its data (per-sender FIFO)")
            else:
                dfs = sorted({f.short for f, _ in data})
                sfs = sorted({f.short for f, _ in sent})
                res.violation(
                    "C06.R3",
                    fi,
                    c,
                    f"the receive loop stops at the FIRST EndOfQueue, but data on tag {tag} are sent by every rank running {dfs} while the single sentinel comes from {sfs} "
                    "after a barrier among the senders: with eager sends the standard allows the sentinel to be matched before another rank's pending data message, whose records are then never written",
                    key_extra=f"recv-any-source-tag{tag}-single-sentinel",
                )
    if n < 2:
        raise AnalysisError(f"C06.R3: only {n} wildcard receives found, minimum 2")


def _counting_receiver(prog, res, fi, c, k, tag, sends) -> None:
    """wildcard receive in a loop that counts one sentinel per sender"""
    fn = fi.node
    cfg = cfg_of(fn)
    loops = [x for x in walk_no_nested(fn) if isinstance(x, ast.While) and any(y is c for y in ast.walk(x))]
    if not loops:
        # a single receive of a single message: the sentinel discipline does not apply; sound when all senders of the
        # tag are one rank (an equality guard on the rank around every such send of the module)
        snd = [(f, s) for f, s, kk, tg_, _sen in sends if kk == k and tg_ == tag and f.module is fi.module]
        one_rank = bool(snd)
        for f, s in snd:
            fcfg = cfg_of(f.node)
            for nd in fcfg.node_containing(s):
                gs = [(t, pol) for t, pol in fcfg.guards(nd) if _rank_dependent(prog, f, t)]
                if not any(pol and isinstance(t, ast.Compare) and len(t.ops) == 1 and isinstance(t.ops[0], ast.Eq) for t, pol in gs):
                    one_rank = False
        if one_rank:
            res.ok("C06.R3", res.site(fi, norm_stmt(c)[:50]), f"single receive; every send on tag {tag} of the module runs on one rank (equality guard)", nontrivial=False)
            return
        raise AnalysisError(f"C06.R3: wildcard receive in {fi.short} is not inside a while loop")
    lp = loops[0]
    names = [n.id for n in ast.walk(lp.test) if isinstance(n, ast.Name)]
    # `while True: if not <cond>: break`: the loop condition is the test of the break
    for x in ast.walk(lp):
        if isinstance(x, ast.If) and any(isinstance(y, ast.Break) for y in x.body + x.orelse):
            names += [n.id for n in ast.walk(x.test) if isinstance(n, ast.Name)]
    decs = [x for x in ast.walk(lp) if isinstance(x, ast.AugAssign) and isinstance(x.op, ast.Sub) and isinstance(x.target, ast.Name) and x.target.id in names and isinstance(x.value, ast.Constant) and x.value.value == 1]
    if len(decs) != 1:
        res.violation("C06.R3", fi, c, "the receive loop neither stops at a sentinel nor counts one sentinel per sender", key_extra="recv-loop-no-termination-rule")
        return
    counter = decs[0].target.id
    # the decrement happens exactly when the received payload is the sentinel
    ok_branch = False
    for x in ast.walk(lp):
        if isinstance(x, ast.If) and "EndOfQueue" in unparse(x.test):
            in_body = any(y is decs[0] for s in x.body for y in ast.walk(s))
            in_else = any(y is decs[0] for s in x.orelse for y in ast.walk(s))
            is_pos = isinstance(x.test, ast.Compare) and isinstance(x.test.ops[0], (ast.Is, ast.Eq))
            # the other branch hands the payload on (to the writer, or to the consumer of this generator)
            other_arm = list(x.orelse if in_body else x.body)
            if not other_arm:
                # `if sentinel: …; continue` followed by the hand-over: the rest of the block is the other arm
                pmx = parents_map(fn)
                blk = None
                par = pmx.get(id(x))
                for attr in ("body", "orelse"):
                    if isinstance(getattr(par, attr, None), list) and x in getattr(par, attr):
                        blk = getattr(par, attr)
                arm = x.body if in_body else x.orelse
                if blk is not None and arm and isinstance(arm[-1], (ast.Continue, ast.Break, ast.Return)):
                    other_arm = blk[blk.index(x) + 1 :]
            proc_other = [
                s
                for s in other_arm
                if any((isinstance(y, ast.Call) and isinstance(y.func, ast.Attribute) and y.func.attr == "process_patches") or isinstance(y, (ast.Yield, ast.YieldFrom)) for y in ast.walk(s))
            ]
            if ((in_body and is_pos) or (in_else and not is_pos)) and proc_other:
                ok_branch = True
            if not in_body and not in_else and not x.orelse and x.body and isinstance(x.body[-1], (ast.Continue,)):
                # mirrored form: `if payload is not SENTINEL: hand over; continue` and the decrement in the rest of the block
                pmx = parents_map(fn)
                par = pmx.get(id(x))
                for attr in ("body", "orelse"):
                    blk = getattr(par, attr, None)
                    if isinstance(blk, list) and x in blk:
                        rest = blk[blk.index(x) + 1 :]
                        dec_after = any(y is decs[0] for s_ in rest for y in ast.walk(s_))
                        hands_on = any((isinstance(y, ast.Call) and isinstance(y.func, ast.Attribute) and y.func.attr == "process_patches") or isinstance(y, (ast.Yield, ast.YieldFrom)) for s_ in x.body for y in ast.walk(s_))
                        if dec_after and hands_on and not is_pos:
                            ok_branch = True
    # initial value = number of sending ranks
    init = [v for v in all_def_values(fn, counter) if v is not None and not isinstance(v, ast.BinOp)]
    if init and isinstance(init[0], ast.Name) and init[0].id not in fi.param_names():
        # a local that was bound to the parameter (e.g. the binding of an expanded helper)
        from .common import expand_locals

        init = [expand_locals(fn, init[0], set(fi.param_names()), depth=4)]
    src_param = init[0].id if init and isinstance(init[0], ast.Name) and init[0].id in fi.param_names() else None
    ok_init = False
    callers_checked = 0

    def arg_origins(f, param, depth=3):
        """argument expressions bound to `param` of f over all call sites (a parameter handed through is followed)"""
        out = []
        pos = [p for p in f.param_names() if p not in ("self", "cls")]
        for g in _mpi_funcs(prog):
            for cc in calls_in(g):
                if getattr(f, "origin", f) not in prog.resolve_call(g, cc).funcs():
                    continue
                a = kwarg(cc, param)
                if a is None and param in pos and pos.index(param) < len(cc.args):
                    a = cc.args[pos.index(param)]
                if a is None and any(kw.arg is None for kw in cc.keywords):
                    # keywords collected in a dict and spread into the call: read them from the symbolic store
                    from .. import symx

                    vals = set()
                    found = []
                    try:
                        for p_ in symx.explore(prog, g, skip_tests=("logger",)):
                            for ev in p_.calls():
                                if ev.node is cc and kwarg(ev.expr, param) is not None and unparse(kwarg(ev.expr, param)) not in vals:
                                    vals.add(unparse(kwarg(ev.expr, param)))
                                    found.append(kwarg(ev.expr, param))
                    except symx.TooManyPaths:
                        found = []
                    if len(found) == 1:
                        a = found[0]
                if a is None:
                    out.append(None)
                elif isinstance(a, ast.Name) and a.id in g.param_names() and depth > 0:
                    out.extend(arg_origins(g, a.id, depth - 1))
                else:
                    out.append(a)
        return out

    if src_param:
        origins = arg_origins(fi, src_param)
        callers_checked = len(origins)
        if origins and all(a is not None and isinstance(a, ast.Call) and isinstance(a.func, ast.Name) and a.func.id == "len" and "active_ranks" in unparse(a) for a in origins):
            ok_init = True
    # every data sender sends exactly one sentinel after its data, on every path
    data = [(f, s) for f, s, kk, tg_, sen in sends if kk == k and tg_ == tag and not sen and f.module is fi.module]
    sent = [(f, s) for f, s, kk, tg_, sen in sends if kk == k and tg_ == tag and sen and f.module is fi.module]
    ok_send = bool(data)
    for f, s in data:
        own = [ss for ff, ss in sent if ff is f]
        if len(own) != 1:
            ok_send = False
            continue
        cf = cfg_of(f.node)
        dn, sn = cf.node_containing(s), cf.node_containing(own[0])
        after = cf.reach(dn, avoid=lambda x: x in sn, labels={"n", "t", "f", "loop", "exh"})
        in_loop = any(x.id in cf.reach([cf.nodes[j] for j, _ in cf.succ[x.id]]) for x in sn)
        if cf.exit.id in after or in_loop:
            ok_send = False
    foreign = [(f, s) for f, s in sent if not any(ff is f for ff, _ in data)]
    if foreign:
        ok_send = False
    # the loop ends when the last sender has signed off: its test is false for a counter of 0 and true for 1, 2
    try:
        ttab = {v: bool(ceval(lp.test, {counter: v})) for v in (0, 1, 2)} if not (isinstance(lp.test, ast.Constant) and lp.test.value is True) else None
    except Unknown:
        ttab = None
    if ttab is not None and ttab != {0: False, 1: True, 2: True}:
        res.violation(
            "C06.R3",
            fi,
            lp,
            f"the receive loop `while {unparse(lp.test)}` is {ttab} for 0, 1, 2 senders still active: "
            + ("with no sender left it waits for another message that never comes (the rank blocks forever)" if ttab.get(0) else "it stops while a sender is still active (its remaining records are never written)"),
            key_extra=f"recv-loop-test-{fi.name}",
        )
        return
    if ok_branch and ok_init and ok_send:
        res.ok("C06.R3", res.site(fi, norm_stmt(c)[:50]), "one sentinel per sending rank: counter starts at len(active_ranks), is decremented only for sentinels, every sender sends its sentinel after its data (per-sender FIFO)")
    else:
        res.violation(
            "C06.R3",
            fi,
            c,
            f"sentinel counting of the wildcard receive is unsound (decrement only on sentinel: {ok_branch}; counter = number of sending ranks: {ok_init}; every sender sends exactly one sentinel after its data and nobody else does: {ok_send}): "
            "the writer stops early (records lost) or waits forever",
            key_extra=f"recv-any-source-tag{tag}-counting",
        )


def rule_r4(prog, res) -> None:
    """consumers run the parallel iterator to exhaustion"""
    passthrough = _passthrough_classes(prog)
    n = 0
    for fi in prog.funcs:
        if fi.name in SOURCE_NAMES:
            continue
        srcs = [c for c in calls_in(fi) if _is_source_call(prog, fi, c)]
        if not srcs:
            continue
        n += 1
        res.touch(fi)
        # helpers that receive the iterator are looked through (expanded in place)
        from ..inline import inlined

        orig_fi = fi
        try:
            fi = inlined(prog, fi, keep=set(SOURCE_NAMES))
        except Exception:  # noqa: BLE001
            fi = orig_fi
        srcs = [c for c in calls_in(fi) if _is_source_call(prog, fi, c)]
        names = set()
        for _ in range(3):
            for x in walk_no_nested(fi.node):
                if isinstance(x, ast.Assign) and isinstance(x.targets[0], ast.Name):
                    v = x.value
                    if v in srcs or (isinstance(v, ast.Call) and v.args and isinstance(v.args[0], ast.Name) and v.args[0].id in names) or (isinstance(v, ast.Name) and v.id in names):
                        names.add(x.targets[0].id)
        bad = None
        consumed = False
        for x in walk_no_nested(fi.node):
            if isinstance(x, ast.For) and isinstance(x.iter, (ast.Name, ast.Call)) and (
                (isinstance(x.iter, ast.Name) and x.iter.id in names) or any(isinstance(y, ast.Name) and y.id in names for y in ast.walk(x.iter))
            ):
                consumed = True
                for y in ast.walk(x):
                    if isinstance(y, (ast.Break, ast.Return)):
                        bad = y
            if isinstance(x, (ast.DictComp, ast.ListComp, ast.SetComp)) and any(isinstance(g.iter, ast.Name) and g.iter.id in names for g in x.generators):
                consumed = True
            if isinstance(x, ast.Call) and (dotted(x.func) or "") in ("deque", "list", "tuple", "sorted", "dict") and x.args and isinstance(x.args[0], ast.Name) and x.args[0].id in names:
                consumed = True
            if isinstance(x, ast.Call) and (dotted(x.func) or "") == "next" and x.args and isinstance(x.args[0], ast.Name) and x.args[0].id in names:
                bad = x
        if bad is not None:
            res.violation("C06.R4", fi, bad, "the parallel iterator is abandoned before exhaustion: worker ranks stay in their task loop / the trailing barrier is never reached by the root rank", key_extra="iterator-not-exhausted")
        elif consumed:
            res.ok("C06.R4", res.site(fi), "the iterator is consumed completely (no break / return / next)")
        else:
            raise AnalysisError(f"C06.R4: consumption of the parallel iterator in {fi.short} not recognised")
    if n < 4:
        raise AnalysisError(f"C06.R4: only {n} consumers found, minimum 4")
    it = prog.func("_mpi_iter_unordered")
    res.touch(it)
    cfg = cfg_of(it.node)
    bars = [nd for nd in cfg.nodes if any(op == "Barrier" for c, op, k in _mpi_calls(prog, it) if any(x is c for x in ast.walk(nd.expr or ast.Pass())))]
    skip = cfg.reach([cfg.entry], avoid=lambda x: x in bars, labels={"n", "t", "f", "loop", "exh"})
    if bars and cfg.exit.id not in skip:
        res.ok("C06.R4", res.site(it), "every normal completion of the generator passes the final barrier on root and workers")
    else:
        res.violation("C06.R4", it, it.node, "a rank can leave the parallel iterator without the final barrier", key_extra="iter-no-barrier")


def rule_r5(prog, res) -> None:
    """dispatcher counter discipline, decided per path through one iteration of each of the two loops of the
    dispatcher (symbolic store; helpers looked through; next() raising StopIteration and the failing assert are
    explored as their own paths): first pass — exactly one message per worker rank, the counter grows by one iff
    the message is a task; result loop — one receive, then exactly one message to that rank, the counter shrinks
    by one iff the message is the sentinel; the loop runs while the counter is positive"""
    from .. import symx

    rt0 = prog.func("_mpi_root_task")
    from ..inline import inlined

    rt = inlined(prog, rt0, only={h.name for h in _mpi_funcs(prog) if h.module is rt0.module and h.name.startswith("_mpi") and h is not rt0} - {"_mpi_worker_task", "_mpi_iter_unordered"}, desugar=True)
    res.touch(rt)
    fn = rt.node
    pm = parents_map(fn)
    fors = [x for x in walk_no_nested(fn) if isinstance(x, ast.For)]
    whiles = [x for x in walk_no_nested(fn) if isinstance(x, ast.While)]
    if not fors or not whiles:
        raise AnalysisError("C06.R5: the two loops of the dispatcher (first pass over the ranks, result loop) were not found")
    first, loop = fors[0], whiles[0]
    paths = symx.explore(prog, rt, inline=None)
    ok = True
    why = []
    sends = [(c, _is_sentinel(prog, rt, c.args[0])) for c, op, k in _mpi_calls(prog, rt) if op == "send" and c.args]
    sent_nodes = {id(c) for c, sen in sends if sen}
    task_nodes = {id(c) for c, sen in sends if not sen}

    def strip(e):
        return symx.strip_wrappers(e, (symx.LOOP,))

    def value(e):
        class T(ast.NodeTransformer):
            def visit_Call(self, n):
                n = self.generic_visit(n)
                return n.args[0] if isinstance(n.func, ast.Name) and n.func.id == symx.LOOP and n.args else n

        import copy

        return ceval(T().visit(copy.deepcopy(e)), {})

    counters = [x.target.id for x in walk_no_nested(fn) if isinstance(x, ast.AugAssign) and isinstance(x.target, ast.Name) and isinstance(x.value, ast.Constant) and x.value.value == 1]
    if not counters:
        raise AnalysisError("C06.R5: active-worker counter not found")
    counter = counters[0]
    n_first = n_loop = 0
    for p in paths:
        final = p.store.get(counter)
        if final is None:
            continue
        in_first = [ev for ev in p.calls("send") if id(first) in ev.loops and id(ev.node) in sent_nodes | task_nodes]
        in_loop = [ev for ev in p.calls("send") if id(loop) in ev.loops and id(ev.node) in sent_nodes | task_nodes]
        recvs = [ev for ev in p.calls("recv") if id(loop) in ev.loops]
        E = strip(final)
        inner = [y for y in ast.walk(E) if isinstance(y, ast.Call) and isinstance(y.func, ast.Name) and y.func.id == symx.LOOP]
        try:
            after_first = value(inner[0].args[0]) if (in_loop or recvs) and inner else value(E)
            total = value(E)
        except Unknown:
            raise AnalysisError(f"C06.R5: cannot fold the counter expression {unparse(final)[:60]}") from None
        if in_first or id(first) in {lid for ev in p.events for lid in ev.loops}:
            n_first += 1
            if len(in_first) != 1:
                ok = False
                why.append(f"a first-pass iteration sends {len(in_first)} messages to the rank instead of exactly one (every rank gets a task or a sentinel)")
            else:
                is_task = id(in_first[0].node) in task_nodes
                if after_first != (1 if is_task else 0):
                    ok = False
                    why.append("a first-pass task is sent without counting the worker as active: its result is never collected" if is_task else "an unused rank is counted as active although it only received the sentinel: the result loop waits for it forever")
        if recvs:
            n_loop += 1
            if len(in_loop) != 1:
                ok = False
                why.append(f"a result-loop iteration answers the served rank with {len(in_loop)} messages instead of exactly one")
            else:
                is_sent = id(in_loop[0].node) in sent_nodes
                delta = total - after_first
                if delta != (-1 if is_sent else 0):
                    ok = False
                    why.append("a sentinel is sent in the result loop without retiring the worker (counter not decremented): the loop never ends" if is_sent else "the counter is decremented although the worker received another task: the root stops before its result arrives")
    incs = [x for x in walk_no_nested(fn) if isinstance(x, (ast.AugAssign, ast.Assign)) and ((isinstance(x, ast.AugAssign) and isinstance(x.op, ast.Add) and isinstance(x.target, ast.Name) and x.target.id == counter) or (isinstance(x, ast.Assign) and any(isinstance(t, ast.Name) and t.id == counter for t in x.targets) and isinstance(x.value, ast.BinOp) and isinstance(x.value.op, ast.Add)))]
    if not incs and n_loop == 0:
        res.violation("C06.R5", rt, first, f"the dispatcher never counts a worker as active (`{counter}` is not incremented in the first pass): the result loop does not run, the tasks that were sent are never collected and the remaining ones never dispatched", key_extra="dispatcher-never-counts")
        return
    if n_first == 0 or n_loop == 0:
        raise AnalysisError(f"C06.R5: no path through the first pass ({n_first}) / the result loop ({n_loop}) of the dispatcher was explored")
    # tasks are taken from the iterator exactly where they are sent
    for c, sen in sends:
        if not sen and not (isinstance(c.args[0], ast.Call) and (dotted(c.args[0].func) or "") == "next"):
            ok = False
            why.append("a task send does not take its payload directly from next(iterable)")
    try:
        t = {v: bool(ceval(loop.test, {counter: v})) for v in (0, 1, 2)}
    except Unknown:
        t = None
    if t != {0: False, 1: True, 2: True}:
        # `while True: if not counter > 0: break`
        brk = [x for x in ast.walk(loop) if isinstance(x, ast.If) and any(isinstance(y, ast.Break) for y in x.body)]
        t2 = None
        for x in brk:
            try:
                t2 = {v: bool(ceval(x.test, {counter: v})) for v in (0, 1, 2)}
            except Unknown:
                continue
        if t2 != {0: True, 1: False, 2: False}:
            ok = False
            why.append("result loop does not run while the counter is positive")
    fl = [x for x in fors if "range(1" in unparse(x.iter)]
    if not fl:
        ok = False
        why.append("first pass over ranks 1..size-1 not found")
    if ok:
        res.ok("C06.R5", res.site(rt), f"counter +1 with each task send, -1 with each sentinel send; every rank gets a task or a sentinel; loop runs while workers are active ({n_first}+{n_loop} iteration paths)")
    else:
        res.violation("C06.R5", rt, fn, "dispatcher counter discipline broken: " + "; ".join(dict.fromkeys(why)) + " — workers are left waiting or the root stops early", key_extra="dispatcher-counter")
    # the destination is the rank of the enclosing loop: the first-pass loop variable, resp. the rank that was
    # just received together with a result (first element of the received tuple)
    def served_rank_names(loop) -> set:
        names = set()
        if isinstance(loop, ast.For):
            names |= {x.id for x in ast.walk(loop.target) if isinstance(x, ast.Name)}
        for x in ast.walk(loop):
            if isinstance(x, ast.Assign) and isinstance(x.targets[0], (ast.Tuple, ast.List)) and x.targets[0].elts and isinstance(x.targets[0].elts[0], ast.Name):
                if isinstance(x.value, ast.Call) and any(x.value is c_ for c_, op_, _k in _mpi_calls(prog, rt) if op_ == "recv"):
                    names.add(x.targets[0].elts[0].id)
        return names

    def dest_ok(c_) -> bool:
        d = kwarg(c_, "dest")
        for _ in range(4):  # a local that stands for another name (parameter of an expanded helper)
            if isinstance(d, ast.Name):
                vals = [v for v in all_def_values(fn, d.id) if v is not None]
                if len(vals) == 1 and isinstance(vals[0], ast.Name):
                    d = vals[0]
                    continue
            break
        if not isinstance(d, ast.Name):
            return False
        cur = c_
        while id(cur) in pm:
            cur = pm[id(cur)]
            if isinstance(cur, (ast.For, ast.While)):
                return d.id in served_rank_names(cur)
        return False

    if sends and all(dest_ok(c) for c, _ in sends):
        res.ok("C06.R5", res.site(rt, "dest"), "every task / sentinel goes to the rank it is meant for")
    else:
        res.violation("C06.R5", rt, fn, "a task or sentinel is not addressed to the rank just served", key_extra="dispatcher-dest")


BCAST_FAMILY = ("bcast", "Bcast", "bcast_instance", "bcast_array", "gather", "Gather", "allgather", "scatter")


def _placeholder(e) -> bool:
    return (isinstance(e, ast.Constant) and e.value is None) or unparse(e) in ("()", "set()", "[]", "{}")


def _designated_rank_oracle(designated: bool):
    """decides rank tests for 'this is the designated (root / writer / given) rank' resp. 'it is another rank'"""

    def oracle(e):
        if isinstance(e, ast.Call):
            nm = (dotted(e.func) or "").split(".")[-1]
            if nm == "on_root":
                return designated
            if nm == "on_worker":
                return not designated
        if isinstance(e, ast.Compare) and len(e.ops) == 1 and isinstance(e.ops[0], (ast.Eq, ast.NotEq)):
            sides = [e.left, e.comparators[0]]
            if any(isinstance(x, ast.Call) and (dotted(x.func) or "").split(".")[-1] == "Get_rank" for x in sides):
                return designated if isinstance(e.ops[0], ast.Eq) else not designated
        return None

    return oracle


def rule_r6(prog, res) -> None:
    """root-only values are broadcast before use.

    Every function with a rank test is explored twice, as the designated rank and as another rank;
    paths are paired by their remaining (rank-independent) decisions.  A read of a local whose
    substituted value is a placeholder (None, (), [], set()) on the other rank but a real value on
    the designated rank is a use of a root-only value: it must be the argument of a broadcast /
    gather, a comparison with None, a plain copy, or a bare `return` (then the function returns a
    root-only value and the same obligation is imposed on its callers)."""
    from .. import symx

    def has_rank_test(f) -> bool:
        return any(isinstance(x, ast.Call) and (dotted(x.func) or "").split(".")[-1] in ("on_root", "on_worker", "Get_rank") for x in ast.walk(f.node))

    returns_root_only: dict = {}  # FuncInfo -> Return node
    checked: set = set()
    n = 0

    def analyse(f) -> None:
        nonlocal n

        def watch(x):
            if isinstance(x, ast.Name) and isinstance(x.ctx, ast.Load):
                return True
            if isinstance(x, ast.Attribute) and isinstance(x.ctx, ast.Load) and isinstance(x.value, ast.Name):
                return True  # self.attr assigned on the root rank only
            return isinstance(x, ast.Call) and any(t in returns_root_only for t in prog.resolve_call(f, x).funcs())

        def call_value_other(fi, call, funcs):
            return ast.Constant(value=None) if any(t in returns_root_only for t in funcs) else None

        try:
            pr = symx.explore(prog, f, oracle=_designated_rank_oracle(True), watch=watch)
            pw = symx.explore(prog, f, oracle=_designated_rank_oracle(False), watch=watch, call_value=call_value_other)
        except symx.TooManyPaths as err:
            raise AnalysisError(f"C06.R6: {err}") from None
        by_conds: dict = {}
        for p in pr:
            vals = by_conds.setdefault(p.cond_text(), {})
            for ev in p.events:
                if ev.kind == "expr":
                    vals.setdefault(id(ev.node), []).append(ev.expr)
        hits: dict = {}
        for p in pw:
            vals = by_conds.get(p.cond_text())
            if vals is None:
                continue
            for ev in p.events:
                if ev.kind == "expr" and _placeholder(ev.expr):
                    rv = vals.get(id(ev.node), [])
                    if rv and any(not _placeholder(r) for r in rv):
                        hits.setdefault(id(ev.node), ev)
        if not hits:
            return
        parents = parents_map(f.node)
        per_name: dict = {}
        for ev in hits.values():
            node = ev.node
            name = node.id if isinstance(node, ast.Name) else unparse(node)[:40]
            par = parents.get(id(node))
            ctx = "use"
            if isinstance(par, ast.Call) and (node in par.args or any(k.value is node for k in par.keywords)):
                fnm = par.func.attr if isinstance(par.func, ast.Attribute) else (dotted(par.func) or "")
                if fnm in BCAST_FAMILY:
                    ctx = "bcast"
                    # … from the rank that holds the value: the root rank is rank 0 (parallel.on_root)
                    rt_ = kwarg(par, "root") or (par.args[1] if fnm in ("bcast", "Bcast") and len(par.args) > 1 else None)
                    if isinstance(rt_, ast.Constant) and rt_.value not in (0, None):
                        res.violation("C06.R6", f, par, f"`{node.id if isinstance(node, ast.Name) else unparse(node)[:30]}` is computed on the root rank (rank 0) but broadcast with root={rt_.value}: every rank, the root included, receives the placeholder of rank {rt_.value}", key_extra=f"bcast-root-{rt_.value}")
            elif isinstance(par, ast.Return):
                ctx = "return"
            elif isinstance(par, ast.Compare) and all(isinstance(o, (ast.Is, ast.IsNot)) for o in par.ops):
                ctx = "none-test"
            elif isinstance(par, (ast.Assign, ast.AnnAssign)) and par.value is node:
                ctx = "copy"
            elif isinstance(par, ast.Tuple) and isinstance(parents.get(id(par)), ast.Return):
                ctx = "return"
            per_name.setdefault(name, []).append((ctx, node))
        for name, uses in sorted(per_name.items()):
            n += 1
            res.touch(f)
            bad = [nd for c, nd in uses if c == "use"]
            if bad:
                res.violation(
                    "C06.R6",
                    f,
                    bad[0],
                    f"`{name}` is only computed on the root rank but used here by every rank without a dominating broadcast: worker ranks continue with the placeholder value",
                    key_extra=f"root-only-{name}",
                )
                continue
            rets = [nd for c, nd in uses if c == "return"]
            if rets and f not in returns_root_only:
                returns_root_only[f] = rets[0]
            kinds = sorted({c for c, _ in uses})
            res.ok("C06.R6", res.site(f, name), f"root-only value is only {'/'.join(kinds)} outside rank guards", nontrivial="bcast" in kinds)

    todo = [f for f in _mpi_funcs(prog) if has_rank_test(f)]
    for f in todo:
        analyse(f)
        checked.add(f)
    # functions returning a root-only value: the obligation moves to their callers (fixpoint, bounded)
    for _ in range(4):
        before = set(returns_root_only)
        callers = [f for f in _mpi_funcs(prog) if any(any(t in returns_root_only for t in prog.resolve_call(f, c).funcs()) for c in calls_in(f))]
        for f in callers:
            analyse(f)
        if set(returns_root_only) == before:
            break
    for f, ret in returns_root_only.items():
        res.ok("C06.R6", res.site(f, "returns root-only"), "returns a value that exists on the root rank only; every in-package caller was checked with the result treated as root-only", nontrivial=False)
    if n < 6:
        raise AnalysisError(f"C06.R6: only {n} root-only values found, minimum 6")
    # the array helper: every rank passes the buffer broadcast from rank 0 before the array is returned
    for ba in [f for f in _mpi_funcs(prog) if f.name == "bcast_array"]:
        res.touch(ba)
        bcfg = cfg_of(ba.node)
        bnodes = [nd for nd in bcfg.nodes if any(op == "Bcast" and any(x is c for x in ast.walk(nd.expr or ast.Pass())) for c, op, k in _mpi_calls(prog, ba))]
        rets_ = [nd for nd in bcfg.nodes if nd.kind == "stmt" and isinstance(nd.ast, ast.Return)]
        rank_guarded = [nd for nd in bnodes if any(_rank_dependent(prog, ba, t) for t, _pol in bcfg.guards(nd))]
        n += 1
        if bnodes and not rank_guarded and rets_ and all(any(bcfg.dominates(b_, r_) for b_ in bnodes) for r_ in rets_):
            roots = [kwarg(c, "root") for c, op, k in _mpi_calls(prog, ba) if op == "Bcast"]
            if all(r_ is None or (isinstance(r_, ast.Constant) and r_.value == 0) for r_ in roots):
                res.ok("C06.R6", res.site(ba), "the buffer is broadcast from rank 0 on every path before the array is returned")
            else:
                res.violation("C06.R6", ba, ba.node, "bcast_array broadcasts the buffer from another rank than 0, where the data are", key_extra="bcast-array-root")
        else:
            res.violation("C06.R6", ba, ba.node, "bcast_array can return without the buffer broadcast (Bcast) on every rank: the worker ranks keep an uninitialised array of the right shape — every number computed from it on those ranks is garbage, silently", key_extra="bcast-array-no-bcast")
    # buffer form: array filled on root only, Bcast before it is read
    hc = prog.func("HistData.from_catalog")
    res.touch(hc)
    cfg = cfg_of(hc.node)
    bn = [nd for nd in cfg.nodes if any(op == "Bcast" for c, op, k in _mpi_calls(prog, hc) if any(x is c for x in ast.walk(nd.expr or ast.Pass())))]
    rets = [nd for nd in cfg.nodes if nd.kind == "stmt" and isinstance(nd.ast, ast.Return)]
    if bn and all(any(cfg.dominates(b, r) for b in bn) for r in rets):
        buf = next(c for c, op, k in _mpi_calls(prog, hc) if op == "Bcast").args[0]
        if all(any(isinstance(y, ast.Name) and y.id == unparse(buf) for y in ast.walk(r.ast)) for r in rets):
            res.ok("C06.R6", res.site(hc, "Bcast(counts)"), "the buffer filled on the root rank is broadcast before the result is built from it")
        else:
            res.violation("C06.R6", hc, rets[0].ast, "the result is not built from the broadcast buffer", key_extra="hist-bcast-buffer")
    else:
        res.violation("C06.R6", hc, hc.node, "histogram counts gathered on the root rank are not broadcast before use", key_extra="hist-no-bcast")


def rule_r3b(prog, res) -> None:
    """when the sentinel is sent by another rank than the data, a barrier among the data senders separates the two"""
    n = 0
    for fi in _mpi_funcs_inl(prog):
        if fi.variant != "mpi":
            continue
        calls = _mpi_calls(prog, fi)
        data = [c for c, op, k in calls if op == "send" and k == WORLD and c.args and not _is_sentinel(prog, fi, c.args[0]) and fi.module.name.endswith("catalog")]
        if not data:
            continue
        own_sentinel = [c for c, op, k in calls if op == "send" and k == WORLD and c.args and _is_sentinel(prog, fi, c.args[0])]
        if own_sentinel:
            n += 1
            res.ok("C06.R3", res.site(fi, "own sentinel"), "this data sender sends its own end-of-data sentinel (ordering by per-sender FIFO, no barrier needed)")
            continue
        n += 1
        res.touch(fi)
        cfg = cfg_of(fi.node)
        dn = [nd for nd in cfg.nodes if any(any(x is c for x in ast.walk(nd.expr or ast.Pass())) for c in data)]
        bars = [nd for nd in cfg.nodes if any(op == "Barrier" and any(x is c for x in ast.walk(nd.expr or ast.Pass())) for c, op, k in calls)]
        skip = cfg.reach(dn, avoid=lambda x: x in bars, labels={"n", "t", "f", "loop", "exh"})
        if bars and cfg.exit.id not in skip:
            res.ok("C06.R3", res.site(fi, "Barrier after data sends"), "every data sender passes a barrier among the senders after its last send and before returning (the sentinel is sent afterwards)")
        else:
            res.violation(
                "C06.R3",
                fi,
                data[0],
                "data senders return without a barrier among them although the end-of-queue sentinel is sent by another rank: even with synchronous sends the sentinel can be received while "
                "other ranks are still sending patches (records lost, or senders blocked forever)",
                key_extra="no-barrier-between-data-and-foreign-sentinel",
            )
    if n < 1:
        raise AnalysisError("C06.R3: no data-sending task without own sentinel found on the MPI variant")


def rule_r7(prog, res) -> None:
    """dispatcher progress: tasks are never dropped when the first pass activates no worker"""
    rt = prog.func("_mpi_root_task")
    res.touch(rt)
    fn = rt.node
    cfg = cfg_of(fn)
    wl = [n for n in cfg.nodes if n.kind == "test" and isinstance(n.ast, ast.While)]
    if not wl:
        raise AnalysisError("C06.R7: result loop not found")
    # between the first pass and the result loop (or after it) something must react to `no active worker`
    guards = [n for n in cfg.nodes if n.kind == "test" and isinstance(n.ast, ast.If) and "active" in unparse(n.expr) and any(isinstance(o, (ast.Eq, ast.LtE, ast.Lt)) or isinstance(n.expr, ast.UnaryOp) for x in ast.walk(n.expr) if isinstance(x, ast.Compare) for o in x.ops)]
    local = [c for c in calls_in(rt) if isinstance(c.func, ast.Name) and c.func.id in ("map", "func")]
    shared: list = []
    # … or the caller works off what the dispatcher left in the task iterator
    for g in _mpi_funcs(prog):
        gc = cfg_of(g.node)
        for nd in gc.nodes:
            for cc in nd.calls():
                if rt in prog.resolve_call(g, cc).funcs() and cc.args and isinstance(cc.args[0], ast.Name):
                    itname = cc.args[0].id
                    later = gc.reach([nd], labels={"n", "t", "f", "loop", "exh"})
                    for j in later:
                        for c2 in gc.nodes[j].calls():
                            if c2 is not cc and any(isinstance(a, ast.Name) and a.id == itname for a in c2.args) and (dotted(c2.func) or "") in ("map", "list", "next") :
                                local.append(c2)
                                shared.append((g, nd, cc, itname))
                        if gc.nodes[j].kind == "for" and isinstance(gc.nodes[j].expr, ast.Name) and gc.nodes[j].expr.id == itname:
                            local.append(gc.nodes[j].ast)
    # "what the dispatcher left": the dispatcher and the fallback must consume ONE one-shot iterator.  Every definition of
    # the name that reaches the dispatcher call is an iterator object (iter(...), a generator, zip / map), never the raw
    # parameter — a re-iterable container would be walked a second time from its start and every task run twice
    ONE_SHOT = ("iter", "zip", "map", "filter", "enumerate", "chain", "islice")
    for g, nd, cc, itname in shared:
        _, IN = reaching_defs(g.node)
        gcfg = cfg_of(g.node)
        bad_def = None
        for d in IN.get(nd.id, {}).get(itname, set()):
            if d == -1:
                bad_def = "the parameter as given by the caller"
                continue
            v = getattr(gcfg.nodes[d].ast, "value", None)
            if not (isinstance(v, ast.GeneratorExp) or (isinstance(v, ast.Call) and (dotted(v.func) or "").split(".")[-1] in ONE_SHOT)):
                bad_def = f"`{norm_stmt(gcfg.nodes[d].ast)[:60]}`"
        if bad_def is not None:
            res.violation(
                "C06.R7",
                g,
                cc,
                f"`{itname}` handed to the dispatcher and then worked off locally is not one shared one-shot iterator (reaching definition: {bad_def}): for a list / dict view the local pass "
                "starts again at the first task, every task runs twice and every result is delivered twice",
                key_extra=f"task-iterator-not-shared-{g.name}",
            )
        else:
            res.ok("C06.R7", res.site(g, f"{itname} shared"), "dispatcher and local fallback consume the same one-shot iterator")
        # … and the dispatcher does not re-wrap what it is given behind the caller's back in a way that matters: taking
        # iter() of an iterator is the iterator itself (no obligation)
    if guards or local:
        res.ok("C06.R7", res.site(rt), "the dispatcher handles the case that no worker rank is active")
    else:
        res.violation(
            "C06.R7",
            rt,
            fn,
            "if no worker rank is active after the first pass (max_workers=1: the rank set is {0} and rank 0 only dispatches) the result loop is skipped and the remaining tasks are "
            "silently dropped: the caller receives an empty result (e.g. a catalog without patches)",
            key_extra="no-active-worker-drops-tasks",
        )


def rule_r8(prog, res) -> None:
    """every rank that is addressed takes part: (a) wrappers around the parallel / chunk iterators hand every item
    through on the root rank AND on the other ranks (a rank whose loop body never runs skips its sends, receives and
    collectives); (b) a non-root rank always enters the worker loop whose sentinel the dispatcher sends to every rank"""
    from .. import symx

    # (a) pass-through iterators
    n = 0
    for ci in sorted(_passthrough_classes(prog), key=lambda c: c.name):
        it = ci.methods["__iter__"]
        init = ci.methods["__init__"]
        first = init.param_names()[1]
        attrs = {t.attr for x in walk_no_nested(init.node) if isinstance(x, ast.Assign) and isinstance(x.value, ast.Name) and x.value.id == first for t in x.targets if isinstance(t, ast.Attribute)}
        res.touch(it)
        def hands_through(ev, oracle, depth=0) -> bool:
            """a yield that delivers the items of the wrapped iterator: directly, or by delegating to a generator
            method of the class that does so on every path"""
            if ev.kind != "yield" or ev.expr is None:
                return False
            if symx.mentions(ev.expr, lambda y: isinstance(y, ast.Attribute) and y.attr in attrs):
                return True
            e = symx.strip_wrappers(ev.expr)
            if isinstance(e, ast.Call) and isinstance(e.func, ast.Attribute) and isinstance(e.func.value, ast.Name) and e.func.value.id == "self" and depth < 2:
                g_ = ci.methods.get(e.func.attr)
                if g_ is not None and any(isinstance(y, (ast.Yield, ast.YieldFrom)) for y in walk_no_nested(g_.node)):
                    gp = [p for p in symx.explore(prog, g_, oracle=oracle, inline=symx.inline_private_helpers(prog)) if p.outcome != "raise"]
                    return bool(gp) and all(any(hands_through(e2, oracle, depth + 1) for e2 in p.events) for p in gp)
            # … or to a generator taken from a class-level dispatch table (`self._METHODS[key](self)`): whichever key
            # is looked up, every generator of the table has to hand the items through
            if isinstance(e, ast.Call) and isinstance(e.func, ast.Subscript) and isinstance(e.func.value, ast.Attribute) and isinstance(e.func.value.value, ast.Name) and e.func.value.value.id in ("self", "cls", ci.name) and depth < 2:
                from .c05 import _class_method_table

                table = _class_method_table(ci, e.func.value.attr)
                if table and len(e.args) == 1 and isinstance(e.args[0], ast.Name) and e.args[0].id == "self":
                    for g_ in table:
                        gp = [p for p in symx.explore(prog, g_, oracle=oracle, inline=symx.inline_private_helpers(prog)) if p.outcome != "raise"]
                        if not gp or not all(any(hands_through(e2, oracle, depth + 1) for e2 in p.events) for p in gp):
                            return False
                    return True
            return False

        for designated in (True, False):
            n += 1
            orc = _designated_rank_oracle(designated)
            paths = [p for p in symx.explore(prog, it, oracle=orc, inline=symx.inline_private_helpers(prog)) if p.outcome != "raise"]
            silent = [p for p in paths if not any(hands_through(ev, orc) for ev in p.events)]
            who = "the root rank" if designated else "the other ranks"
            if silent or not paths:
                res.violation(
                    "C06.R8",
                    it,
                    it.node,
                    f"{ci.name}.__iter__ yields nothing on {who}: a loop over the wrapped iterator does not run there, so those ranks skip the sends / receives / collectives in its body "
                    "(with progress=True the job dead-locks or loses the data of those ranks)",
                    key_extra=f"passthrough-silent-{ci.name}-{'root' if designated else 'workers'}",
                )
            else:
                res.ok("C06.R8", res.site(it, who), f"every path yields the items of self.{sorted(attrs)[0]} on {who}")
    if n == 0:
        raise AnalysisError("C06.R8: no pass-through iterator class found")
    # (b) the worker loop is entered by every non-root rank
    wt = prog.func("_mpi_worker_task")
    rt = prog.func("_mpi_root_task")
    rt = next((g for g in _mpi_funcs_inl(prog) if g.name == "_mpi_root_task"), rt)  # closures expanded, `sum(f(rank) for rank in …)` spelled as the loop it is
    first_pass = [x for x in walk_no_nested(rt.node) if isinstance(x, ast.For) and isinstance(x.iter, ast.Call) and isinstance(x.iter.func, ast.Name) and x.iter.func.id == "range"]
    every_rank = any(len(x.iter.args) == 2 and unparse(x.iter.args[0]) == "1" and "get_size" in unparse(x.iter.args[1]) or "Get_size" in unparse(x.iter) for x in first_pass)
    if not every_rank:
        raise AnalysisError("C06.R8: the dispatcher's first pass over all worker ranks was not recognised")
    callers = [g for g in _mpi_funcs(prog) if any(wt in prog.resolve_call(g, c).funcs() for c in calls_in(g))]
    if not callers:
        raise AnalysisError("C06.R8: no caller of the MPI worker loop found")
    for g in callers:
        res.touch(g)
        paths = [p for p in symx.explore(prog, g, oracle=_designated_rank_oracle(False), inline=None) if p.outcome != "raise"]
        idle = [p for p in paths if not any(wt in prog.resolve_call(ev.fi, ev.node).funcs() for ev in p.calls())]
        if idle:
            cond = idle[0].cond_text()[:100]
            res.violation(
                "C06.R8",
                g,
                g.node,
                f"a non-root rank can leave {g.name} without entering the worker loop (when {cond}) although the dispatcher sends a task or the end-of-queue sentinel to every rank 1..size-1: "
                "the message is never received, it is consumed by the next parallel operation (whose worker quits at once) or blocks the dispatcher",
                key_extra=f"worker-loop-skipped-{g.name}",
            )
        else:
            res.ok("C06.R8", res.site(g, "worker loop"), "every non-root rank enters the worker loop (the dispatcher addresses every rank)")


def rule_r9(prog, res) -> None:
    """the chunk scattered to the ranks is partitioned (shared with C02.R9)"""
    from . import c02
    from .common import shared_rule

    shared_rule(res, c02.rule_r9, "C02", "C02.R9", "C06.R9")


def rule_r10(prog, res) -> None:
    """no explicit raise that only part of the ranks can reach in front of a world collective: when a validation
    fails on the ranks that evaluate it (e.g. it was moved behind `if on_worker(): return None`) and the other
    ranks have already left the function, they wait in the next collective (broadcast, barrier, gather) for a
    partner that has raised — the run hangs instead of failing. Decided on the symbolic paths of every MPI-arm
    function: a raise statement is rank-divergent when some rank test holds with one polarity only on all paths
    that reach it; it is a violation when a world collective is reachable after the call in a caller (bound 3)."""
    from .. import symx

    coll_funcs = _world_collective_funcs(prog)
    callers: dict = {}
    for g in _mpi_funcs(prog):
        for c in calls_in(g):
            for t in prog.resolve_call(g, c).funcs():
                callers.setdefault(t, []).append((g, c))
                if t.cls is not None:  # a call through the base class reaches every override
                    for sub in prog.classes:
                        if sub is not t.cls and t.cls in prog.mro(sub) and t.name in sub.methods:
                            callers.setdefault(sub.methods[t.name], []).append((g, c))

    def collective_after(f, depth=0, seen=None):
        """a (caller, collective) pair such that the collective is reachable after the call of f returns"""
        seen = seen or set()
        if depth > 3 or f in seen:
            return None
        seen.add(f)
        for g, c in callers.get(f, []):
            cfg = cfg_of(g.node)
            starts = cfg.node_containing(c)
            if not starts:
                continue
            after = cfg.reach(starts)
            sites = [(x, op) for x, op, k in _mpi_calls(prog, g) if op in MPI_COLLECTIVES and k == WORLD]
            for c2 in calls_in(g):
                tg = prog.resolve_call(g, c2)
                if c2 is not c and tg.precise and any(t in coll_funcs for t in tg.funcs()):
                    sites.append((c2, "call:" + tg.funcs()[0].name))
            for x, op in sites:
                if any(nd.id in after and nd not in starts for nd in cfg.node_containing(x)):
                    return g, op
            up = collective_after(g, depth + 1, seen)
            if up is not None:
                return up
        return None

    n = 0
    for fi in _mpi_funcs(prog):
        if not any(isinstance(x, ast.Raise) for x in walk_no_nested(fi.node)):
            continue
        if not any(_rank_dependent(prog, fi, x.test) for x in walk_no_nested(fi.node) if isinstance(x, (ast.If, ast.IfExp, ast.While))):
            continue
        try:
            paths = symx.explore(prog, fi, skip_tests=("logger",))
        except symx.TooManyPaths:
            continue
        by_raise: dict = {}
        for p in paths:
            if p.outcome == "raise" and isinstance(p.node, ast.Raise):
                by_raise.setdefault(id(p.node), (p.node, []))[1].append(p)
        for _, (node, ps) in by_raise.items():
            n += 1
            res.touch(fi)
            pols: dict = {}
            for p in ps:
                seen_here = {}
                for t, pol in p.literals():
                    if _rank_dependent(prog, fi, t):
                        seen_here[unparse(t)] = pol
                for k_, v_ in seen_here.items():
                    pols.setdefault(k_, set()).add(v_)
                for k_ in pols:
                    if k_ not in seen_here:
                        pols[k_].add(None)  # reached without deciding this test: not bound to one side
            # tests that were not decided on every path do not bind the raise to a rank set
            one_sided = sorted(k_ for k_, v_ in pols.items() if len(v_) == 1 and None not in v_ and all(k_ in {unparse(t) for t, _ in p.literals()} for p in ps))
            site = res.site(fi, f"raise@{norm_stmt(node)[:40]}")
            if not one_sided:
                res.ok("C06.R10", site, "reached by every rank alike")
                continue
            hit = collective_after(fi)
            # the function's own continuation for the ranks that do not raise
            cfg = cfg_of(fi.node)
            own = [(x, op) for x, op, k in _mpi_calls(prog, fi) if op in MPI_COLLECTIVES and k == WORLD]
            if hit is None and not own:
                res.ok("C06.R10", site, f"only reached where `{one_sided[0]}` has one value, but no world collective follows in the callers")
                continue
            where = f"{hit[0].short} ({hit[1]})" if hit is not None else f"{fi.short} ({own[0][1]})"
            res.violation(
                "C06.R10",
                fi,
                node,
                f"`{norm_stmt(node)[:60]}` is reached only by the ranks on which `{one_sided[0]}` is {sorted(pols[one_sided[0]])[0]}; the other ranks have left {fi.name} and wait in the world collective of {where}: "
                "an invalid request hangs the run instead of raising on every rank",
                key_extra=f"rank-divergent-raise-{fi.qualname}",
            )
    if n < 3:
        raise AnalysisError(f"C06.R10: only {n} raise statements in rank-aware functions found, minimum 3")


CONTIGUOUS_MAKERS = {"ascontiguousarray", "empty", "zeros", "ones", "full", "empty_like", "zeros_like", "copy", "array", "require", "frombuffer", "fromfile"}


def rule_r11(prog, res) -> None:
    """buffer collectives get buffers: the array handed to an upper-case MPI call (Bcast, Send, Recv, Gather …) is, on
    every path, freshly allocated or made contiguous (np.ascontiguousarray / np.empty / .copy()). These calls use
    the buffer protocol and raise for a strided view — on the rank that holds the view, i.e. on the root only, while
    the other ranks have already entered the collective and wait forever. np.asarray keeps a view a view. A
    parameter that is handed on unchanged is followed to the callers (bound 2)."""
    from .. import symx

    BUF_OPS = {"Bcast", "Send", "Recv", "Gather", "Scatter", "Allgather", "Reduce", "Allreduce"}
    n = 0

    def judge(e) -> str:
        """'ok' | 'view' | 'param:<name>' | 'unknown'"""
        e = symx.strip_wrappers(e)
        if isinstance(e, ast.Call):
            fn = (dotted(e.func) or unparse(e.func)).split(".")[-1]
            if fn in CONTIGUOUS_MAKERS:
                if fn == "array" and isinstance(kwarg(e, "copy"), ast.Constant) and kwarg(e, "copy").value is False:
                    return "view"
                return "ok"
            if fn in ("asarray", "asanyarray", "atleast_1d", "atleast_2d", "transpose", "reshape", "squeeze", "view", "ravel"):
                return "view"
            return "unknown"
        if isinstance(e, ast.Attribute) and e.attr == "T":
            return "view"
        if isinstance(e, ast.Subscript):
            return "view"
        if isinstance(e, ast.Name):
            return f"param:{e.id}"
        return "unknown"

    for fi in _mpi_funcs(prog):
        sites = [c for c in calls_in(fi) if isinstance(c.func, ast.Attribute) and c.func.attr in BUF_OPS and is_mpi_receiver(prog, fi, c.func.value) and c.args]
        if not sites:
            continue
        res.touch(fi)
        paths = [p for p in symx.explore(prog, fi, skip_tests=("logger",), inline=lambda *a_: False) if p.outcome != "raise"]
        for c in sites:
            n += 1
            verdicts = set()
            for p in paths:
                for ev in p.calls():
                    if ev.node is c:
                        verdicts.add(judge(ev.expr.args[0]))
            bad = sorted(v for v in verdicts if v == "view")
            params = sorted(v.split(":", 1)[1] for v in verdicts if v.startswith("param:") and v.split(":", 1)[1] in fi.param_names())
            if bad:
                res.violation(
                    "C06.R11",
                    fi,
                    c,
                    f"{c.func.attr} gets `{unparse(c.args[0])[:40]}`, which on some path is only viewed / converted with np.asarray (not made contiguous): for a strided array the root rank raises ValueError before the collective "
                    "while all other ranks wait in it — the run hangs",
                    key_extra=f"buffer-not-contiguous-{fi.qualname}",
                )
            elif params:
                res.ok("C06.R11", res.site(fi, f"{c.func.attr}({params[0]})"), "the caller's array is handed on unchanged (callers allocate or normalise it)", nontrivial=False)
            else:
                res.ok("C06.R11", res.site(fi, f"{c.func.attr}(…)"), "the buffer is freshly allocated or made contiguous on every path")
    if n == 0:
        raise AnalysisError("C06.R11: no buffer-protocol MPI call found (Bcast vanished?)")


def rule_r12(prog, res) -> None:
    """what one rank writes, every rank may read next: a function in which files are written under a rank-dependent
    guard (only on the root / only on the writer rank) does not let any rank return before a barrier on the world
    communicator — otherwise a rank that did not write runs ahead and opens a catalog / a result file that is not
    complete yet (or is the previous one).  Decided on the flow graph of every function of both parallel variants:
    every path from the guarded write to the exit passes a world Barrier (or a world broadcast of the written object)."""
    from ..effects import summaries
    from .c08 import _is_write

    S = summaries(prog)
    n = 0
    funcs = [f for f in prog.funcs if f.parent is None and f.variant in (None, "mpi") and f.module.name.startswith(("yaw.catalog", "yaw.correlation", "yaw.redshifts", "yaw.config"))]
    for fi in funcs:
        cfg = cfg_of(fi.node)
        guarded = []
        for nd in cfg.nodes:
            effs = [e for e, _f in S.node_may(fi, nd) if e.kind == "fs" and _is_write(e)]
            if not effs:
                continue
            gs = [(t, pol) for t, pol in cfg.guards(nd) if _rank_dependent(prog, fi, t)]
            if gs:
                guarded.append((nd, effs[0], gs[0]))
        if not guarded:
            continue
        calls = _mpi_calls(prog, fi)
        sync = [nd for nd in cfg.nodes if any(op in ("Barrier", "bcast", "Bcast") and k == WORLD and any(x is c for x in ast.walk(nd.expr or ast.Pass())) for c, op, k in calls)]
        # … or a helper that performs one (bcast_instance and the like)
        coll = _world_collective_funcs(prog)
        sync += [nd for nd in cfg.nodes if any(any(t in coll for t in prog.resolve_call(fi, c).funcs()) for c in nd.calls())]
        n += 1
        res.touch(fi)
        for nd, e, (t, pol) in guarded[:1]:
            skip = cfg.reach([nd], avoid=lambda x: x in sync, labels={"n", "t", "f", "loop", "exh"})
            if cfg.exit.id in skip:
                res.violation(
                    "C06.R12",
                    fi,
                    nd.ast,
                    f"{fi.qualname} writes files only where `{unparse(t)[:40]}` is {pol} ({norm_stmt(e.call)[:50]}) and can return without a barrier on the world communicator: the ranks that do not write run ahead and read what is not there yet (an incomplete catalog, the previous result file)",
                    key_extra=f"write-no-barrier-{fi.qualname}",
                )
            else:
                res.ok("C06.R12", res.site(fi, "barrier after rank-guarded write"), "every path from the guarded write to the exit passes a world barrier / broadcast")
    if n < 2:
        raise AnalysisError(f"C06.R12: only {n} functions with rank-guarded writes found, minimum 2")


def rule_r13(prog, res) -> None:
    """the MPI variant of the ingest pipeline constructs its writer like its multiprocessing and sequential siblings (same schema source, same options): a writer with another schema raises on the writer rank while every other rank blocks in its next collective (= C02.R6)"""
    from . import c02
    from .common import shared_rule

    shared_rule(res, c02.rule_r6, "C02", "C02.R6", "C06.R13")


RULES = [
    ("C06.R1", rule_r1, QUICK),
    ("C06.R2", rule_r2, QUICK),
    ("C06.R3", rule_r3, QUICK),
    ("C06.R4", rule_r4, QUICK),
    ("C06.R5", rule_r5, QUICK),
    ("C06.R6", rule_r6, QUICK),
    ("C06.R3b", rule_r3b, QUICK),
    ("C06.R7", rule_r7, QUICK),
    ("C06.R8", rule_r8, QUICK),
    ("C06.R9", rule_r9, QUICK),
    ("C06.R10", rule_r10, QUICK),
    ("C06.R11", rule_r11, QUICK),
    ("C06.R12", rule_r12, QUICK),
    ("C06.R13", rule_r13, QUICK),
]
