"""C07 — measurements are independent of what was cached before (structural core).

R1 the reuse predicate of the tree cache compares everything the cached trees depend on
   (Binning.__eq__ covers all slots; binning_equal's truth table; `force` bypasses reuse;
   every non-rebuilding path of build() passes the predicate with the right polarity).
R2 the marker file persists exactly the compared attributes with mirrored encoding.
R3 build-before-count typestate in autocorrelate / crosscorrelate with role-correct binning.
"""

from __future__ import annotations

import ast

from ..cfg import cfg_of
from ..dataflow import all_def_values, depends_on
from ..effects import Unknown, ceval, classify_call, path_leaf
from ..model import AnalysisError, FuncInfo, dotted, norm_stmt, unparse, walk_no_nested
from .c08 import _fs_nodes, _tree_roles
from .common import QUICK, calls_in, eq_covers_slots, kwarg, pruned_reach, single_def_resolver

EXPLANATION = (
    "Static analysis on /repo's current source of the mechanism that decides whether cached trees are reused. "
    "R1: Binning.__eq__ must read every slot of Binning; binning_equal is interpreted over the finite abstract domain "
    "{None, binning A, binning B} and must be true exactly for (None, None) and equal binnings; in BinnedTrees.build "
    "every path that returns without rewriting the trees must pass the predicate (asserted true) and the `force` test. "
    "R2: the writer and the reader of the marker file agree (flag byte first, closed-side encoding evaluated for both "
    "sides and composed to the identity, edges second, zero edges <-> unbinned). R3: in the measurement entry points "
    "every catalog variable handed to a pair count is dominated, on every path where it is not None, by a build_trees "
    "call on the same variable with the binning its role requires (position-0 catalogs binned with config edges and "
    "closed side, position-1-only catalogs unbinned) and no other build intervenes."
)
ASSUMPTIONS = [
    "KD-tree leaf size influences performance only, not counts (so it need not be part of the reuse key)",
    "a catalog that appears as first argument of a pair count supplies the redshift-binned trees, one that only appears as second argument the single unbinned tree (zip(tuple, repeat))",
    "comparison of a Binning with None is False (Binning.__eq__ returns NotImplemented for foreign types)",
]


def mini_run(fn: ast.FunctionDef, env: dict):
    """Interpret a tiny straight-line/if function over a concrete environment keyed by source text."""

    class _Ret(Exception):
        def __init__(self, v):
            self.v = v

    def block(stmts):
        for st in stmts:
            if isinstance(st, ast.Expr):
                continue
            if isinstance(st, ast.Return):
                raise _Ret(None if st.value is None else ceval(st.value, env))
            if isinstance(st, ast.If):
                block(st.body if ceval(st.test, env) else st.orelse)
            elif isinstance(st, ast.Assign) and len(st.targets) == 1 and isinstance(st.targets[0], ast.Name):
                env[st.targets[0].id] = ceval(st.value, env)
            elif isinstance(st, ast.Pass):
                continue
            else:
                raise Unknown(type(st).__name__)

    try:
        block(fn.body)
    except _Ret as r:
        return r.v
    return None


def rule_r1(prog, res) -> None:
    """reuse predicate completeness"""
    ci, tmark, tcont = _tree_roles(prog)
    Binning = prog.find_class("Binning")
    eq_covers_slots(prog, res, "C07.R1", Binning)
    # Binning.__eq__: both comparisons must hold (conjunction), evaluated on the finite domain
    eq = Binning.methods["__eq__"]
    rets = [r.value for r in walk_no_nested(eq.node) if isinstance(r, ast.Return) and r.value is not None]
    final = rets[-1] if rets else None
    if final is None:
        raise AnalysisError("C07.R1: Binning.__eq__ has no return expression")
    atoms = []
    for x in ast.walk(final):
        if isinstance(x, ast.Call) and (dotted(x.func) or "").endswith("array_equal"):
            atoms.append(unparse(x))
        elif isinstance(x, ast.Compare) and "closed" in unparse(x):
            atoms.append(unparse(x))
    approx = [x for x in ast.walk(final) if isinstance(x, ast.Call) and (dotted(x.func) or "").split(".")[-1] in ("allclose", "isclose")]
    if approx:
        res.violation("C07.R1", eq, approx[0], "Binning.__eq__ compares the edges approximately: trees cached for slightly different edges are reused (objects between the two edge versions are binned wrongly)", key_extra="eq-approximate")
    if len(atoms) >= 2:
        bad = False
        for i in range(len(atoms)):
            env = {a: True for a in atoms}
            env[atoms[i]] = False
            try:
                if ceval(final, env):
                    bad = True
            except Unknown as err:
                raise AnalysisError(f"C07.R1: cannot evaluate Binning.__eq__ return expression ({err})")
        if bad or not ceval(final, {a: True for a in atoms}):
            res.violation("C07.R1", eq, final, "Binning.__eq__ is true although one of the compared attributes differs", key_extra="eq-not-conjunction")
        else:
            res.ok("C07.R1", res.site(eq, unparse(final)[:60]), "equality is the conjunction of the edge and closed-side comparisons")
    # binning_equal truth table
    be = ci.methods.get("binning_equal")
    build = ci.methods.get("build")
    if build is None:
        raise AnalysisError("C07.R1: BinnedTrees.build vanished")
    if be is not None:
        res.touch(be)
        param = be.param_names()[1]
        # (tag, edges, closed); same length.  D differs from A by less than any tolerance-based comparison resolves
        A, B, C, D = ("B", (0.1, 0.3, 0.9), "right"), ("B", (0.1, 0.7, 0.9), "right"), ("B", (0.1, 0.3, 0.9), "left"), ("B", (0.1, 0.3000000001, 0.9), "right")
        table = [((None, None), True), ((None, A), False), ((A, None), False), ((A, A), True), ((A, B), False), ((A, C), False), ((C, A), False), ((A, D), False), ((D, A), False)]

        def describe(text, v, env):
            env[text] = v
            if v is not None:
                env[f"{text}.edges"] = v[1]
                env[f"{text}.closed"] = v[2]
                env[f"len({text})"] = 5
                env[f"len({text}.edges)"] = 6
                env[f"{text}.num_bins"] = 5

        for (sv, pv), want in table:
            env = {}
            describe("self.binning", sv, env)
            describe(param, pv, env)
            try:
                got = bool(mini_run(be.node, env))
            except Unknown as err:
                raise AnalysisError(f"C07.R1: cannot interpret binning_equal ({err})")
            if got != want:
                res.violation(
                    "C07.R1",
                    be,
                    be.node,
                    f"binning_equal(cached={sv}, requested={pv}) is {got}, must be {want}: cached trees are reused for a different binning (or never reused)",
                    key_extra="binning-equal-truth-table",
                )
                break
        else:
            res.ok("C07.R1", res.site(be), "truth table over {None, A, B} x {None, A, B}: true exactly for (None, None) and equal binnings")
    # build(): every non-rebuilding path passes the predicate (true) and the force test
    res.touch(build)
    cfg, effs = _fs_nodes(prog, build, deep=False)
    rebuild = [nd for nd, e, leaf, _ in effs if leaf == tcont and e.op == "open" and e.mode and e.mode[0] in "wax"]
    if not rebuild:
        raise AnalysisError("C07.R1: BinnedTrees.build does not write the trees")

    def pred_nodes():
        out = []
        for n in cfg.nodes:
            if n.kind not in ("stmt", "test") or n.expr is None:
                continue
            calls = [c for c in n.calls() if (be is not None and be in prog.resolve_call(build, c).funcs()) or (isinstance(c.func, ast.Attribute) and c.func.attr in ("__eq__",))]
            cmp_direct = [x for x in ast.walk(n.expr) if isinstance(x, ast.Compare) and any(isinstance(o, (ast.Eq, ast.NotEq)) for o in x.ops) and "binning" in unparse(x)]
            if calls or cmp_direct:
                out.append((n, calls, cmp_direct))
        return out

    preds = pred_nodes()
    if not preds:
        res.violation("C07.R1", build, build.node, "BinnedTrees.build reuses cached trees without comparing the stored binning with the requested one", key_extra="no-reuse-predicate")
    else:
        # polarity: continuing normally past the node must mean "equal"
        good_nodes = []
        for n, calls, cmps in preds:
            texts = [unparse(c) for c in calls] + [unparse(c) for c in cmps]
            test = n.ast.test if isinstance(n.ast, ast.Assert) else n.expr
            try:
                t_true = bool(ceval(test, {t: True for t in texts}))
                t_false = bool(ceval(test, {t: False for t in texts}))
            except Unknown:
                continue
            if isinstance(n.ast, ast.Assert) and t_true and not t_false:
                good_nodes.append(n)
            elif n.kind == "test":
                good_nodes.append(n)  # branch polarity checked below through reachability
        reach = cfg.reach([cfg.entry], avoid=lambda x: x in rebuild or x in good_nodes)
        if cfg.exit.id in reach and not any(n.kind == "test" for n in good_nodes):
            res.violation("C07.R1", build, preds[0][0].ast, "a path through BinnedTrees.build returns cached trees without the binning comparison having succeeded", key_extra="reuse-bypasses-predicate")
        else:
            res.ok("C07.R1", res.site(build, "reuse path"), "every return that does not rewrite the trees passes `assert binning_equal(...)`")
    # force
    fparam = next((p for p in build.param_names() if "force" in p), None)
    if fparam is None:
        raise AnalysisError("C07.R1: BinnedTrees.build has no force parameter")
    reach = pruned_reach(cfg, cfg.entry, {fparam: True}, avoid=lambda x: x in rebuild, defs=single_def_resolver(build.node))
    # asserts are not branch nodes: treat `assert not force` as blocking when force is true
    blockers = [n for n in cfg.nodes if isinstance(n.ast, ast.Assert) and n.kind == "stmt" and fparam in unparse(n.ast.test)]
    ok_force = False
    for bnode in blockers:
        try:
            if not ceval(bnode.ast.test, {fparam: True}) and ceval(bnode.ast.test, {fparam: False}):
                ok_force = True
        except Unknown:
            pass
    if ok_force:
        reach = cfg.reach([cfg.entry], avoid=lambda x: x in rebuild or x in blockers)
        # remove normal edges out of blockers: only exception edge continues when force=True
        if cfg.exit.id in reach:
            ok_force = False
    if not ok_force and cfg.exit.id in reach:
        res.violation("C07.R1", build, build.node, "force=True can return cached trees without rebuilding them", key_extra="force-ignored")
    else:
        res.ok("C07.R1", res.site(build, "force"), "with force=True every path to a normal return rewrites the trees")


def rule_r2(prog, res) -> None:
    """marker persists what the predicate compares (writer/reader agreement)"""
    ci, tmark, tcont = _tree_roles(prog)
    from ..inline import inlined

    # same-module helpers (e.g. an extracted marker reader / writer) are expanded in place
    build, init = inlined(prog, ci.methods["build"], keep={"build_trees"}), inlined(prog, ci.methods["__init__"])
    res.touch(build)
    res.touch(init)
    # writer sequence on the marker
    cfgw, effs = _fs_nodes(prog, build, deep=False)
    wr = [(nd, e) for nd, e, leaf, _ in effs if leaf == tmark and e.op == "write"]
    wr.sort(key=lambda t: (t[1].call.lineno, t[1].call.col_offset))
    cfgr, reffs = _fs_nodes(prog, init, deep=False)
    rd = [(nd, e) for nd, e, leaf, _ in reffs if leaf == tmark and e.op == "read"]
    rd.sort(key=lambda t: (t[1].call.lineno, t[1].call.col_offset))
    if len(wr) != 2 or len(rd) != 2:
        raise AnalysisError(f"C07.R2: marker writer/reader shape changed (writes={len(wr)}, reads={len(rd)}); idiom not recognised")
    w_flag, w_edges = wr[0][1].call, wr[1][1].call
    r_flag, r_edges = rd[0][1].call, rd[1][1].call
    # flag byte: written value = to_bytes(1) of int(<closed_left>), read = read(1)
    ok_len = False
    flag_expr = w_flag.args[0] if w_flag.args else None
    fe = flag_expr
    if isinstance(fe, ast.Name):
        vals = [v for v in all_def_values(build.node, fe.id) if v is not None]
        fe = vals[0] if len(vals) == 1 else fe
    if isinstance(fe, ast.Call) and isinstance(fe.func, ast.Attribute) and fe.func.attr == "to_bytes" and fe.args and isinstance(fe.args[0], ast.Constant) and fe.args[0].value == 1:
        if r_flag.args and isinstance(r_flag.args[0], ast.Constant) and r_flag.args[0].value == 1:
            ok_len = True
    if not ok_len:
        res.violation("C07.R2", build, w_flag, "closed-side flag is not written as exactly one byte / not read back as one byte", key_extra="flag-width")
    else:
        res.ok("C07.R2", res.site(build, "flag byte"), "one flag byte written first and read first")
    # encoding of closed side: evaluate writer for closed in {left,right}, reader for flag in {1,0}
    # the value whose truth is written as flag byte, on the arm where a binning is given
    flag_src = None
    if isinstance(fe, ast.Call) and isinstance(fe.func, ast.Attribute) and isinstance(fe.func.value, ast.Call) and fe.func.value.args:
        flag_src = fe.func.value.args[0]  # int(<x>).to_bytes(...)
    enc = None
    if isinstance(flag_src, ast.Name):
        for st in walk_no_nested(build.node):
            if isinstance(st, ast.If) and "None" in unparse(st.test) and "binning" in unparse(st.test):
                try:
                    none_arm_is_body = bool(ceval(st.test, {t: None for t in {unparse(x) for x in ast.walk(st.test) if isinstance(x, ast.Name)}}))
                except Unknown:
                    continue
                arm = st.orelse if none_arm_is_body else st.body
                for y in arm:
                    if isinstance(y, ast.Assign) and any(isinstance(t, ast.Name) and t.id == flag_src.id for t in y.targets):
                        enc = y.value
    elif flag_src is not None:
        enc = flag_src
    dec = None
    for x in walk_no_nested(init.node):
        if isinstance(x, ast.IfExp) and "Closed" in unparse(x):
            dec = x
    # the reader's decoding expression with every local replaced by its definition (so that it is a function
    # of the bytes returned by read(1) only, however many named steps the source uses)
    from .. import symx

    dec_sub = None
    for p_ in symx.explore(prog, ci.methods["__init__"], inline=symx.inline_private_helpers(prog), fork_ifexp=False):
        for ev in p_.events:
            if ev.kind == "store" and ev.value is not None:
                for x in ast.walk(ev.value):
                    if isinstance(x, ast.IfExp) and all(isinstance(a_, ast.Attribute) and (dotted(a_) or "").startswith("Closed.") for a_ in (x.body, x.orelse)):
                        dec_sub = x
    if enc is None or dec is None:
        raise AnalysisError("C07.R2: closed-side encoding/decoding expressions not found (idiom not recognised)")
    if dec_sub is None:
        dec_sub = dec  # the decoded side does not reach a stored value (reported by the restore check below)
    closed_texts = sorted({unparse(x) for x in ast.walk(enc) if isinstance(x, ast.Attribute) and x.attr == "closed"})
    flag_names = sorted({n.id for n in ast.walk(dec.test) if isinstance(n, ast.Name) and n.id not in ("bool", "int")})
    read_calls = [x for x in ast.walk(dec_sub.test) if isinstance(x, ast.Call) and isinstance(x.func, ast.Attribute) and x.func.attr == "read"]
    try:
        rt = {}
        for c in ("left", "right"):
            b = bool(ceval(enc, {t: c for t in closed_texts}))
            # the byte that is written for this flag value …
            written = None
            if isinstance(fe, ast.Call):
                fs = unparse(flag_src) if flag_src is not None else None
                try:
                    written = ceval(fe, {fs: b} if fs else {})
                except Unknown:
                    written = None
            if isinstance(written, (bytes, bytearray)) and read_calls:
                # … decoded by the reader's own (substituted) expression of the bytes read
                rt[c] = ceval(dec_sub, {unparse(rc): written for rc in read_calls})
            else:
                rt[c] = ceval(dec, {f: int(b) for f in flag_names})
    except Unknown as err:
        raise AnalysisError(f"C07.R2: cannot evaluate closed-side encoding ({err})")
    if rt == {"left": "left", "right": "right"}:
        res.ok("C07.R2", res.site(init, unparse(dec)), "write(closed) then read gives the identity for closed=left and closed=right")
    else:
        res.violation("C07.R2", init, dec, f"closed side does not survive the marker file: left->{rt['left']}, right->{rt['right']}: trees built for one side are reused for the other", key_extra="closed-roundtrip")
    # edges: writer writes binning.edges, reader hands the read array to Binning(edges, closed=closed)
    w_recv = w_edges.func.value if isinstance(w_edges.func, ast.Attribute) else None
    if w_recv is None or not depends_on(build.node, w_recv, lambda x: isinstance(x, ast.Attribute) and x.attr == "edges"):
        res.violation("C07.R2", build, w_edges, "the array written to the marker is not the binning's edges", key_extra="edges-not-written")
    else:
        res.ok("C07.R2", res.site(build, "edges.tofile"), "edges written after the flag byte")
    okr = False
    for c in calls_in(init):
        if any(k.name == "Binning" for k in prog.resolve_call(init, c).classes()):
            a0 = c.args[0] if c.args else kwarg(c, "edges")
            cl = kwarg(c, "closed") or (c.args[1] if len(c.args) > 1 else None)
            if a0 is not None and cl is not None and depends_on(init.node, a0, lambda x: x is r_edges) and depends_on(init.node, cl, lambda x: x is dec):
                okr = True
    if okr:
        res.ok("C07.R2", res.site(init, "Binning(edges, closed=closed)"), "restored binning is built from the read edges and the decoded side")
    else:
        res.violation("C07.R2", init, init.node, "the restored binning is not built from both the stored edges and the stored closed side", key_extra="restore-incomplete")


def rule_r3(prog, res) -> None:
    """every pair count is dominated by a tree build with the role-correct binning"""
    total = 0
    for name in ("autocorrelate", "crosscorrelate"):
        fi = prog.func(name)
        res.touch(fi)
        fn = fi.node
        cfg = cfg_of(fn)
        counts = []  # (node, call, [catalog arg names])
        for n in cfg.nodes:
            for c in n.calls():
                f = c.func
                if isinstance(f, ast.Attribute) and f.attr in ("count_pairs", "count_pairs_optional"):
                    cats = []
                    for a in c.args:
                        if isinstance(a, ast.IfExp):
                            a = a.body
                        if isinstance(a, ast.Name):
                            cats.append(a.id)
                        else:
                            raise AnalysisError(f"C07.R3: catalog argument {unparse(a)} of {f.attr} in {name} is not a plain name")
                    counts.append((n, c, cats))
        if not counts:
            raise AnalysisError(f"C07.R3: no pair counts in {name}")
        pos0 = {cats[0] for _, _, cats in counts if cats}
        builds = {}  # var -> [(node, call)]
        for n in cfg.nodes:
            for c in n.calls():
                f = c.func
                if isinstance(f, ast.Attribute) and f.attr == "build_trees" and isinstance(f.value, ast.Name):
                    builds.setdefault(f.value.id, []).append((n, c))
        for n, c, cats in counts:
            for pos, var in enumerate(cats):
                total += 1
                want_binned = var in pos0
                blds = builds.get(var, [])
                site = res.site(fi, f"{unparse(c)[:50]} / {var}")
                if not blds:
                    res.violation("C07.R3", fi, c, f"catalog '{var}' is counted but no trees are built for it in this function: stale trees of an earlier measurement (other binning / closed side) are used", key_extra=f"{name}-{var}-no-build")
                    continue
                # dominance on paths where var is not None
                bnodes = [b for b, _ in blds]
                reach = pruned_reach(cfg, cfg.entry, {var: "SOME"}, avoid=lambda x: x in bnodes, defs=single_def_resolver(fn))
                if n.id in reach:
                    res.violation("C07.R3", fi, c, f"pair count on '{var}' is reachable without a preceding build_trees on it: trees cached by an earlier measurement are used as they are", key_extra=f"{name}-{var}-count-before-build")
                    continue
                # role-correct binning of every build that can reach the count without another build in between
                bad = None
                for bn, bc in blds:
                    a0 = bc.args[0] if bc.args else kwarg(bc, "binning")
                    is_none = a0 is None or (isinstance(a0, ast.Constant) and a0.value is None)
                    from_cfg = a0 is not None and depends_on(fn, a0, lambda x: isinstance(x, ast.Attribute) and x.attr == "edges" and depends_on(fn, x, lambda y: isinstance(y, ast.Name) and y.id == "config"))
                    if want_binned and not from_cfg:
                        bad = (bc, f"'{var}' supplies the redshift-binned trees but is built with binning={unparse(a0) if a0 is not None else 'None'} (not config.binning.edges)")
                    if not want_binned and not is_none:
                        bad = (bc, f"'{var}' supplies the unbinned tree but is built with a redshift binning: bin i of the reference would only be paired with bin i of '{var}'")
                if bad:
                    res.violation("C07.R3", fi, bad[0], bad[1], key_extra=f"{name}-{var}-wrong-role")
                else:
                    res.ok("C07.R3", site, f"dominated by build_trees({'config edges' if want_binned else 'None'}) on every path where {var} is not None")
    if total < 10:
        raise AnalysisError(f"C07.R3: only {total} (count, catalog) obligations found, minimum 10")


def rule_r4(prog, res) -> None:
    """trees are rebuilt from the patch's own data file (no other input): on every path of build_trees
    (helpers looked through) the coordinates of every tree construction derive from patch.load_data()"""
    from .. import symx

    bt = prog.func("build_trees")
    res.touch(bt)
    patch = bt.param_names()[0]
    paths = symx.explore(prog, bt, inline=symx.inline_private_helpers(prog, public={"groupby"}))

    def is_load(n) -> bool:
        return isinstance(n, ast.Call) and isinstance(n.func, ast.Attribute) and n.func.attr == "load_data" and isinstance(n.func.value, ast.Name) and n.func.value.id == patch

    n_ctor = 0
    n_load = 0
    bad = None
    for p in paths:
        n_load += sum(1 for ev in p.calls("load_data"))
        for ev in p.calls():
            if not any(k.name == "AngularTree" for k in prog.resolve_call(ev.fi, ev.node).classes()):
                continue
            n_ctor += 1
            src = ev.expr.args[0] if ev.expr.args else (kwarg(ev.expr, "coords") or ev.expr)
            if not symx.mentions(src, is_load):
                bad = ev
    if n_load == 0:
        raise AnalysisError("C07.R4: build_trees no longer loads the patch data")
    if n_ctor and bad is None:
        res.ok("C07.R4", res.site(bt), f"all {n_ctor} tree constructions (over {len(paths)} paths) take their coordinates from {patch}.load_data()")
    else:
        res.violation("C07.R4", bt, bad.node if bad is not None else bt.node, "a tree is built from something else than the patch's data file", key_extra="tree-input")


def rule_r5(prog, res) -> None:
    """cached trees are read from disk on every use: no in-memory memo of file contents in the catalog modules"""
    from .common import memo_rule

    memo_rule(prog, res, "C07.R5", lambda f: f.module.name.startswith("yaw.catalog"), "trees rebuilt with another binning are not picked up")


def rule_r6(prog, res) -> None:
    """the decision to reuse or rebuild is taken per patch: Catalog.build_trees hands EVERY patch to BinnedTrees.build
    on every returning path (no shortcut that looks at one patch, a flag or a remembered binning), and consumes the
    resulting iterator completely"""
    from .. import symx

    bt = prog.func("Catalog.build_trees")
    res.touch(bt)
    build = prog.func("BinnedTrees.build")
    paths = [p for p in symx.explore(prog, bt, skip_tests=("logger",), env={"on_root()": True}) if p.outcome != "raise"]
    if not paths:
        raise AnalysisError("C07.R6: Catalog.build_trees has no returning path")
    short = []
    for p in paths:
        ok = False
        for ev in p.calls():
            if ev.callee in ("iter_unordered", "map", "imap", "imap_unordered") and ev.expr.args and any(build in prog.resolve_call(ev.fi, ast.Call(func=a, args=[], keywords=[])).funcs() if isinstance(a, (ast.Name, ast.Attribute)) else False for a in ev.expr.args[:1]):
                it = ev.expr.args[1] if len(ev.expr.args) > 1 else kwarg(ev.expr, "iterable")
                if it is not None and symx.mentions(it, lambda y: isinstance(y, ast.Name) and y.id == "self"):
                    ok = True
        if not ok:
            short.append(p)
    if short:
        res.violation(
            "C07.R6",
            bt,
            short[0].node or bt.node,
            f"Catalog.build_trees can return without handing every patch to BinnedTrees.build (when {short[0].cond_text()[:100]}): patches whose cached trees belong to another binning "
            "(an interrupted build, a patch-level build) keep them and are counted with the wrong bins",
            key_extra="build-trees-shortcut",
        )
    else:
        res.ok("C07.R6", res.site(bt), f"all {len(paths)} returning path(s) dispatch BinnedTrees.build over self.values()")


RULES = [
    ("C07.R1", rule_r1, QUICK),
    ("C07.R2", rule_r2, QUICK),
    ("C07.R3", rule_r3, QUICK),
    ("C07.R4", rule_r4, QUICK),
    ("C07.R5", rule_r5, QUICK),
    ("C07.R6", rule_r6, QUICK),
]
