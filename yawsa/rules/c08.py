"""C08 — a crash never leaves a cache that is silently wrong (ordering core).

(marker M, guarded content G) pairs, discovered by role:
  catalog : M = file whose absence makes the loader raise (patch id list), G = per-patch data files
  trees   : M = file whose absence makes BinnedTrees.__init__ raise,       G = pickled trees
  results : M = .dat (carries binning + closed side),                       G = .smp / .cov
Rules: R1 marker-last, R2 invalidate-before-overwrite, R3 read-requires-marker,
R4 metadata written only after being computed from the data file, R5 no marker on the failure
exit (= C09.R4), R6 a zero-byte marker is not a consumable marker.
Not decided: atomicity inside one h5py / yaml / pickle write.
"""

from __future__ import annotations

import ast

from ..cfg import cfg_of
from ..effects import classify_call, path_leaf, summaries
from ..model import AnalysisError, ClassInfo, FuncInfo, dotted, norm_stmt, unparse, walk_no_nested
from . import c09
from .common import (
    QUICK,
    branch_nodes_of,
    calls_in,
    catalog_marker_leaf,
    pruned_reach,
    raise_dominated_by,
)

EXPLANATION = (
    "Static analysis of the ordering core of C08 on /repo's current source: file-system effects (open/write/"
    "tofile/pickle/unlink/rename/rmtree/mkdir/exists) are extracted per CFG node with an abstract file identity "
    "(last path component resolved through properties and constants). For every (marker, guarded content) pair of "
    "the catalog cache, the tree cache and the multi-file results the rules decide on every CFG path — i.e. for a "
    "crash at every gap between two effects — that the marker is written after the content is closed (R1), that "
    "the marker is invalidated before content is rewritten (R2), that content is read only by code reachable after "
    "the marker was found (R3), that metadata are written only after being computed from the fully read data file "
    "(R4), that the marker is unreachable on the failure exit (R5) and that a zero-byte marker cannot be consumed (R6)."
)
ASSUMPTIONS = [
    "a crash can happen between any two file-system effects, not inside one library call",
    "ndarray.tofile(path) / open(path,'w') create the file empty before any byte is written",
    "Path.replace / os.replace publish a file atomically",
    "file identity = last path component below the cache directory of one patch / catalog",
]

WRITE_OPS = {"write"}
KEEP_CALLS = {"build_trees"}  # helpers that stay calls when a method is analysed with its same-module helpers expanded


def _methods(prog, ci):
    """methods of a class with their same-module helper calls expanded in place (see yawsa.inline)"""
    from ..inline import inlined

    out = [inlined(prog, m, keep=KEEP_CALLS) for m in ci.methods.values()]
    expanded = {q for m in out for q in getattr(m, "inlined_helpers", [])}
    # a private helper that was expanded into the methods that call it is analysed there, not on its own
    return [m for m in out if not (m.qualname in expanded and m.name.startswith("_") and not m.name.startswith("__"))]


def _method(prog, ci, name):
    from ..inline import inlined

    m = ci.methods.get(name)
    return inlined(prog, m, keep=KEEP_CALLS) if m is not None else None


def _fs_nodes(prog, fi: FuncInfo, *, deep: bool = True):
    """[(node, effect, leaf, performing function)] for all fs effects of fi's CFG nodes."""
    S = summaries(prog)
    cfg = cfg_of(fi.node)
    out = []
    for n in cfg.nodes:
        effs = S.node_may(fi, n) if deep else [(e, fi) for c in n.calls() for e in classify_call(prog, fi, c)]
        for e, f in effs:
            if e.kind != "fs":
                continue
            leaf = path_leaf(prog, f, e.subject, at=e.call) if e.subject is not None else None
            out.append((n, e, leaf, f))
    return cfg, out


def _is_write(e) -> bool:
    return e.op in ("write", "rename", "replace") or (e.op == "open" and bool(e.mode) and e.mode[0] in "wax")


def _is_truncating(e) -> bool:
    return (e.op == "open" and bool(e.mode) and e.mode[0] in "wx") or e.op == "write"


def _tree_roles(prog):
    """(class, marker leaf, content leaf) of the tree cache, by role."""
    S = summaries(prog)
    for ci in prog.classes:
        init = _method(prog, ci, "__init__")
        if init is None:
            continue
        ex = {path_leaf(prog, init, e.subject, at=e.call) for e in S.direct(init) if e.kind == "fs" and e.op == "exists" and e.subject is not None}
        ex.discard(None)
        if not ex:
            continue
        content = set()
        for m in _methods(prog, ci):
            for c in calls_in(m):
                if any(t == "pickle.load" for t in prog.resolve_call(m, c).ext_names()):
                    leaf = path_leaf(prog, m, c.args[0], at=c) if c.args else None
                    if leaf:
                        content.add(leaf)
        if content and len(ex) == 1:
            return ci, next(iter(ex)), next(iter(content))
    raise AnalysisError("C08: tree cache class (marker exists-test + pickled content) not found")


# ----------------------------------------------------------------------------- R1 marker-last


def rule_r1(prog, res) -> None:
    """marker written only after every guarded content file is complete and closed"""
    marker = catalog_marker_leaf(prog)
    n = 0
    # (a) catalog: the function that publishes the marker closes every writer before (helpers of the same module are
    # expanded in place, so a marker write that was moved into a helper is judged where it is called)
    from ..inline import all_inlined

    for fi in all_inlined(prog, keep=KEEP_CALLS):
        cfg, effs = _fs_nodes(prog, fi, deep=False)
        wnodes = [nd for nd, e, leaf, _ in effs if leaf is not None and (leaf == marker or leaf.startswith(marker)) and _is_write(e)]
        if not wnodes:
            continue
        n += 1
        res.touch(fi)
        first = min(wnodes, key=lambda x: x.id)
        # loop over the writers closing each of them
        ok = False
        why = "no loop closing the per-patch writers found before the marker write"
        for h in cfg.nodes:
            if h.kind != "for" or "writers" not in unparse(h.expr):
                continue
            closes = [c for c in cfg.nodes if any(isinstance(x.func, ast.Attribute) and x.func.attr in ("close", "__exit__") for x in c.calls())]
            body_start = [cfg.nodes[j] for j, lab in cfg.succ[h.id] if lab == "n"]
            if not body_start:
                continue
            # every iteration passes a close: no way back to the header avoiding the close nodes
            back = cfg.reach(body_start, avoid=lambda x: x in closes or x is h)
            loops_back = any((h.id, "loop") in [(j, lab) for j, lab in cfg.succ[i]] for i in back if cfg.nodes[i] not in closes)
            each_closed = not loops_back and not any(b in closes for b in body_start) or (body_start[0] in closes)
            if not each_closed and not (body_start[0] in closes):
                why = "an iteration over the writers can skip close()"
                continue
            in_body = cfg.reach(body_start, avoid=lambda x: x is h)
            if all(cfg.dominates(h, w) and w.id not in in_body for w in wnodes):
                ok = True
                break
            why = "the marker can be written before the loop over the writers is exhausted"
        if ok:
            res.ok("C08.R1", res.site(fi, f"write {marker}"), "marker write is dominated by the exhausted loop that closes every patch writer")
        else:
            res.violation("C08.R1", fi, first.ast, f"catalog marker '{marker}' is not written last: {why}", key_extra="catalog-marker-last")
    if n == 0:
        raise AnalysisError("C08.R1: no writer of the catalog marker found")
    # (b) trees: marker opened for writing only after the content file's with-block was left normally
    ci, tmark, tcont = _tree_roles(prog)
    nb = 0
    for m in _methods(prog, ci):
        cfg, effs = _fs_nodes(prog, m, deep=False)
        mwrite = [nd for nd, e, leaf, _ in effs if leaf == tmark and _is_write(e)]
        cwrite = [nd for nd, e, leaf, _ in effs if leaf == tcont and _is_write(e)]
        if not mwrite:
            continue
        nb += 1
        res.touch(m)
        if not cwrite:
            res.violation("C08.R1", m, mwrite[0].ast, f"tree marker '{tmark}' is written by a function that does not write the trees", key_extra="tree-marker-alone")
            continue
        # with-item that owns the content file
        items = [x.ast for x in cwrite if x.kind == "with_enter"]
        closes = [x for x in cfg.nodes if x.kind == "with_exit" and not x.exc and x.ast in items]
        explicit_close = [nd for nd, e, leaf, _ in effs if e.op == "close" and leaf == tcont]
        done = closes + explicit_close
        bad = [w for w in mwrite if not any(cfg.dominates(d, w) for d in done)]
        last_c = max(cwrite, key=lambda x: x.id)
        if bad or not done:
            res.violation("C08.R1", m, bad[0].ast if bad else mwrite[0].ast, f"tree marker '{tmark}' can be written before '{tcont}' is complete and closed", key_extra="tree-marker-last")
        else:
            res.ok("C08.R1", res.site(m, f"write {tmark}"), f"marker write dominated by the normal exit of the with-block writing '{tcont}'")
    if nb == 0:
        raise AnalysisError("C08.R1: no writer of the tree marker found")


# ----------------------------------------------------------------------------- R2 invalidate before overwrite


def rule_r2(prog, res) -> None:
    """marker invalidated before guarded content is rewritten"""
    ci, tmark, tcont = _tree_roles(prog)
    n = 0
    for m in _methods(prog, ci):
        cfg, effs = _fs_nodes(prog, m, deep=False)
        appended = [nd for nd, e, leaf, _ in effs if leaf == tcont and e.op == "open" and e.mode and e.mode[0] == "a"]
        if appended:
            n += 1
            res.touch(m)
            res.violation(
                "C08.R2",
                m,
                appended[0].ast,
                f"'{tcont}' is opened in append mode: a rebuild adds a second pickle behind the old one while the marker '{tmark}' is rewritten for the new binning; the reader loads the FIRST object, "
                "so every later measurement silently uses the trees of the very first build",
                key_extra="content-appended",
            )
            continue
        trunc = [nd for nd, e, leaf, _ in effs if leaf == tcont and _is_truncating(e) and e.op == "open"]
        if not trunc:
            continue
        n += 1
        res.touch(m)
        inval = [nd for nd, e, leaf, _ in effs if leaf == tmark and e.op in ("unlink", "rename", "replace")]
        # `if marker.exists(): marker.unlink()` — on the other branch there is no marker to invalidate
        for nd, e, leaf, _ in effs:
            if leaf == tmark and e.op == "exists" and nd.kind == "test":
                try:
                    from ..effects import eval_test as _ev

                    for pol, b in branch_nodes_of(cfg, nd).items():
                        if bool(_ev(nd.expr, {"exists()": False, "is_file()": False})) == pol:
                            inval.append(b)
                except Exception:
                    pass
        reach = cfg.reach([cfg.entry], avoid=lambda x: x in inval)
        bad = [t for t in trunc if t.id in reach]
        if bad:
            res.violation(
                "C08.R2",
                m,
                bad[0].ast,
                f"'{tcont}' is truncated and rewritten while the old marker '{tmark}' may still be valid: a crash in between leaves "
                "new (or partial) trees under the old binning, which a later build with the old binning reuses silently",
                key_extra="trees-rewritten-under-valid-marker",
            )
        else:
            res.ok("C08.R2", res.site(m, f"open {tcont} for writing"), f"every path to the rewrite first unlinks '{tmark}'")
    if n == 0:
        raise AnalysisError("C08.R2: no function rewriting the pickled trees found")
    # catalog: overwriting an existing cache removes the old marker before anything new is written
    from .. import symx
    from ..effects import const_str

    cmarker = catalog_marker_leaf(prog)
    owners = []
    from ..inline import all_inlined

    for fi in all_inlined(prog, keep=KEEP_CALLS):
        if fi.cls is None:
            continue
        _c, effs_ = _fs_nodes(prog, fi, deep=False)
        if any(leaf is not None and (leaf == cmarker or leaf.startswith(cmarker)) and _is_write(e) for _nd, e, leaf, _f in effs_):
            owners.append(fi.cls)
    n_over = 0
    for ci_ in dict.fromkeys(owners):
        init = ci_.methods.get("__init__")
        if init is None or "overwrite" not in init.param_names():
            continue
        n_over += 1
        res.touch(init)
        paths = [p for p in symx.explore(prog, init, env={"overwrite": True, "exists()": True, "is_dir()": True}, inline=symx.inline_private_helpers(prog)) if p.outcome != "raise"]
        if not paths:
            raise AnalysisError(f"C08.R2: no returning path of {init.short} with overwrite=True on an existing cache")
        bad = None
        for p in paths:
            dirs = {unparse(ev.expr.func.value) for ev in p.calls("mkdir") if isinstance(ev.expr.func, ast.Attribute)}
            removed = False
            for ev in p.calls():
                if ev.callee == "rmtree" and ev.expr.args and unparse(ev.expr.args[0]) in dirs and not ev.loops:
                    removed = True
                if ev.callee == "unlink" and isinstance(ev.expr.func, ast.Attribute):
                    r = ev.expr.func.value
                    if isinstance(r, ast.BinOp) and isinstance(r.op, ast.Div) and const_str(prog, ev.fi, r.right) == cmarker:
                        removed = True
            if not removed:
                bad = p
        if bad is None:
            res.ok("C08.R2", res.site(init, "overwrite"), f"overwriting an existing cache first removes the old '{cmarker}' (whole directory or the marker itself) on all {len(paths)} paths")
        else:
            res.violation(
                "C08.R2",
                init,
                bad.node or init.node,
                f"with overwrite=True on an existing cache the old marker '{cmarker}' stays in place while the patches are rewritten: a crash before the new marker is published leaves a catalog "
                "that opens without error and mixes old and new patch data",
                key_extra="overwrite-keeps-marker",
            )
    if n_over == 0:
        raise AnalysisError("C08.R2: no catalog writer with an overwrite option found")
    # catalog data files: a patch writer never reuses an existing patch directory
    for pc in prog.classes:
        init = _method(prog, pc, "__init__")  # private helpers of the class (e.g. an extracted directory check) expanded in place
        if init is None:
            continue
        cfg, effs = _fs_nodes(prog, init, deep=True)
        opens = [nd for nd, e, leaf, _ in effs if e.op == "open" and e.mode and e.mode[0] in "wa" and leaf is not None and leaf.endswith(".bin")]
        mk = [nd for nd, e, leaf, _ in effs if e.op == "mkdir"]
        if not opens or not mk:
            continue
        res.touch(init)
        tests = [t for t in cfg.nodes if t.kind == "test" and any(isinstance(a, ast.Attribute) and a.attr == "exists" for a in ast.walk(t.expr))]
        guarded = False
        for t in tests:
            br = branch_nodes_of(cfg, t)
            if True in br and raise_dominated_by(cfg, br[True]) and all(cfg.dominates(br[False], o) for o in opens if False in br):
                guarded = True
        if guarded:
            res.ok("C08.R2", res.site(init, "open data file"), "data file is only opened in a directory that did not exist (exists -> raise)")
        else:
            res.violation("C08.R2", init, opens[0].ast, "a patch data file can be appended to / rewritten inside an existing patch directory while the catalog marker may be valid", key_extra="data-file-in-existing-dir")
    # results: .dat is the header file that validates .smp; stale .smp must go before .dat is rewritten.
    # Decided on the sequence of file operations of every path of to_files (symbolic store: helpers looked through,
    # loops over literal suffix tuples unrolled, module constants resolved)
    from ..effects import const_str

    for fi in prog.funcs:
        if fi.name != "to_files" or fi.is_abstract:
            continue
        res.touch(fi)
        paths = [p for p in symx.explore(prog, fi, env={"on_root()": True, "on_worker()": False}, inline=symx.inline_private_helpers(prog, public={"write_data", "write_samples", "write_covariance", "write_header"}), skip_tests=("logger",)) if p.outcome != "raise"]

        def suffixes(ev, e):
            """the result files an expression names: '<suffix>' when the suffix replaces the prefix's own
            (prefix.with_suffix), '+<suffix>' when it is appended (Path(f"{prefix}.dat"), str(prefix) + ".dat",
            prefix.with_name(prefix.name + ".dat")) — the two derivations name different files for a dotted prefix"""
            out = []
            for x in ast.walk(e):
                if isinstance(x, ast.Call) and isinstance(x.func, ast.Attribute) and x.func.attr == "with_suffix" and x.args:
                    sfx = const_str(prog, ev.fi, x.args[0]) or const_str(prog, fi, x.args[0])
                    if sfx is None:
                        raise AnalysisError(f"C08.R2: file suffix {unparse(x.args[0])[:30]} in {fi.short} cannot be resolved")
                    out.append(sfx)
                tail = None
                if isinstance(x, ast.JoinedStr) and len(x.values) >= 2 and isinstance(x.values[-1], ast.Constant) and isinstance(x.values[-2], ast.FormattedValue):
                    tail = x.values[-1].value
                elif isinstance(x, ast.BinOp) and isinstance(x.op, ast.Add) and not isinstance(x.left, ast.Constant):
                    tail = const_str(prog, ev.fi, x.right) or const_str(prog, fi, x.right)
                if isinstance(tail, str) and tail.startswith(".") and tail.count(".") == 1 and len(tail) <= 6:
                    out.append("+" + tail)
            return out

        n_seq = 0
        for p in paths:
            ops = []  # (kind, suffix, event)
            for ev in p.calls():
                f = ev.expr.func
                if isinstance(f, ast.Attribute) and f.attr == "unlink":
                    for sfx in suffixes(ev, f.value):
                        ops.append(("unlink", sfx, ev))
                elif not (isinstance(f, ast.Attribute) and f.attr == "with_suffix"):
                    for a in [*ev.expr.args, *[k.value for k in ev.expr.keywords]]:
                        for sfx in suffixes(ev, a):
                            ops.append(("write", sfx, ev))
            first_write = {}
            for i, (k, sfx, ev) in enumerate(ops):
                if k == "write":
                    first_write.setdefault(sfx, i)
            if not first_write:
                continue
            n_seq += 1
            dat = next((k_ for k_ in first_write if k_.lstrip("+") == ".dat"), None)
            smp = next((k_ for k_ in first_write if k_.lstrip("+") == ".smp"), None)
            if dat is None or smp is None:
                raise AnalysisError("C08.R2: result writer does not write .dat/.smp files (idiom not recognised)")
            i_d, i_s = first_write[dat], first_write[smp]
            gone = lambda sfx, before: any(k == "unlink" and s_ == sfx for k, s_, _ in ops[:before])  # noqa: E731
            other_form = lambda sfx: sfx[1:] if sfx.startswith("+") else "+" + sfx  # noqa: E731
            if not gone(smp, i_d) and gone(other_form(smp), i_d):
                res.violation(
                    "C08.R2",
                    fi,
                    ops[i_d][2].node,
                    f"the stale samples file is removed under another name than the one that is written: one site {'appends' if smp.startswith('+') else 'replaces'} the suffix, the invalidation "
                    f"{'replaces' if smp.startswith('+') else 'appends'} it — for a prefix that contains a dot the old '.smp' survives, and a crash between the writes leaves new data beside old samples",
                    key_extra="dat-rewritten-beside-stale-smp",
                )
            elif not gone(smp, i_d):
                res.violation(
                    "C08.R2",
                    fi,
                    ops[i_d][2].node,
                    "'.dat' is rewritten while a stale '.smp' of an earlier product may exist: a crash between the two writes leaves a pair "
                    "that from_files() loads without error although data and samples belong to different products",
                    key_extra="dat-rewritten-beside-stale-smp",
                )
            elif not (i_d < i_s or gone(dat, i_s)):
                res.violation(
                    "C08.R2",
                    fi,
                    ops[i_s][2].node,
                    "'.smp' is rewritten while the '.dat' file of an earlier product is neither removed nor already rewritten: a crash before '.dat' is written leaves a pair "
                    "that from_files() loads without error although its two files belong to different products",
                    key_extra="smp-rewritten-beside-stale-dat",
                )
            else:
                res.ok("C08.R2", res.site(fi, "write .dat"), "stale .smp is unlinked on every path before .dat is rewritten; .smp is rewritten only beside the new .dat")
        if n_seq == 0:
            raise AnalysisError(f"C08.R2: no path of {fi.short} writes result files")


# ----------------------------------------------------------------------------- R3 read requires marker


def rule_r3(prog, res) -> None:
    """guarded content is read only by code reachable after the marker was found"""
    ci, tmark, tcont = _tree_roles(prog)
    S = summaries(prog)
    # (a) trees are read only through instance methods/properties of the tree class
    readers = []
    for fi in prog.funcs:
        for e in S.direct(fi):
            if e.kind == "fs" and e.op in ("open", "read") and e.subject is not None and not (e.op == "open" and e.mode and e.mode[0] in "wax"):
                if path_leaf(prog, fi, e.subject, at=e.call) == tcont:
                    readers.append(fi)
    readers = list(dict.fromkeys(readers))
    if not readers:
        raise AnalysisError("C08.R3: no reader of the pickled trees found")
    for r in readers:
        res.touch(r)
        if r.cls is ci and not r.is_classmethod and not r.is_staticmethod:
            res.ok("C08.R3", res.site(r, f"read {tcont}"), "trees are read through an instance, which only exists after the marker check or a completed build")
        else:
            res.violation("C08.R3", r, r.node, f"'{tcont}' is read outside an instance of {ci.name}: the marker '{tmark}' is not checked first", key_extra="trees-read-without-instance")
    # (b) the constructor raises when the marker is missing
    init = _method(prog, ci, "__init__")
    cfg = cfg_of(init.node)
    tests = [t for t in cfg.nodes if t.kind == "test" and any(isinstance(a, ast.Attribute) and a.attr in ("exists", "is_file") for a in ast.walk(t.expr))]
    okc = False
    for t in tests:
        br = branch_nodes_of(cfg, t)
        for pol, b in br.items():
            if raise_dominated_by(cfg, b):
                other = br.get(not pol)
                if other is not None and all(cfg.dominates(other, cfg.nodes[p]) or cfg.nodes[p] is other for p, _ in cfg.pred[cfg.exit.id]):
                    okc = True
    if okc:
        res.ok("C08.R3", res.site(init), f"every normal exit of the constructor is dominated by the '{tmark}' exists-test whose other branch raises")
    else:
        res.violation("C08.R3", init, init.node, f"constructor can complete without the marker '{tmark}' being present", key_extra="ctor-without-marker")
    # (c) instances made with __new__ are returned only after the marker was written
    for m in _methods(prog, ci):
        cfgm, effs = _fs_nodes(prog, m, deep=False)
        news = [nd for nd in cfgm.nodes if any(isinstance(c.func, ast.Attribute) and c.func.attr == "__new__" for c in nd.calls())]
        if not news:
            continue
        res.touch(m)
        mw = [nd for nd, e, leaf, _ in effs if leaf == tmark and e.op == "write"]
        for nw in news:
            reach = cfgm.reach([nw], avoid=lambda x: x in mw, labels={"n", "t", "f", "loop", "exh"})
            if cfgm.exit.id in reach:
                res.violation("C08.R3", m, nw.ast, f"an instance created with __new__ can be returned before the marker '{tmark}' was written", key_extra="new-returned-before-marker")
            else:
                res.ok("C08.R3", res.site(m, "cls.__new__"), "every normal return after __new__ passes the marker write")
    # (d) catalog: patches are instantiated only after the marker was read
    marker = catalog_marker_leaf(prog)
    Patch = prog.find_class("Patch")
    sites = 0
    for fi in prog.funcs:
        cfg = None
        env = prog.func_env(fi)
        for nd_call in calls_in(fi):
            tg = prog.resolve_call(fi, nd_call)
            direct = Patch in tg.classes()
            slot = any(t.name == "iter_unordered" for t in tg.funcs()) and nd_call.args and any(t[0] == "type" and t[1] is Patch for t in env.type_of(nd_call.args[0]))
            if not (direct or slot):
                continue
            if fi.cls is Patch:
                continue
            sites += 1
            res.touch(fi)
            cfg = cfg or cfg_of(fi.node)
            mreads = []
            for nd in cfg.nodes:
                for e, f in S.node_may(fi, nd):
                    if e.kind == "fs" and e.op in ("read", "exists") and e.subject is not None and path_leaf(prog, f, e.subject, at=e.call) == marker:
                        mreads.append(nd)
            targets = cfg.node_containing(nd_call)
            reach = pruned_reach(cfg, cfg.entry, {"on_root()": True, "on_worker()": False}, avoid=lambda x: x in mreads)
            if any(t.id in reach for t in targets):
                res.violation("C08.R3", fi, nd_call, f"patches are instantiated (their data files read) on a path that did not read the catalog marker '{marker}'", key_extra="patch-without-marker")
            else:
                res.ok("C08.R3", res.site(fi, "Patch(...)"), f"on the root rank every path to the patch construction reads '{marker}' first (missing marker raises)")
    if sites == 0:
        raise AnalysisError("C08.R3: no Patch construction site found")


# ----------------------------------------------------------------------------- R4 metadata


def rule_r4(prog, res) -> None:
    """patch metadata are written only after having been computed from the fully read data file"""
    Patch = prog.find_class("Patch")
    from ..inline import inlined

    # private helpers of the module (e.g. an extracted "initialise from the data file" method) are expanded in place
    init = inlined(prog, Patch.methods["__init__"], keep={"read_patch_data", "compute", "to_file", "from_file", "from_bytes"})
    res.touch(init)
    cfg = cfg_of(init.node)
    S = summaries(prog)
    compute = [n for n in cfg.nodes if any(t.name == "compute" for c in n.calls() for t in prog.resolve_call(init, c).funcs())]
    writes = [n for n in cfg.nodes if any(t.name == "to_file" for c in n.calls() for t in prog.resolve_call(init, c).funcs())]
    reads = [n for n in cfg.nodes if any(t.name == "read_patch_data" for c in n.calls() for t in prog.resolve_call(init, c).funcs())]
    if not compute or not writes or not reads:
        raise AnalysisError("C08.R4: Patch.__init__ no longer has the read -> compute -> write shape")
    if all(any(cfg.dominates(c, w) for c in compute) for w in writes) and all(any(cfg.dominates(r, c) for r in reads) for c in compute):
        res.ok("C08.R4", res.site(init), "meta.yml write is dominated by Metadata.compute, which is dominated by the full read of data.bin")
    else:
        res.violation("C08.R4", init, writes[0].ast, "patch metadata can be written without having been computed from the data file", key_extra="meta-order")
    # recomputation happens only in the handler of the missing-file error
    handlers = [n for n in cfg.nodes if n.kind == "except"]
    if handlers and all(any(cfg.dominates(h, c) for h in handlers) for c in compute):
        res.ok("C08.R4", res.site(init, "except"), "metadata are recomputed only when loading the cached file failed")
    else:
        res.violation("C08.R4", init, compute[0].ast, "metadata are recomputed (and rewritten) although a cached file was loaded", key_extra="meta-recompute")


# ----------------------------------------------------------------------------- R6 zero-byte marker


def rule_r6(prog, res) -> None:
    """an empty marker file is not a consumable marker"""
    marker = catalog_marker_leaf(prog)
    S = summaries(prog)
    n = 0
    for fi in prog.funcs:
        cfg, effs = _fs_nodes(prog, fi, deep=False)
        direct = [(nd, e) for nd, e, leaf, _ in effs if leaf == marker and (e.op == "write" or (e.op == "open" and e.mode and e.mode[0] in "wax"))]
        renamed = []
        for nd in cfg.nodes:
            for c in nd.calls():
                f = c.func
                if isinstance(f, ast.Attribute) and f.attr in ("replace", "rename") and c.args and path_leaf(prog, fi, c.args[0], at=c) == marker:
                    renamed.append(nd)
                elif (dotted(f) or "") in ("os.replace", "os.rename", "shutil.move") and len(c.args) > 1 and path_leaf(prog, fi, c.args[1], at=c) == marker:
                    renamed.append(nd)
        if not direct and not renamed:
            continue
        n += 1
        res.touch(fi)
        if renamed and not direct:
            # the temporary file must be complete before it is renamed
            tmpw = [nd for nd, e, leaf, _ in effs if leaf is not None and leaf != marker and leaf.startswith(marker) and e.op in ("write", "close")]
            # a handle on the temporary file that is still open when the file is renamed has unflushed content
            opens = [nd for nd, e, leaf, _ in effs if leaf is not None and leaf != marker and leaf.startswith(marker) and e.op == "open" and e.mode and e.mode[0] in "wax"]
            still_open = None
            for o in opens:
                if o.kind == "with_enter":
                    exits = [x for x in cfg.nodes if x.kind == "with_exit" and not x.exc and x.ast is o.ast]
                    closed = exits
                else:
                    closed = [nd for nd, e, leaf, _ in effs if e.op == "close" and leaf is not None and leaf.startswith(marker)]
                for r in renamed:
                    if cfg.dominates(o, r) and not any(cfg.dominates(x, r) for x in closed):
                        still_open = r
            if still_open is not None:
                res.violation(
                    "C08.R6",
                    fi,
                    still_open.ast,
                    f"the temporary file is renamed onto '{marker}' while the handle that writes it is still open: its content is still buffered, a crash right after the rename leaves an empty marker "
                    "that re-opens silently as a catalog with no patches",
                    key_extra="rename-before-close",
                )
            elif tmpw and all(any(cfg.dominates(t, r) for t in tmpw) for r in renamed):
                res.ok("C08.R6", res.site(fi, f"publish {marker}"), "marker is written to a temporary file (closed) and renamed into place")
            else:
                res.violation("C08.R6", fi, renamed[0].ast, "marker is renamed into place before the temporary file is written", key_extra="rename-before-write")
            continue
        # written in place: the reader must refuse the empty decoding
        refuses = False
        for r in prog.funcs:
            rd = [e for e in S.direct(r) if e.kind == "fs" and e.op == "read" and e.subject is not None and path_leaf(prog, r, e.subject, at=e.call) == marker]
            if not rd:
                continue
            rcfg = cfg_of(r.node)
            for t in rcfg.nodes:
                if t.kind == "test" and ("len(" in unparse(t.expr) or ".size" in unparse(t.expr)) and any(raise_dominated_by(rcfg, b) for b in branch_nodes_of(rcfg, t).values()):
                    refuses = True
        if refuses:
            res.ok("C08.R6", res.site(fi, f"write {marker}"), "marker written in place, but the reader raises on an empty id list")
        else:
            res.violation(
                "C08.R6",
                fi,
                direct[0][0].ast,
                f"'{marker}' is created and written in place and the reader accepts an empty file: a crash between create and write "
                "leaves a zero-byte marker that re-opens silently as a catalog with no patches and no records",
                key_extra="zero-byte-marker",
            )
    if n == 0:
        raise AnalysisError("C08.R6: no writer of the catalog marker found")


def rule_r5(prog, res) -> None:
    """no marker on the failure exit (shared with C09.R4)"""
    sub = type(res)("C09", prog, res.tier)
    c09.rule_r4(prog, sub)
    for o in sub.obligations:
        o.rule = "C08.R5"
        res.obligations.append(o)
        res.count("C08.R5")
    for f in sub.findings:
        f.prop, f.rule = "C08", "C08.R5"
        f.key = f.key.replace("C09.R4", "C08.R5", 1)
        res.findings.append(f)
    res.functions_analysed |= sub.functions_analysed


def rule_r7(prog, res) -> None:
    """the death of the process that rewrites the cache is noticed (shared with C09.R2): the parent re-opens the cache
    only after a raising test of the writer's exit status that is right for every non-zero status, a kill by signal
    (negative status) included — otherwise an overwrite whose writer died returns the old catalog as a success"""
    from .common import shared_rule

    shared_rule(res, c09.rule_r2, "C09", "C09.R2", "C08.R7")


def rule_r8(prog, res) -> None:
    """what kind of content the tree cache holds is decided by the marker, not by looking at the content: the marker
    is written in place (create, then write), so a crash can leave it empty, and its reader accepts an empty marker as
    the valid state "no binning". As long as both are so, a consumer that dispatches on the *type* of the unpickled
    content (isinstance of what was loaded) silently serves binned trees for an unbinned request after such a crash,
    where dispatching on the marker state fails loudly. The rule first establishes the two premises on the current
    source and only then judges the consumers."""
    from .. import symx

    ci, tmark, tcont = _tree_roles(prog)
    # premise 1: the marker is written in place (not to a temporary file that is renamed)
    in_place = False
    for m in _methods(prog, ci):
        _cfg, effs = _fs_nodes(prog, m, deep=False)
        if any(leaf == tmark and (e.op == "write" or (e.op == "open" and e.mode and e.mode[0] in "wax")) for _n, e, leaf, _f in effs):
            in_place = True
        if any(leaf == tmark and e.op in ("rename", "replace") for _n, e, leaf, _f in effs):
            in_place = False
            break
    # premise 2: the reader does not reject an empty marker (no raising test on what was read besides the exists-test)
    init = ci.methods.get("__init__")
    rejects_empty = False
    if init is not None:
        for p in symx.explore(prog, init, inline=symx.inline_private_helpers(prog)):
            if p.outcome == "raise":
                for t, _pol in p.literals():
                    if any(isinstance(y, ast.Call) and (dotted(y.func) or "").split(".")[-1] in ("len", "read", "fromfile", "frombuffer") for y in ast.walk(t)) or ".size" in unparse(t):
                        rejects_empty = True
    if not in_place or rejects_empty:
        res.ok("C08.R8", res.site(init or ci.methods[next(iter(ci.methods))], "premises"), "the marker cannot be left empty-but-valid (atomic publish or the reader rejects an empty marker): content-type dispatch is harmless", nontrivial=False)
        return
    # consumers: every method of the cache class that loads the content
    n = 0
    for m in _methods(prog, ci):
        loads = any(isinstance(y, ast.Attribute) and y.attr in ("trees",) for y in walk_no_nested(m.node)) or any((dotted(c.func) or "").endswith("pickle.load") for c in calls_in(m))
        if not loads or m.name in ("build", "__init__"):
            continue
        n += 1
        res.touch(m)
        bad = None
        for x in walk_no_nested(m.node):
            if isinstance(x, ast.Call) and isinstance(x.func, ast.Name) and x.func.id == "isinstance" and x.args:
                a0 = x.args[0]
                from .common import expand_locals

                a0 = expand_locals(m.node, a0, set(m.param_names()))
                if any(isinstance(y, ast.Attribute) and y.attr == "trees" for y in ast.walk(a0)) or any(isinstance(y, ast.Call) and (dotted(y.func) or "").endswith("load") for y in ast.walk(a0)):
                    bad = x
        # … and on the arm for "no binning" the loaded object is handed on whole: taking an element of it (or iterating
        # / unpacking it) also succeeds on a tuple of per-bin trees, so the crash state is consumed silently (the tree
        # of the first bin stands in for the whole patch) instead of failing on the first use as a tree
        sliced = None
        if bad is None:
            def loaded(e) -> bool:
                return any((isinstance(y, ast.Attribute) and y.attr == "trees") or (isinstance(y, ast.Call) and (dotted(y.func) or "").endswith("load")) for y in ast.walk(e))

            try:
                mpaths = symx.explore(prog, m, inline=symx.inline_private_helpers(prog, public={"is_binned"}))
            except symx.TooManyPaths:
                mpaths = []
            for p in mpaths:
                unbinned = any((("is_binned" in unparse(t) and pol is False) or (unparse(t).replace(" ", "") in ("self.binningisNone",) and pol is True) or (unparse(t).replace(" ", "") in ("self.binningisnotNone",) and pol is False)) for t, pol in p.literals())
                if not unbinned:
                    continue
                outs = [p.value] if p.value is not None else []
                outs += [ev.expr for ev in p.events if ev.kind == "yield" and ev.expr is not None]
                for o in outs:
                    for y in ast.walk(o):
                        if isinstance(y, ast.Subscript) and loaded(y.value):
                            sliced = (p, y)
                        if isinstance(y, ast.Starred) and loaded(y.value):
                            sliced = (p, y)
                        if isinstance(y, ast.Call) and isinstance(y.func, ast.Name) and y.func.id in (symx.ELEM, "next", "iter", "list", "tuple") and y.args and loaded(y.args[0]) and not (isinstance(y.func, ast.Name) and y.func.id == "repeat"):
                            sliced = (p, y)
        if sliced is not None:
            res.violation(
                "C08.R8",
                m,
                sliced[0].node or m.node,
                f"{ci.name}.{m.name} takes an element of the unpickled '{tcont}' (`{unparse(sliced[1])[:60]}`) when the marker says \"no binning\": the marker '{tmark}' is written in place and an empty marker reads as that state, "
                "so after a crash between creating and writing the marker the tree of the first redshift bin is silently served as the tree of the whole patch (handing the object on whole fails loudly on first use)",
                key_extra=f"content-element-on-unbinned-{m.name}",
            )
            continue
        if bad is not None:
            res.violation(
                "C08.R8",
                m,
                bad,
                f"{ci.name}.{m.name} decides from the type of the unpickled '{tcont}' how to use it: the marker '{tmark}' is written in place and an empty marker reads as a valid \"no binning\" state, so after a crash "
                "between creating and writing the marker binned trees are silently served for an unbinned request (dispatching on the marker state fails loudly instead)",
                key_extra=f"content-type-dispatch-{m.name}",
            )
        else:
            res.ok("C08.R8", res.site(m), "the use of the loaded trees is decided by the marker state")
    if n == 0:
        raise AnalysisError("C08.R8: no consumer of the cached trees found in the cache class")


RULES = [
    ("C08.R1", rule_r1, QUICK),
    ("C08.R2", rule_r2, QUICK),
    ("C08.R3", rule_r3, QUICK),
    ("C08.R4", rule_r4, QUICK),
    ("C08.R5", rule_r5, QUICK),
    ("C08.R6", rule_r6, QUICK),
    ("C08.R7", rule_r7, QUICK),
    ("C08.R8", rule_r8, QUICK),
]
