"""Checker self-validation: every seeded mutant must be reported with the expected rule,
every behaviour-preserving refactor variant must stay silent.

Variants are JSON files under /verif/selftest/{mutants,refactors}/ :
  {"id": …, "property": "C09", "expect_rule": "C09.R1" | null,
   "edits": [{"file": "src/yaw/…py", "old": "<exact text>", "new": "<text>", "count": 1}]}
Each variant is applied to a scratch copy of <root>/src (fresh mkdtemp outside /repo and
/verif, removed afterwards) and analysed in a separate process."""

from __future__ import annotations

import json
import os
import shutil
import subprocess
import sys
import tempfile
import time
from concurrent.futures import ThreadPoolExecutor

HERE = os.path.dirname(os.path.dirname(os.path.abspath(__file__)))
PY = sys.executable
ALL_PROPS = tuple(
    sorted(fn[:-3].upper() for fn in os.listdir(os.path.join(HERE, "yawsa", "rules")) if fn.startswith("c") and fn[1:3].isdigit() and fn.endswith(".py"))
)


def load_variants(only: str | None = None) -> list[dict]:
    out = []
    for kind in ("mutants", "refactors"):
        d = os.path.join(HERE, "selftest", kind)
        if not os.path.isdir(d):
            continue
        for fn in sorted(os.listdir(d)):
            if not fn.endswith(".json"):
                continue
            with open(os.path.join(d, fn), encoding="utf-8") as f:
                items = json.load(f)
            if isinstance(items, dict):
                items = [items]
            for v in items:
                v.setdefault("kind", "mutant" if kind == "mutants" else "refactor")
                v.setdefault("source", fn)
                if only and only not in v.get("properties", [v.get("property")]):
                    continue
                out.append(v)
    # behaviour-preserving refactorings written by independent sub-agents (each confirmed: 111 tests pass,
    # equivalence program exits 0 with and without); every claimed check must stay silent on each of them
    rp = os.path.join(HERE, "selftest", "refactors", "patches")
    if os.path.isdir(rp):
        for name in sorted(os.listdir(rp)):
            pf = os.path.join(rp, name, "patch.diff")
            if not os.path.isfile(pf):
                continue
            if only and only not in ALL_PROPS:
                continue
            out.append({"id": f"refactor-patch-{name}", "kind": "refactor", "properties": [only] if only else list(ALL_PROPS), "patch": pf, "source": "refactor-agent"})
    # mechanical behaviour-preserving transformations (laws of the language, see equiv.py), generated from the current
    # tree on every run: every claimed check must stay silent on each of them
    from . import equiv

    for name in equiv.TRANSFORMS:
        if only and only not in ALL_PROPS:
            continue
        out.append({"id": f"equiv-{name}", "kind": "refactor", "properties": [only] if only else list(ALL_PROPS), "equiv": name, "source": "equiv"})
    # seeded changes written by independent sub-agents (kept under /verif/seeded/<id>/patch.diff)
    sd = os.path.join(HERE, "seeded")
    if os.path.isdir(sd):
        for name in sorted(os.listdir(sd)):
            pf = os.path.join(sd, name, "patch.diff")
            if not os.path.isfile(pf):
                continue
            prop = name.split("-")[0]
            # the checks that report this change (recorded by tools/seed_eval.py): it must stay reported by one of them.
            # A change that no static rule can see (recorded as MISSED, see DESIGN.md) is not asserted.
            props = [prop]
            mp = os.path.join(sd, name, "meta.json")
            if os.path.isfile(mp):
                try:
                    with open(mp, encoding="utf-8") as f:
                        run_ = json.load(f).get("checks_run", {})
                    fired = [k for k, v in run_.get("fired", {}).items() if v and not v[0].startswith("ANALYSIS")]
                    if run_.get("verdict") in ("MISSED", "does not apply to the current tree") or "base commit" in str(run_.get("verdict", "")):
                        continue  # (a seed that only applies to an earlier /repo commit was evaluated there, see its meta.json)
                    if fired:
                        props = fired
                except (OSError, ValueError):
                    pass
            if only and only not in props:
                continue
            out.append({"id": f"seeded-{name}", "kind": "mutant", "property": prop, "properties": [only] if only else props, "expect_rule": None, "patch": pf, "source": "seeded"})
    return out


def apply_variant(root: str, v: dict, dest: str) -> None:
    shutil.copytree(os.path.join(root, "src"), os.path.join(dest, "src"), ignore=shutil.ignore_patterns("__pycache__", "*.pyc"))
    if v.get("patch"):
        r = subprocess.run(["patch", "-p1", "-s", "--no-backup-if-mismatch", "-i", v["patch"]], cwd=dest, capture_output=True, text=True)
        if r.returncode != 0:
            raise RuntimeError(f"variant {v['id']}: patch does not apply to the current tree")
    if v.get("equiv"):
        from . import equiv

        try:
            equiv.apply(os.path.join(dest, "src"), v["equiv"])
        except SyntaxError as err:  # the transformation itself produced invalid code: a bug of the generator
            raise RuntimeError(f"variant {v['id']}: transformation failed: {err}") from err
    for cmd in v.get("cmds", []):
        r = subprocess.run(cmd, shell=True, cwd=dest, capture_output=True, text=True)
        if r.returncode != 0:
            raise RuntimeError(f"variant {v['id']}: command failed: {cmd}: {r.stderr[-200:]}")
    for e in v.get("edits", []):
        p = os.path.join(dest, e["file"])
        with open(p, encoding="utf-8") as f:
            s = f.read()
        cnt = e.get("count", 1)
        if s.count(e["old"]) != cnt:
            raise RuntimeError(f"variant {v['id']}: anchor text occurs {s.count(e['old'])}x (expected {cnt}) in {e['file']}")
        s = s.replace(e["old"], e["new"])
        with open(p, "w", encoding="utf-8") as f:
            f.write(s)
    # the variant must still be syntactically valid python
    for e in v.get("edits", []):
        with open(os.path.join(dest, e["file"]), encoding="utf-8") as f:
            compile(f.read(), e["file"], "exec")


def run_variant(root: str, v: dict, only_prop: str | None = None) -> dict:
    tmp = tempfile.mkdtemp(prefix="yawsa_selftest_")
    t0 = time.time()
    try:
        try:
            apply_variant(root, v, tmp)
        except RuntimeError as err:
            return {"id": v["id"], "status": "stale", "detail": str(err)}
        props = v.get("properties") or [v["property"]]
        if only_prop and only_prop in props and v["kind"] == "refactor":
            props = [only_prop]  # a property's thorough run only needs its own verdict on the refactor
        outs = {}
        for p in props:
            r = subprocess.run(
                [PY, "-m", "yawsa", "check", p, "--root", tmp, "--no-evidence"],
                cwd=HERE,
                capture_output=True,
                text=True,
                env={**os.environ, "YAWSA_SELFTEST_CHILD": "1"},
            )
            outs[p] = (r.returncode, r.stdout)
        want = v.get("expect_rule")
        if v["kind"] == "mutant":
            hit = [p for p, (rc, out) in outs.items() if rc == 1 and (want is None or f"[{want}]" in out)]
            ok = bool(hit)
            detail = "" if ok else "; ".join(f"{p}: rc={rc} {out.strip().splitlines()[-1] if out.strip() else ''}" for p, (rc, out) in outs.items())
        else:
            bad = [p for p, (rc, out) in outs.items() if rc != 0]
            ok = not bad
            detail = "" if ok else "; ".join(f"{p}: rc={outs[p][0]} " + " | ".join(l for l in outs[p][1].splitlines() if l.startswith(("[", "ANALYSIS"))) for p in bad)
        return {"id": v["id"], "status": "ok" if ok else "FAIL", "detail": detail, "wall": round(time.time() - t0, 2)}
    finally:
        shutil.rmtree(tmp, ignore_errors=True)


LAST_SUMMARY: dict = {}


def run_selftest(root: str, only: str | None = None, jobs: int = 8, quiet: bool = False) -> int:
    LAST_SUMMARY.clear()
    if os.environ.get("YAWSA_SELFTEST_CHILD"):
        return 0
    variants = load_variants(only)
    if not variants:
        if not quiet:
            print("selftest: no variants registered" + (f" for {only}" if only else ""))
        return 0
    seed = int(os.environ.get("VERIF_SEED", "0") or 0)
    import random

    random.Random(seed).shuffle(variants)
    with ThreadPoolExecutor(max_workers=max(1, jobs)) as ex:
        results = list(ex.map(lambda v: run_variant(root, v, only), variants))
    bad = [r for r in results if r["status"] == "FAIL"]
    stale = [r for r in results if r["status"] == "stale"]
    for r in sorted(results, key=lambda r: r["id"]):
        if not quiet or r["status"] != "ok":
            print(f"selftest {r['status']:5s} {r['id']} {r.get('detail', '')}")
    print(f"selftest: {len(results)} variants, {len(results) - len(bad) - len(stale)} ok, {len(bad)} failed, {len(stale)} stale (anchor text no longer present)")
    kinds = {v["id"]: v["kind"] for v in variants}
    LAST_SUMMARY.update(
        {
            "variants": len(results),
            "mutants_reported": sum(1 for r in results if r["status"] == "ok" and kinds[r["id"]] == "mutant"),
            "refactors_silent": sum(1 for r in results if r["status"] == "ok" and kinds[r["id"]] == "refactor"),
            "failed": [r["id"] for r in bad],
            "stale": [r["id"] for r in stale],
            "examples": sorted(r["id"] for r in results if r["status"] == "ok")[:8],
        }
    )
    return 1 if bad else 0
