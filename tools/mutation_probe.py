#!/venv/bin/python
"""Development helper (not a registered check): mechanical first-order mutants of the functions the properties are
anchored in, to look for kinds of breaking change that no rule reports.

  mutation_probe.py gen  <outdir>              write one patch per mutant (unified diff against /repo/src) + index.json
  mutation_probe.py run  <outdir> [--jobs N]   per mutant: scratch copy, 111 tests (PYTHONPATH), all checks; results.json
  mutation_probe.py show <outdir>              table: killed by tests / reported by a check (which) / unreported

A mutant that the test suite kills is of no interest (the brief asks for changes that pass the tests).  A surviving
mutant that no check reports is either equivalent / irrelevant to the properties or a gap: those are triaged by hand and
the findings recorded in DESIGN.md — nothing here feeds a verdict."""
import ast
import copy
import difflib
import json
import os
import shutil
import subprocess
import sys
import tempfile
from concurrent.futures import ThreadPoolExecutor

VERIF = os.path.dirname(os.path.dirname(os.path.abspath(__file__)))
PY = "/venv/bin/python"
SRC = "/repo/src"

# files the properties are anchored in (properties.jsonl -> anchors.files), package-relative
FILES = [
    "yaw/correlation/measurements.py", "yaw/correlation/paircounts.py", "yaw/correlation/corrfunc.py", "yaw/correlation/corrdata.py",
    "yaw/catalog/catalog.py", "yaw/catalog/patch.py", "yaw/catalog/trees.py", "yaw/catalog/readers.py", "yaw/catalog/writers.py",
    "yaw/datachunk.py", "yaw/binning.py", "yaw/redshifts.py", "yaw/randoms.py", "yaw/coordinates.py", "yaw/cosmology.py",
    "yaw/config/base.py", "yaw/config/binning.py", "yaw/config/scales.py", "yaw/config/combined.py",
    "yaw/utils/parallel.py", "yaw/utils/abc.py", "yaw/utils/misc.py", "yaw/utils/logging.py",
]  # fmt: skip

REL = {ast.Lt: ast.LtE, ast.LtE: ast.Lt, ast.Gt: ast.GtE, ast.GtE: ast.Gt, ast.Eq: ast.NotEq, ast.NotEq: ast.Eq, ast.Is: ast.IsNot, ast.IsNot: ast.Is, ast.In: ast.NotIn, ast.NotIn: ast.In}
ARI = {ast.Add: ast.Sub, ast.Sub: ast.Add, ast.Mult: ast.Div, ast.Div: ast.Mult, ast.FloorDiv: ast.Div, ast.Mod: ast.Mult}


def mutants_of(tree: ast.Module):
    """yields (kind, lineno, mutate(tree_copy_node)) over nodes inside function bodies, addressed by walk index"""
    nodes = list(ast.walk(tree))
    infunc = set()
    for f in nodes:
        if isinstance(f, (ast.FunctionDef, ast.AsyncFunctionDef)):
            for x in ast.walk(f):
                infunc.add(id(x))
    for i, n in enumerate(nodes):
        if id(n) not in infunc:
            continue
        ln = getattr(n, "lineno", 0)
        if isinstance(n, ast.Compare) and len(n.ops) == 1 and type(n.ops[0]) in REL:
            yield ("rel", ln, i, None)
        elif isinstance(n, ast.BinOp) and type(n.op) in ARI and not (isinstance(n.left, ast.Constant) and isinstance(n.left.value, str)) and not isinstance(n.left, ast.JoinedStr):
            yield ("ari", ln, i, None)
        elif isinstance(n, ast.BoolOp):
            yield ("bool", ln, i, None)
        elif isinstance(n, ast.UnaryOp) and isinstance(n.op, ast.Not):
            yield ("not", ln, i, None)
        elif isinstance(n, ast.Constant) and isinstance(n.value, bool):
            yield ("flag", ln, i, None)
        elif isinstance(n, ast.Constant) and isinstance(n.value, int) and not isinstance(n.value, bool) and n.value in (0, 1, 2, -1):
            yield ("int", ln, i, None)
        elif isinstance(n, ast.Slice) and (n.lower is not None or n.upper is not None):
            yield ("slice", ln, i, None)
        elif isinstance(n, ast.Call) and len(n.args) >= 2 and not any(isinstance(a, ast.Starred) for a in n.args[:2]) and ast.dump(n.args[0]) != ast.dump(n.args[1]):
            yield ("swap", ln, i, None)
        elif isinstance(n, ast.Expr) and isinstance(n.value, ast.Call):
            yield ("delcall", ln, i, None)
        elif isinstance(n, (ast.Assign, ast.AugAssign)) and isinstance(n, ast.AugAssign):
            yield ("delaug", ln, i, None)
        elif isinstance(n, ast.If) and not n.orelse and len(n.body) == 1 and isinstance(n.body[0], (ast.Raise, ast.Return, ast.Continue, ast.Break)):
            yield ("delguard", ln, i, None)
        elif isinstance(n, ast.keyword) and n.arg in ("axis",) and isinstance(n.value, ast.Constant) and n.value.value in (0, 1):
            yield ("axis", getattr(n.value, "lineno", 0), i, None)


PAIRS = [("1", "2"), ("min", "max"), ("left", "right"), ("lower", "upper"), ("first", "last"), ("start", "end"), ("ra", "dec"), ("row", "col"), ("rows", "cols"), ("self", "other"), ("lo", "hi"), ("dd", "rr"), ("dr", "rd"), ("data", "random"), ("reference", "unknown"), ("ref", "unk"), ("weights", "redshifts")]


def _pair_of(name: str) -> str | None:
    """the other member of a naming pair: sum_weights1 -> sum_weights2, zmin -> zmax, left -> right, self -> other"""
    import re as _re

    for a, b in PAIRS:
        for x, y in ((a, b), (b, a)):
            if x in ("1", "2"):
                if _re.search(r"[A-Za-z_]" + x + "$", name):
                    return name[:-1] + y
            elif name == x:
                return y
            elif name.endswith("_" + x) or name.endswith(x) and len(name) > len(x) and name[-len(x) - 1] in "_z":
                return name[: -len(x)] + y
            elif name.startswith(x + "_"):
                return y + name[len(x) :]
    return None


def mutants2_of(tree: ast.Module):
    """second operator set: wrong member of a naming pair, dropped keyword argument, dropped conjunct, += -> ="""
    nodes = list(ast.walk(tree))
    infunc = set()
    for f in nodes:
        if isinstance(f, (ast.FunctionDef, ast.AsyncFunctionDef)):
            for st in f.body:
                for x in ast.walk(st):
                    infunc.add(id(x))
    for i, n in enumerate(nodes):
        if id(n) not in infunc:
            continue
        ln = getattr(n, "lineno", 0)
        if isinstance(n, ast.Name) and isinstance(n.ctx, ast.Load) and _pair_of(n.id):
            yield ("pairname", ln, i, None)
        elif isinstance(n, ast.Attribute) and isinstance(n.ctx, ast.Load) and _pair_of(n.attr):
            yield ("pairattr", ln, i, None)
        elif isinstance(n, ast.Call) and n.keywords and any(k.arg for k in n.keywords):
            for j, k in enumerate(n.keywords):
                if k.arg:
                    yield (f"dropkw{j}", ln, i, None)
        elif isinstance(n, ast.BoolOp) and len(n.values) >= 2:
            for j in range(len(n.values)):
                yield (f"dropconj{j}", ln, i, None)
        elif isinstance(n, ast.AugAssign):
            yield ("augassign", ln, i, None)


def apply_mutant(src: str, kind: str, idx: int) -> str | None:
    tree = ast.parse(src)
    nodes = list(ast.walk(tree))
    n = nodes[idx]
    parents = {}
    for p in nodes:
        for ch in ast.iter_child_nodes(p):
            parents[id(ch)] = p
    if kind == "rel":
        n.ops = [REL[type(n.ops[0])]()]
    elif kind == "ari":
        n.op = ARI[type(n.op)]()
    elif kind == "bool":
        n.op = ast.Or() if isinstance(n.op, ast.And) else ast.And()
    elif kind == "not":
        par = parents[id(n)]
        for f, v in ast.iter_fields(par):
            if v is n:
                setattr(par, f, n.operand)
            elif isinstance(v, list) and n in v:
                v[v.index(n)] = n.operand
    elif kind == "flag":
        n.value = not n.value
    elif kind == "int":
        n.value = {0: 1, 1: 0, 2: 1, -1: -2}[n.value]
    elif kind == "slice":
        if n.lower is not None:
            n.lower = None
        else:
            n.upper = None
    elif kind == "swap":
        n.args[0], n.args[1] = n.args[1], n.args[0]
    elif kind in ("delcall", "delaug", "delguard"):
        par = parents[id(n)]
        done = False
        for f in ("body", "orelse", "finalbody"):
            v = getattr(par, f, None)
            if isinstance(v, list) and n in v:
                v[v.index(n)] = ast.copy_location(ast.Pass(), n)
                done = True
        if not done:
            return None
    elif kind == "axis":
        n.value.value = 1 - n.value.value
    elif kind == "pairname":
        n.id = _pair_of(n.id)
    elif kind == "pairattr":
        n.attr = _pair_of(n.attr)
    elif kind.startswith("dropkw"):
        j = int(kind[6:])
        del n.keywords[j]
    elif kind.startswith("dropconj"):
        j = int(kind[8:])
        vals = [v for k_, v in enumerate(n.values) if k_ != j]
        par = parents[id(n)]
        repl = vals[0] if len(vals) == 1 else ast.BoolOp(op=n.op, values=vals)
        for f, v in ast.iter_fields(par):
            if v is n:
                setattr(par, f, repl)
            elif isinstance(v, list) and n in v:
                v[v.index(n)] = repl
    elif kind == "augassign":
        par = parents[id(n)]
        new_ = ast.copy_location(ast.Assign(targets=[n.target], value=n.value), n)
        for f in ("body", "orelse", "finalbody"):
            v = getattr(par, f, None)
            if isinstance(v, list) and n in v:
                v[v.index(n)] = new_
    ast.fix_missing_locations(tree)
    try:
        out = ast.unparse(tree) + "\n"
        compile(out, "<mutant>", "exec")
    except Exception:  # noqa: BLE001
        return None
    return out


def gen(outdir: str, second: bool = False) -> None:
    os.makedirs(outdir, exist_ok=True)
    index = []
    gen_of = mutants2_of if second else mutants_of
    for rel in FILES:
        p = os.path.join(SRC, rel)
        if not os.path.exists(p):
            continue
        src = open(p, encoding="utf-8").read()
        base = ast.unparse(ast.parse(src)) + "\n"
        tree = ast.parse(src)
        for kind, ln, idx, _ in gen_of(tree):
            out = apply_mutant(src, kind, idx)
            if out is None or out == base:
                continue
            mid = f"{rel.replace('/', '_')[:-3]}-{kind}-{idx}"
            diff = "".join(difflib.unified_diff(base.splitlines(True), out.splitlines(True), "a", "b", n=1))
            index.append({"id": mid, "file": rel, "kind": kind, "idx": idx, "line": ln, "diff": diff[:1500]})
    json.dump(index, open(os.path.join(outdir, "index.json"), "w"), indent=1)
    print(len(index), "mutants")


def run_one(job):
    m, props, tests = job
    tmp = tempfile.mkdtemp(prefix="yawsa_mut_")
    try:
        shutil.copytree(SRC, os.path.join(tmp, "src"), ignore=shutil.ignore_patterns("__pycache__", "*.pyc"))
        p = os.path.join(tmp, "src", m["file"])
        out = apply_mutant(open(p, encoding="utf-8").read(), m["kind"], m["idx"])
        if out is None:
            return m["id"], {"status": "invalid"}
        open(p, "w", encoding="utf-8").write(out)
        if tests:
            try:
                r = subprocess.run(f"timeout 300 {PY} -m pytest -q -p no:cacheprovider -x 2>&1 | tail -1", shell=True, cwd="/repo", capture_output=True, text=True, env={**os.environ, "PYTHONPATH": os.path.join(tmp, "src"), "YAW_NUM_THREADS": "1"}, timeout=400)
                tl = r.stdout.strip()
            except subprocess.TimeoutExpired:
                tl = "timeout"
            if "111 passed" not in tl:
                return m["id"], {"status": "killed-by-tests", "tests": tl[-80:]}
        fired = {}
        for pr in props:
            c = subprocess.run([PY, "-m", "yawsa", "check", pr, "--root", tmp, "--no-evidence"], cwd=VERIF, capture_output=True, text=True, env={**os.environ, "YAWSA_SELFTEST_CHILD": "1"})
            if c.returncode == 1:
                fired[pr] = sorted({ln.split("]")[0][1:] for ln in c.stdout.splitlines() if ln.startswith("[C")})
            elif c.returncode == 2:
                fired[pr] = ["ERR:" + next((ln for ln in c.stdout.splitlines() if ln.startswith("ANALYSIS-ERROR")), "")[24:120]]
        rep = any(v and not v[0].startswith("ERR") for v in fired.values())
        return m["id"], {"status": "reported" if rep else ("anchor-lost" if fired else "unreported"), "fired": fired}
    finally:
        shutil.rmtree(tmp, ignore_errors=True)


def run(outdir: str, jobs: int, only: str | None, tests: bool) -> None:
    index = json.load(open(os.path.join(outdir, "index.json")))
    rp = os.path.join(outdir, "results.json")
    results = json.load(open(rp)) if os.path.exists(rp) else {}
    props = sorted(fn[:-3].upper() for fn in os.listdir(f"{VERIF}/yawsa/rules") if fn.startswith("c") and fn[1:3].isdigit() and fn.endswith(".py"))
    todo = [m for m in index if m["id"] not in results and (only is None or only in m["id"])]
    print(len(todo), "to run")
    with ThreadPoolExecutor(jobs) as ex:
        for k, (mid, r) in enumerate(ex.map(run_one, [(m, props, tests) for m in todo])):
            results[mid] = r
            if k % 20 == 0:
                json.dump(results, open(rp, "w"))
    json.dump(results, open(rp, "w"), indent=1)


def show(outdir: str) -> None:
    index = {m["id"]: m for m in json.load(open(os.path.join(outdir, "index.json")))}
    results = json.load(open(os.path.join(outdir, "results.json")))
    from collections import Counter

    c = Counter(r["status"] for r in results.values())
    print(dict(c))
    byfile = {}
    for mid, r in results.items():
        byfile.setdefault(index[mid]["file"], Counter())[r["status"]] += 1
    for f, cc in sorted(byfile.items()):
        print(f"{f:40s} {dict(cc)}")
    if "--unreported" in sys.argv:
        for mid, r in sorted(results.items()):
            if r["status"] in ("unreported", "anchor-lost"):
                m = index[mid]
                print("=" * 8, mid, r["status"], r.get("fired", ""))
                print("".join(l for l in m["diff"].splitlines(True) if l[:1] in "+-" and not l.startswith(("+++", "---"))))


if __name__ == "__main__":
    cmd, outdir = sys.argv[1], sys.argv[2]
    if cmd == "gen":
        gen(outdir, "--second" in sys.argv)
    elif cmd == "run":
        jobs = int(sys.argv[sys.argv.index("--jobs") + 1]) if "--jobs" in sys.argv else 8
        only = sys.argv[sys.argv.index("--only") + 1] if "--only" in sys.argv else None
        run(outdir, jobs, only, "--no-tests" not in sys.argv)
    else:
        show(outdir)
