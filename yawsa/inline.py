"""Syntax-level inlining of small helper functions into a copy of their caller.

`inlined(prog, fi, keep=…)` returns a FuncInfo whose body is `fi`'s body with calls to
helpers of the same module expanded in place (parameters bound to fresh locals, locals renamed,
tail `return`s turned into an assignment of a result variable).  Rules that reason over the
statement-level CFG of one function use it so that extracting a helper out of (or inlining a
helper into) the analysed function does not change what they see.  Helpers that cannot be
expanded faithfully (generators, returns inside loops, recursion, overridden methods, *args)
are left as calls."""

from __future__ import annotations

import ast
import copy

from .model import FuncInfo, Program

MAX_STMTS = 40


def _always_exits(stmts) -> bool:
    if not stmts:
        return False
    last = stmts[-1]
    if isinstance(last, (ast.Return, ast.Raise)):
        return True
    if isinstance(last, ast.If):
        return _always_exits(last.body) and _always_exits(last.orelse)
    if isinstance(last, ast.With):
        return _always_exits(last.body)
    return False


class _NotInlinable(Exception):
    pass


def _has_return(stmts) -> bool:
    for s in stmts:
        for x in ast.walk(s):
            if isinstance(x, (ast.FunctionDef, ast.AsyncFunctionDef, ast.Lambda)) and x is not s:
                continue
            if isinstance(x, ast.Return):
                return True
    return False


def _convert_returns(stmts, ret: str) -> list:
    """rewrite a statement list whose returns are all in tail position into one without returns
    that assigns the result to `ret`"""
    out = []
    for i, s in enumerate(stmts):
        rest = stmts[i + 1 :]
        if isinstance(s, ast.Return):
            a = ast.Assign(targets=[ast.Name(id=ret, ctx=ast.Store())], value=s.value if s.value is not None else ast.Constant(value=None))
            out.append(ast.copy_location(a, s))
            return out
        if isinstance(s, ast.If) and (_has_return(s.body) or _has_return(s.orelse)):
            body_exits, else_exits = _always_exits(s.body), _always_exits(s.orelse)
            new = copy.copy(s)
            if body_exits and else_exits:
                new.body = _convert_returns(s.body, ret)
                new.orelse = _convert_returns(s.orelse, ret)
            elif body_exits:
                new.body = _convert_returns(s.body, ret)
                new.orelse = _convert_returns(list(s.orelse) + list(rest), ret) or [ast.Pass()]
            elif else_exits:
                new.body = _convert_returns(list(s.body) + list(rest), ret) or [ast.Pass()]
                new.orelse = _convert_returns(s.orelse, ret)
            else:
                raise _NotInlinable("return inside a branch that can fall through")
            out.append(new)
            return out
        if isinstance(s, ast.With) and _has_return(s.body):
            if rest:
                raise _NotInlinable("return inside a with block that is not the last statement")
            new = copy.copy(s)
            new.body = _convert_returns(s.body, ret)
            out.append(new)
            return out
        if isinstance(s, ast.Try) and _has_return([s]) and not rest and not s.finalbody and not s.orelse:
            # a try block in tail position: `return` inside it ends the function; the assignment takes its place
            new = copy.copy(s)
            new.body = _convert_returns(s.body, ret)
            hs = []
            for h in s.handlers:
                h2 = copy.copy(h)
                h2.body = _convert_returns(h.body, ret) if _has_return(h.body) else h.body
                hs.append(h2)
            new.handlers = hs
            out.append(new)
            return out
        if isinstance(s, ast.Try) and _has_return([s]) and rest and not s.finalbody and not _has_return(s.body) and not _has_return(s.orelse) and all(_always_exits(h.body) for h in s.handlers):
            # every handler leaves the function: what follows the try statement runs only when no handler ran,
            # i.e. it is the else clause of the try (not guarded by the handlers either way)
            new = copy.copy(s)
            hs = []
            for h in s.handlers:
                h2 = copy.copy(h)
                h2.body = _convert_returns(h.body, ret)
                hs.append(h2)
            new.handlers = hs
            new.orelse = list(s.orelse) + _convert_returns(list(rest), ret)
            out.append(new)
            return out
        if isinstance(s, (ast.For, ast.While, ast.Try, ast.AsyncFor, ast.AsyncWith)) and _has_return([s]):
            raise _NotInlinable("return inside a loop or try block")
        out.append(s)
    return out


def _local_names(fn: ast.FunctionDef) -> set:
    names = set()
    a = fn.args
    for p in [*a.posonlyargs, *a.args, *a.kwonlyargs]:
        names.add(p.arg)
    for x in ast.walk(fn):
        if isinstance(x, ast.Name) and isinstance(x.ctx, (ast.Store, ast.Del)):
            names.add(x.id)
        elif isinstance(x, ast.ExceptHandler) and x.name:
            names.add(x.name)
        elif isinstance(x, (ast.Global, ast.Nonlocal)):
            raise _NotInlinable("global/nonlocal declaration")
        elif isinstance(x, (ast.FunctionDef, ast.AsyncFunctionDef)) and x is not fn:
            names.add(x.name)
        elif isinstance(x, ast.arg):
            names.add(x.arg)
    return names


class _Rename(ast.NodeTransformer):
    def __init__(self, names: set, prefix: str) -> None:
        self.names, self.prefix = names, prefix

    def visit_Name(self, n: ast.Name):
        if n.id in self.names:
            return ast.copy_location(ast.Name(id=self.prefix + n.id, ctx=n.ctx), n)
        return n

    def visit_arg(self, n: ast.arg):
        if n.arg in self.names:
            n = copy.copy(n)
            n.arg = self.prefix + n.arg
        return n

    def visit_ExceptHandler(self, n: ast.ExceptHandler):
        n = self.generic_visit(n)
        if n.name and n.name in self.names:
            n.name = self.prefix + n.name
        return n

    def visit_FunctionDef(self, n):
        n = self.generic_visit(n)
        if n.name in self.names:
            n.name = self.prefix + n.name
        return n


class Inliner:
    def __init__(self, prog: Program, keep: set | None = None, only: set | None = None, max_depth: int = 2, counter: int = 0) -> None:
        self.prog = prog
        self.keep = set(keep or ())
        self.only = set(only) if only else None
        self.max_depth = max_depth
        self.counter = counter
        self.expanded: list[str] = []

    # ------------------------------------------------------------------ which calls
    def _target(self, fi: FuncInfo, call: ast.Call, stack) -> FuncInfo | None:
        try:
            tg = self.prog.resolve_call(fi, call)
        except Exception:  # noqa: BLE001
            return None
        funcs = tg.funcs()
        if len(funcs) != 1 or tg.classes():
            return None
        h = funcs[0]
        if h in stack or h.module is not fi.module or h.name in self.keep:
            return None
        if self.only is not None and h.name not in self.only:
            return None
        if h.is_property or h.is_abstract:
            return None
        if h.parent is not None and h.parent.node is not getattr(getattr(fi, "origin", fi), "node", None):
            return None  # a closure is expanded only inside the function that defines it (its free names stay valid)
        if h.cls is not None and any(h.name in sub.methods for sub in self.prog.subclasses(h.cls)):
            return None  # an override may be the real target
        if h.name.startswith("__") and h.name.endswith("__"):
            return None
        fn = h.node
        a = fn.args
        if a.vararg or any(isinstance(x, ast.Starred) for x in call.args) or any(k.arg is None for k in call.keywords):
            return None
        if any(isinstance(x, (ast.Yield, ast.YieldFrom, ast.Await)) for x in ast.walk(fn)):
            return None
        n_stmts = sum(1 for x in ast.walk(fn) if isinstance(x, ast.stmt))
        if n_stmts > MAX_STMTS:
            return None
        decos = [d for d in h.decorators() if d not in ("staticmethod", "classmethod")]
        if decos:
            return None
        return h

    # ------------------------------------------------------------------ expansion of one call
    def _expand(self, fi: FuncInfo, call: ast.Call, h: FuncInfo):
        """-> (prelude statements, expression replacing the call)"""
        self.counter += 1
        prefix = f"_h{self.counter}_"
        fn = copy.deepcopy(h.node)
        body = [s for s in fn.body if not (isinstance(s, ast.Expr) and isinstance(s.value, ast.Constant) and isinstance(s.value.value, str))]
        ret = "ret"
        locs = _local_names(fn) | {ret}
        body = _convert_returns(body, ret) if _has_return(body) else body
        # parameter binding
        a = fn.args
        pos = [p.arg for p in [*a.posonlyargs, *a.args]]
        binding: dict = {}
        args = list(call.args)
        if h.cls is not None and not h.is_staticmethod and pos:
            recv = call.func.value if isinstance(call.func, ast.Attribute) else None
            explicit_self = False
            if recv is not None and not h.is_classmethod:
                rd = ast.unparse(recv).split(".")[-1]
                if rd == h.cls.name and args:
                    explicit_self = True  # Class.method(obj, …)
            if not explicit_self:
                if recv is None:
                    raise _NotInlinable("method called without receiver")
                binding[pos[0]] = recv
                pos = pos[1:]
        if len(args) > len(pos):
            raise _NotInlinable("too many positional arguments")
        for p, v in zip(pos, args):
            binding[p] = v
        named = {p.arg for p in [*a.posonlyargs, *a.args, *a.kwonlyargs]}
        extra_kw = []
        for kw in call.keywords:
            if kw.arg in named:
                binding[kw.arg] = kw.value
            elif a.kwarg is not None:
                extra_kw.append(kw)
            else:
                raise _NotInlinable("unexpected keyword")
        allpos = [p.arg for p in [*a.posonlyargs, *a.args]]
        for p, d in zip(allpos[len(allpos) - len(a.defaults) :], a.defaults):
            binding.setdefault(p, d)
        for p, d in zip(a.kwonlyargs, a.kw_defaults):
            if d is not None:
                binding.setdefault(p.arg, d)
        params = [p.arg for p in [*a.posonlyargs, *a.args, *a.kwonlyargs]]
        if any(p not in binding for p in params):
            raise _NotInlinable("unbound parameter")
        if a.kwarg is not None:
            # **kwargs receives the surplus keywords; `f(**kwargs)` inside the helper becomes explicit keywords
            kwname = a.kwarg.arg
            binding[kwname] = ast.Dict(keys=[ast.Constant(value=k.arg) for k in extra_kw], values=[k.value for k in extra_kw])
            params.append(kwname)

            class _Spread(ast.NodeTransformer):
                def visit_Call(self, n):
                    n = self.generic_visit(n)
                    if any(k.arg is None and isinstance(k.value, ast.Name) and k.value.id == kwname for k in n.keywords):
                        kws = []
                        for k in n.keywords:
                            if k.arg is None and isinstance(k.value, ast.Name) and k.value.id == kwname:
                                kws.extend(ast.keyword(arg=e.arg, value=copy.deepcopy(e.value)) for e in extra_kw)
                            else:
                                kws.append(k)
                        n = copy.copy(n)
                        n.keywords = kws
                    return n

            body = [_Spread().visit(s_) for s_ in body]
        ren = _Rename(locs, prefix)
        prelude = []
        for p in params:
            st = ast.Assign(targets=[ast.Name(id=prefix + p, ctx=ast.Store())], value=copy.deepcopy(binding[p]))
            prelude.append(ast.copy_location(st, call))
        for s in body:
            prelude.append(ren.visit(s))
        self.expanded.append(h.qualname)
        if _has_return(h.node.body):
            value = ast.copy_location(ast.Name(id=prefix + ret, ctx=ast.Load()), call)
        else:
            value = ast.copy_location(ast.Constant(value=None), call)
        return prelude, value

    # ------------------------------------------------------------------ statements
    def _calls_of(self, exprs) -> list:
        out = []
        for e in exprs:
            if e is None:
                continue
            for x in ast.walk(e):
                if isinstance(x, (ast.Lambda, ast.ListComp, ast.SetComp, ast.DictComp, ast.GeneratorExp)):
                    continue
                if isinstance(x, ast.Call):
                    out.append(x)
        # drop calls nested in comprehension / lambda bodies (they run in another scope, possibly many times)
        blocked = set()
        for e in exprs:
            if e is None:
                continue
            for x in ast.walk(e):
                if isinstance(x, (ast.Lambda, ast.ListComp, ast.SetComp, ast.DictComp, ast.GeneratorExp)):
                    for y in ast.walk(x):
                        if y is not x:
                            blocked.add(id(y))
        return [c for c in out if id(c) not in blocked]

    def _header_exprs(self, s) -> list:
        if isinstance(s, (ast.Assign, ast.AnnAssign, ast.AugAssign, ast.Return)):
            return [s.value]
        if isinstance(s, ast.Expr):
            return [s.value]
        if isinstance(s, ast.If):
            return [s.test]
        if isinstance(s, (ast.For, ast.AsyncFor)):
            return [s.iter]
        if isinstance(s, (ast.With, ast.AsyncWith)):
            return [it.context_expr for it in s.items]
        if isinstance(s, ast.Raise):
            return [s.exc]
        if isinstance(s, ast.Assert):
            return [s.test]
        return []

    def _block(self, fi: FuncInfo, stmts, stack, depth) -> list:
        out = []
        for s in stmts:
            if isinstance(s, (ast.FunctionDef, ast.AsyncFunctionDef, ast.ClassDef)):
                out.append(s)
                continue
            s = copy.copy(s)
            for f in ("body", "orelse", "finalbody"):
                if isinstance(getattr(s, f, None), list) and not isinstance(s, (ast.FunctionDef, ast.AsyncFunctionDef, ast.ClassDef)):
                    setattr(s, f, self._block(fi, getattr(s, f), stack, depth))
            if isinstance(s, ast.Try):
                hs = []
                for h in s.handlers:
                    h = copy.copy(h)
                    h.body = self._block(fi, h.body, stack, depth)
                    hs.append(h)
                s.handlers = hs
            prelude_all = []
            if not isinstance(s, (ast.FunctionDef, ast.AsyncFunctionDef, ast.ClassDef)):
                for c in self._calls_of(self._header_exprs(s)):
                    h = self._target(fi, c, stack)
                    if h is None:
                        continue
                    try:
                        prelude, value = self._expand(fi, c, h)
                    except _NotInlinable:
                        continue
                    prelude_all.extend(prelude)
                    s = _subst_in(s, c, value)
            out.extend(prelude_all)
            out.append(s)
        return out


def _subst_in(stmt: ast.stmt, old: ast.AST, new: ast.AST) -> ast.stmt:
    def rb(n):
        if n is old:
            return new
        if isinstance(n, ast.stmt) and n is not stmt:
            return n
        changed = False
        vals = {}
        for f, v in ast.iter_fields(n):
            if isinstance(v, ast.AST):
                if isinstance(v, ast.stmt):
                    vals[f] = v
                    continue
                r = rb(v)
                changed |= r is not v
                vals[f] = r
            elif isinstance(v, list):
                if v and isinstance(v[0], ast.stmt):
                    vals[f] = v
                    continue
                rs = [rb(x) if isinstance(x, ast.AST) else x for x in v]
                changed |= any(a is not b for a, b in zip(rs, v))
                vals[f] = rs
            else:
                vals[f] = v
        if not changed:
            return n
        m = copy.copy(n)
        for f, v in vals.items():
            setattr(m, f, v)
        return m

    return rb(stmt)


def desugar_comprehensions(stmts: list) -> list:
    """`x = {k: v for t in it if c}` -> `x = {}` + loop with `x[k] = v`; `x = [e for …]` -> loop with append.
    Only whole-statement assignments to a plain name; the loop form is what the CFG based rules understand."""
    out = []
    for s in stmts:
        if isinstance(s, (ast.FunctionDef, ast.AsyncFunctionDef, ast.ClassDef)):
            out.append(s)  # nested definitions keep their identity (they are known to the program model by node)
            continue
        s = copy.copy(s)
        for f in ("body", "orelse", "finalbody"):
            if isinstance(getattr(s, f, None), list):
                setattr(s, f, desugar_comprehensions(getattr(s, f)))
        if isinstance(s, ast.Try):
            hs = []
            for h in s.handlers:
                h = copy.copy(h)
                h.body = desugar_comprehensions(h.body)
                hs.append(h)
            s.handlers = hs
        if isinstance(s, ast.Assign) and len(s.targets) == 1 and isinstance(s.targets[0], ast.Name) and isinstance(s.value, (ast.DictComp, ast.ListComp)) and all(not g.is_async for g in s.value.generators):
            name = s.targets[0].id
            comp = s.value
            init = ast.Assign(targets=[ast.Name(id=name, ctx=ast.Store())], value=ast.Dict(keys=[], values=[]) if isinstance(comp, ast.DictComp) else ast.List(elts=[], ctx=ast.Load()))
            if isinstance(comp, ast.DictComp):
                inner: ast.stmt = ast.Assign(targets=[ast.Subscript(value=ast.Name(id=name, ctx=ast.Load()), slice=comp.key, ctx=ast.Store())], value=comp.value)
            else:
                inner = ast.Expr(value=ast.Call(func=ast.Attribute(value=ast.Name(id=name, ctx=ast.Load()), attr="append", ctx=ast.Load()), args=[comp.elt], keywords=[]))
            ast.copy_location(inner, s)
            body = [inner]
            for g in reversed(comp.generators):
                for c in reversed(g.ifs):
                    body = [ast.copy_location(ast.If(test=c, body=body, orelse=[]), s)]
                body = [ast.copy_location(ast.For(target=g.target, iter=g.iter, body=body, orelse=[]), s)]
            out.append(ast.copy_location(init, s))
            out.extend(body)
            continue
        out.append(s)
    return out


_CACHE: dict = {}


def inlined(prog: Program, fi: FuncInfo, *, keep=(), only=None, max_depth: int = 2, desugar: bool = False) -> FuncInfo:
    """fi with same-module helper calls expanded (a new FuncInfo; fi itself when nothing was expanded)"""
    key = (id(prog), fi.key, tuple(sorted(keep)), tuple(sorted(only)) if only else None, max_depth, desugar)
    if key in _CACHE:
        return _CACHE[key]
    cur = fi
    if desugar and any(isinstance(x, (ast.DictComp, ast.ListComp)) for x in ast.walk(fi.node)):
        node = copy.copy(fi.node)
        node.body = desugar_comprehensions(list(fi.node.body))
        ast.fix_missing_locations(node)
        cur = FuncInfo(fi.module, fi.qualname, node, fi.cls, fi.variant, fi.parent)
        cur.origin = fi  # type: ignore[attr-defined]
    expanded: list[str] = []
    counter = 0
    for _ in range(max_depth):
        inl = Inliner(prog, set(keep) | {fi.name}, only, max_depth, counter)
        try:
            body = inl._block(cur, list(cur.node.body), [fi], 0)
        except RecursionError:
            break
        if not inl.expanded:
            break
        expanded.extend(inl.expanded)
        counter = inl.counter
        node = copy.copy(cur.node)
        node.body = body
        ast.fix_missing_locations(node)
        cur = FuncInfo(fi.module, fi.qualname, node, fi.cls, fi.variant, fi.parent)
    if cur is not fi:
        cur.inlined_helpers = expanded  # type: ignore[attr-defined]
        cur.origin = fi  # type: ignore[attr-defined]
    _CACHE[key] = cur
    return cur
