"""Reproducer for finding #10 (C05/C03): HistData.from_catalog rows by arrival order, and #11
(resample_jackknife returns samples in reversed patch order).
usage: YAW_NUM_THREADS=4 /venv/bin/python findings/demos/c05_hist_order.py ; exit 1 = defect"""
import os, sys, tempfile, shutil
import numpy as np, pandas as pd
tmp = tempfile.mkdtemp(prefix="yawdemo_")
rc = 0
try:
    from yaw import Catalog, AngularCoordinates, Configuration
    from yaw.redshifts import HistData
    import yaw.utils.parallel as P
    rng = np.random.default_rng(3)
    n = 3000
    ra = rng.uniform(0, 40, n); dec = rng.uniform(-10, 10, n)
    z = 0.1 + 0.9 * (ra / 40.0) ** 2 + rng.normal(0, 0.01, n)   # z correlates with position -> patches differ
    df = pd.DataFrame(dict(ra=ra, dec=dec, z=np.clip(z, 0.11, 0.99)))
    centers = AngularCoordinates(np.deg2rad([[5.0 + 6 * i, 0.0] for i in range(6)]))
    os.environ["YAW_NUM_THREADS"] = "1"
    cat = Catalog.from_dataframe(os.path.join(tmp, "cat"), df, ra_name="ra", dec_name="dec", redshift_name="z", patch_centers=centers)
    cfg = Configuration.create(rmin=100, rmax=1000, zmin=0.1, zmax=1.0, num_bins=5)
    # leave-one-out reference in patch-id order
    edges = cfg.binning.edges
    per_patch = np.array([np.histogram(cat[i].redshifts, edges)[0] for i in sorted(cat.keys())], dtype=float)
    ref = per_patch.sum(axis=0) - per_patch
    # force an adversarial completion order by reversing the sequential map
    real = P._multiprocessing_iter_unordered
    def reversed_order(func, iterable, **kw):
        yield from reversed(list(real(func, iterable, **{**kw, "num_processes": 1})))
    results = {}
    for name, impl in (("in-order", real), ("reversed completion", reversed_order)):
        P._multiprocessing_iter_unordered = impl
        h = HistData.from_catalog(cat, cfg, max_workers=1)
        results[name] = h.samples
        ok = np.array_equal(h.samples, ref)
        print(f"{name:20s} samples == leave-one-out in patch order: {ok}")
        if not ok: rc = 1
    if not np.array_equal(results["in-order"], results["reversed completion"]):
        print("DEFECT: jackknife samples depend on completion order"); rc = 1
finally:
    shutil.rmtree(tmp, ignore_errors=True)
sys.exit(rc)
