"""Homogeneity typing: the degree of an expression under a rescaling of named inputs.

`degree(expr, atom)` computes, for an expression over the symbolic store, the vector of exponents d such that
replacing every input s by lam_s * s multiplies the expression by prod(lam_s ** d[s]) — or finds that no such
vector exists (a sum of terms of different degree), or that the expression is not understood.

Domain:  Deg(dict sym -> Fraction)  |  ZERO (the literal zero / an empty array: homogeneous of every degree)
         |  NONHOM(reason)  |  UNKNOWN(reason)
Rules:   a + b, a - b : equal degrees (ZERO is neutral), otherwise NONHOM
         a * b, a @ b : sum;   a / b : difference;   a ** k (constant k) : k * degree
         linear numpy maps (sum, mean, tile, triu, einsum of one operand, casts, indexing, …) keep the degree
         einsum / outer / multiply of several operands: sum of their degrees;  sqrt: half
         constants, lengths, shapes: degree 0
Nothing is executed; the evaluator only reads syntax."""

from __future__ import annotations

import ast
from dataclasses import dataclass, field
from fractions import Fraction

from .model import dotted, unparse


@dataclass(frozen=True)
class Deg:
    exps: tuple = ()  # sorted tuple of (symbol, Fraction), zero exponents dropped

    @staticmethod
    def of(d: dict) -> "Deg":
        return Deg(tuple(sorted((k, Fraction(v)) for k, v in d.items() if v != 0)))

    def as_dict(self) -> dict:
        return dict(self.exps)

    def __add__(self, other: "Deg") -> "Deg":
        d = self.as_dict()
        for k, v in other.exps:
            d[k] = d.get(k, 0) + v
        return Deg.of(d)

    def scale(self, k) -> "Deg":
        return Deg.of({s: v * Fraction(k) for s, v in self.exps})

    def __str__(self) -> str:
        return "degree " + ("0" if not self.exps else " ".join(f"{s}^{v}" for s, v in self.exps))


@dataclass(frozen=True)
class Zero:
    def __str__(self) -> str:
        return "zero"


@dataclass(frozen=True)
class NonHom:
    why: str = ""

    def __str__(self) -> str:
        return f"not homogeneous ({self.why})"


@dataclass(frozen=True)
class Unknown_:
    why: str = ""

    def __str__(self) -> str:
        return f"unknown ({self.why})"


ZERO = Zero()
CONST = Deg()

# numpy / builtin functions that are linear in their first argument (keep its degree); further arguments are
# shapes, axes, dtypes
LINEAR1 = {
    "sum", "nansum", "mean", "nanmean", "average", "median", "asarray", "array", "asanyarray", "ascontiguousarray", "float", "float64", "float32",
    "astype", "copy", "tile", "repeat", "triu", "tril", "diag", "diagonal", "reshape", "ravel", "flatten", "transpose", "squeeze", "atleast_1d", "atleast_2d",
    "atleast_3d", "cumsum", "diff", "flip", "sort", "abs", "absolute", "fabs", "max", "min", "amax", "amin", "nanmax", "nanmin", "negative", "positive", "real",
    "nan_to_num", "take", "compress", "delete", "roll", "expand_dims", "broadcast_to", "tolist", "item", "trace", "view", "swapaxes", "moveaxis", "fromiter", "tuple", "list",
}  # fmt: skip
# functions of several arrays that are linear in each (degree adds up)
MULTILINEAR = {"multiply", "outer", "dot", "matmul", "inner", "kron", "tensordot", "cross", "prod_pair"}
# functions that join arrays of one degree
JOIN = {"concatenate", "stack", "vstack", "hstack", "column_stack", "append", "where_join", "maximum", "minimum", "add", "subtract"}
ZERO_MAKERS = {"zeros", "zeros_like", "empty", "empty_like"}
CONST_MAKERS = {"ones", "ones_like", "arange", "linspace", "full", "full_like", "len", "int", "bool", "range", "isnan", "isfinite", "count_nonzero", "size", "ndim", "shape", "sign", "signbit"}
# functions that are only meaningful on a pure number: of a degree-0 argument they give a degree-0 result, of anything
# else the result is not homogeneous at all
TRANSCENDENTAL = {"sin", "cos", "tan", "arcsin", "arccos", "arctan", "exp", "log", "log10", "log2", "sinh", "cosh", "tanh", "deg2rad", "rad2deg", "radians", "degrees", "asin", "acos", "atan", "clip"}
CONST_ATTRS = {"pi", "e", "inf", "nan", "newaxis"}


def _fn(call: ast.Call) -> str:
    return (dotted(call.func) or unparse(call.func)).split(".")[-1]


def degree(e: ast.AST, atom, *, depth: int = 0):
    """atom(expr) -> Deg | Zero | None: the rule's table of inputs (None: not an input, look inside)"""
    if depth > 60:
        return Unknown_("expression too deep")
    a = atom(e)
    if a is not None:
        return a
    rec = lambda x: degree(x, atom, depth=depth + 1)  # noqa: E731
    if isinstance(e, ast.Constant):
        if isinstance(e.value, (int, float)) and not isinstance(e.value, bool) and e.value == 0:
            return ZERO
        return CONST
    if isinstance(e, (ast.Tuple, ast.List)):
        return _join([rec(x) for x in e.elts if not isinstance(x, ast.Starred)] or [CONST], "sequence elements")
    if isinstance(e, ast.UnaryOp):
        if isinstance(e.op, ast.Not):
            return CONST
        return rec(e.operand)
    if isinstance(e, ast.BinOp):
        l, r = rec(e.left), rec(e.right)
        if isinstance(e.op, (ast.Add, ast.Sub)):
            return _join([l, r], f"{unparse(e.left)[:30]} {'+' if isinstance(e.op, ast.Add) else '-'} {unparse(e.right)[:30]}")
        if isinstance(e.op, (ast.Mult, ast.MatMult)):
            return _mul(l, r)
        if isinstance(e.op, (ast.Div, ast.FloorDiv)):
            if isinstance(r, Zero):
                return Unknown_("division by zero literal")
            return _mul(l, _neg(r))
        if isinstance(e.op, ast.Pow):
            if isinstance(e.right, ast.Constant) and isinstance(e.right.value, (int, float)):
                return _scale(l, e.right.value)
            if isinstance(l, Deg) and not l.exps:
                return CONST if isinstance(r, Deg) and not r.exps else Unknown_("power with a scaled exponent")
            return Unknown_("power with a non-constant exponent")
        if isinstance(e.op, ast.Mod):
            return _join([l, r], "modulo")
        return Unknown_(f"operator {type(e.op).__name__}")
    if isinstance(e, ast.Compare) or isinstance(e, ast.BoolOp):
        return CONST
    if isinstance(e, ast.IfExp):
        return _join([rec(e.body), rec(e.orelse)], "conditional expression")
    if isinstance(e, ast.Subscript):
        return rec(e.value)
    if isinstance(e, ast.Starred):
        return rec(e.value)
    if isinstance(e, ast.Attribute):
        if e.attr in ("T", "real", "flat"):
            return rec(e.value)
        if e.attr in ("shape", "ndim", "size", "dtype"):
            return CONST
        if e.attr in CONST_ATTRS and (dotted(e.value) or "") in ("np", "numpy", "math"):
            return CONST
        return Unknown_(f"attribute {unparse(e)[:50]}")
    if isinstance(e, ast.Call):
        fn = _fn(e)
        args = [x for x in e.args if not isinstance(x, ast.Starred)]
        recv = e.func.value if isinstance(e.func, ast.Attribute) and (dotted(e.func.value) or "") not in ("np", "numpy", "math") else None
        if fn in ZERO_MAKERS:
            return ZERO
        if fn in CONST_MAKERS:
            return CONST
        if fn == "einsum" and args and isinstance(args[0], ast.Constant) and isinstance(args[0].value, str):
            out = CONST
            for x in args[1:]:
                out = _mul(out, rec(x))
            return out
        if fn == "sqrt" and (args or recv is not None):
            return _scale(rec(args[0] if args else recv), Fraction(1, 2))
        if fn == "square" and args:
            return _scale(rec(args[0]), 2)
        if fn in ("power", "float_power") and len(args) == 2 and isinstance(args[1], ast.Constant):
            return _scale(rec(args[0]), args[1].value)
        if fn in ("divide", "true_divide") and len(args) == 2:
            return _mul(rec(args[0]), _neg(rec(args[1])))
        if fn in MULTILINEAR and len(args) >= 2 and recv is None:
            out = CONST
            for x in args:
                out = _mul(out, rec(x))
            return out
        if fn in ("dot", "matmul") and recv is not None and args:
            return _mul(rec(recv), rec(args[0]))
        if fn in JOIN:
            xs = args[0].elts if len(args) == 1 and isinstance(args[0], (ast.Tuple, ast.List)) else args
            return _join([rec(x) for x in xs], fn)
        if fn in LINEAR1:
            if recv is not None and (fn not in ("float", "tuple", "list") or not args):
                return rec(recv)
            if args:
                return rec(args[0])
        if fn == "where" and len(args) == 3:
            return _join([rec(args[1]), rec(args[2])], "where")
        if fn in ("deg2rad", "rad2deg", "radians", "degrees") and args:
            return rec(args[0])  # (a constant factor)
        if fn == "clip" and args:
            # clip(v, lo, hi) with constant bounds is homogeneous only for a pure number
            d0 = rec(args[0])
            if isinstance(d0, Deg) and d0.exps and any(isinstance(rec(b), Deg) and not rec(b).exps for b in args[1:] if not (isinstance(b, ast.Constant) and b.value is None)):
                return NonHom(f"clip of a {d0} quantity to fixed bounds")
            return d0
        if fn in TRANSCENDENTAL and (args or recv is not None):
            d0 = rec(args[0] if args else recv)
            if isinstance(d0, Deg) and d0.exps:
                return NonHom(f"{fn} of a quantity of {d0}")
            if isinstance(d0, Zero):
                return CONST
            return d0
        if fn in ("arctan2", "atan2") and len(args) == 2:
            a_, b_ = rec(args[0]), rec(args[1])
            j = _join([a_, b_], "arctan2")
            return CONST if isinstance(j, (Deg, Zero)) else j
        if fn == "histogram" and args:
            w = next((k.value for k in e.keywords if k.arg == "weights"), None)
            return CONST if w is None else rec(w)
        return Unknown_(f"call {unparse(e.func)[:40]}")
    if isinstance(e, ast.Name):
        if e.id.isupper():
            return CONST  # a module-level constant (TWO_PI, PRECISION): does not scale with any input
        return Unknown_(f"name {e.id}")
    return Unknown_(type(e).__name__)


def _neg(d):
    return d.scale(-1) if isinstance(d, Deg) else d


def _scale(d, k):
    if isinstance(d, Deg):
        return d.scale(k)
    if isinstance(d, Zero):
        return ZERO if k > 0 else Unknown_("zero to a non-positive power")
    return d


def _mul(a, b):
    for x in (a, b):
        if isinstance(x, (NonHom, Unknown_)):
            return x
    if isinstance(a, Zero) or isinstance(b, Zero):
        return ZERO
    return a + b


def _join(ds: list, what: str):
    for x in ds:
        if isinstance(x, NonHom):
            return x
    for x in ds:
        if isinstance(x, Unknown_):
            return x
    degs = {d for d in ds if isinstance(d, Deg)}
    if not degs:
        return ZERO
    if len(degs) > 1:
        return NonHom(f"{what}: terms of " + " and ".join(sorted(str(d) for d in degs)))
    return next(iter(degs))
