"""C05 — results independent of worker count / completion order (multiprocessing).

R1 arrival-order taint: results of the unordered parallel map must not be placed, reduced
   or exposed by arrival position (keyed placement or a `sorted` barrier is required).
R2 worker callables have per-task disjoint effects (no globals, no unseeded RNG, no clock,
   file writes only below paths derived from the task's own arguments).
R3 the worker count reaches nothing but pool sizes, dispatch tests and log calls.
"""

from __future__ import annotations

import ast

from ..dataflow import _targets, all_def_values
from ..effects import classify_call, summaries
from ..model import AnalysisError, ClassInfo, FuncInfo, dotted, norm_stmt, unparse, walk_no_nested
from .common import QUICK, calls_in, kwarg, parents_map

EXPLANATION = (
    "Static taint analysis on /repo's current source. Sources are all call sites of the unordered parallel map "
    "(parallel.iter_unordered and the generators it dispatches to). In every consumer the analysis follows the "
    "iterator through order-preserving wrappers and decides, for all completion orders at once, that no item is "
    "placed by its arrival position (enumerate index, counter, append order, zip), reduced by an order-dependent "
    "accumulation, or exposed in an arrival-ordered container that is later iterated without `sorted` (field-"
    "sensitive for the patch dictionary of Catalog). R2 checks the callables handed to the map for effects shared "
    "between tasks, R3 that the worker count never flows into a computed value."
)
ASSUMPTIONS = [
    "imap_unordered / the MPI dispatcher may deliver results in any order; a sequential map delivers in input order",
    "dict preserves insertion order, so a dict filled while iterating an unordered map is arrival-ordered",
    "floating-point addition is not associative: accumulating items in arrival order is order-dependent",
    "sorted(…) over keys that are functions of the item only is an order barrier",
]

SOURCE_NAMES = {"iter_unordered", "_multiprocessing_iter_unordered", "_mpi_iter_unordered", "imap_unordered"}
ORDER_FREE_CALLS = {"len", "sorted", "set", "frozenset", "any", "all", "max", "min", "isinstance", "id", "type", "bool"}
POSITIONAL_CALLS = {"list", "tuple", "zip", "enumerate", "next", "iter", "sum", "dict", "reduce", "array", "asarray", "fromiter", "concatenate", "stack", "vstack", "hstack", "column_stack", "map", "filter", "reversed", "join"}


def _is_source_call(prog, fi: FuncInfo, call: ast.Call) -> bool:
    tg = prog.resolve_call(fi, call)
    if any(t.name in SOURCE_NAMES for t in tg.funcs()):
        return True
    f = call.func
    return isinstance(f, ast.Attribute) and f.attr == "imap_unordered"


def _passthrough_classes(prog) -> set[ClassInfo]:
    """Classes whose __iter__ yields exactly the items of the iterable given to __init__."""
    out = set()
    for ci in prog.classes:
        init, it = ci.methods.get("__init__"), ci.methods.get("__iter__")
        if init is None or it is None:
            continue
        params = init.param_names()
        if len(params) < 2:
            continue
        first = params[1]
        attrs = set()
        for x in walk_no_nested(init.node):
            if isinstance(x, ast.Assign) and isinstance(x.value, ast.Name) and x.value.id == first:
                for t in x.targets:
                    if isinstance(t, ast.Attribute):
                        attrs.add(t.attr)
        if not attrs:
            continue
        if _yields_only_items_of(ci, it, attrs, 0):
            out.add(ci)
    return out


def _class_method_table(ci: ClassInfo, name: str) -> list | None:
    """the methods listed as values of a class-level dict `NAME = {key: method, …}` (a dispatch table)"""
    for st in ci.node.body:
        if isinstance(st, (ast.Assign, ast.AnnAssign)):
            tgt = st.targets[0] if isinstance(st, ast.Assign) else st.target
            if isinstance(tgt, ast.Name) and tgt.id == name and isinstance(st.value, ast.Dict):
                ms = [ci.methods.get(v.id) if isinstance(v, ast.Name) else None for v in st.value.values]
                return ms if ms and all(m is not None for m in ms) else None
    return None


def _yields_only_items_of(ci: ClassInfo, fn: FuncInfo, attrs: set, depth: int) -> bool:
    """every value the generator `fn` yields is an item of self.<attr> (attr in attrs), in the order of that
    iterable: `yield from self.attr`, `for item in self.attr: … yield item`, or `yield from` another such generator
    of the class — called by name or taken from a class-level dispatch table of such generators"""
    if depth > 3:
        return False
    ys = [x for x in walk_no_nested(fn.node) if isinstance(x, (ast.Yield, ast.YieldFrom))]
    if not ys:
        return False
    loop_items = set()
    for x in walk_no_nested(fn.node):
        if not isinstance(x, ast.For):
            continue
        src, item = x.iter, x.target
        if isinstance(src, ast.Call) and isinstance(src.func, ast.Name) and src.func.id == "enumerate" and src.args and isinstance(item, ast.Tuple) and len(item.elts) == 2:
            src, item = src.args[0], item.elts[1]  # for i, item in enumerate(self.attr, 1)
        if isinstance(src, ast.Call) and isinstance(src.func, ast.Name) and src.func.id == "iter" and len(src.args) == 1:
            src = src.args[0]
        if isinstance(src, ast.Attribute) and src.attr in attrs and isinstance(item, ast.Name):
            loop_items.update(id(y) for y in ast.walk(x) if isinstance(y, ast.Yield) and isinstance(y.value, ast.Name) and y.value.id == item.id)
    local_tables: dict = {}
    for x in walk_no_nested(fn.node):
        if isinstance(x, ast.Assign) and len(x.targets) == 1 and isinstance(x.targets[0], ast.Name) and isinstance(x.value, ast.Subscript) and isinstance(x.value.value, ast.Attribute) and isinstance(x.value.value.value, ast.Name) and x.value.value.value.id in ("self", "cls", ci.name):
            local_tables[x.targets[0].id] = _class_method_table(ci, x.value.value.attr)
    for y in ys:
        if isinstance(y, ast.Yield):
            if id(y) not in loop_items:
                return False
            continue
        v = y.value
        if isinstance(v, ast.Attribute) and v.attr in attrs:
            continue
        if isinstance(v, ast.Call):
            cands = None
            f = v.func
            if isinstance(f, ast.Attribute) and isinstance(f.value, ast.Name) and f.value.id == "self":
                m = ci.methods.get(f.attr)
                cands = [m] if m is not None else None
            elif isinstance(f, ast.Name) and f.id in local_tables and len(v.args) == 1 and isinstance(v.args[0], ast.Name) and v.args[0].id == "self":
                cands = local_tables[f.id]
            elif isinstance(f, ast.Subscript) and isinstance(f.value, ast.Attribute) and isinstance(f.value.value, ast.Name) and f.value.value.id in ("self", "cls", ci.name) and len(v.args) == 1 and isinstance(v.args[0], ast.Name) and v.args[0].id == "self":
                cands = _class_method_table(ci, f.value.attr)
            if cands and all(_yields_only_items_of(ci, m, attrs, depth + 1) for m in cands):
                continue
        return False
    return True


class _Taint:
    def __init__(self, prog, res, fi: FuncInfo, passthrough) -> None:
        self.prog, self.res, self.fi = prog, res, fi
        self.pm = parents_map(fi.node)
        self.passthrough = passthrough
        self.iters: set[str] = set()  # names bound to an arrival-ordered iterator
        self.containers: set[str] = set()  # names bound to arrival-ordered list-like containers
        self.dicts: set[str] = set()  # names bound to arrival-ordered dicts (keyed by item)
        self.returns_dict = False
        self.returns_iter = False
        self.sites = 0

    # -- expression classification ------------------------------------------------
    def kind(self, e: ast.AST) -> str | None:
        """'iter' | 'cont' | 'dict' | None for an expression."""
        if isinstance(e, ast.Name):
            if e.id in self.iters:
                return "iter"
            if e.id in self.containers:
                return "cont"
            if e.id in self.dicts:
                return "dict"
            return None
        if isinstance(e, ast.Call):
            if _is_source_call(self.prog, self.fi, e):
                return "iter"
            tg = self.prog.resolve_call(self.fi, e)
            if any(c in self.passthrough for c in tg.classes()) and e.args and self.kind(e.args[0]) == "iter":
                return "iter"
            fn = (dotted(e.func) or "").split(".")[-1]
            if fn == "sorted":
                return None
            if fn in ("iter", "reversed", "enumerate") and e.args and self.kind(e.args[0]):
                return "iter"
            if fn in ("list", "tuple", "array", "asarray", "fromiter", "concatenate", "stack", "vstack", "hstack") and e.args and self.kind(e.args[0]) in ("iter", "cont"):
                return "cont"
            if fn == "dict" and e.args and self.kind(e.args[0]) in ("iter", "cont"):
                return "dict"
            if fn in ("bcast", "Bcast", "bcast_instance", "deepcopy", "copy") and e.args and self.kind(e.args[0]):
                return self.kind(e.args[0])
            # calls of in-repo functions that return an arrival-ordered dict
            for t in tg.funcs():
                if t in _DICT_SOURCES:
                    return "dict"
            return None
        if isinstance(e, (ast.ListComp, ast.GeneratorExp, ast.SetComp)):
            if any(self.kind(g.iter) in ("iter", "cont") for g in e.generators):
                return "cont"
            return None
        if isinstance(e, ast.DictComp):
            if any(self.kind(g.iter) in ("iter", "cont") for g in e.generators):
                return "dict"
            return None
        if isinstance(e, ast.IfExp):
            return self.kind(e.body) or self.kind(e.orelse)
        return None

    # -- propagate through assignments (fixpoint) -----------------------------------
    def propagate(self) -> None:
        changed = True
        while changed:
            changed = False
            for x in walk_no_nested(self.fi.node):
                if isinstance(x, ast.Assign):
                    k = self.kind(x.value)
                    if k is None:
                        continue
                    for t in x.targets:
                        if isinstance(t, ast.Name):
                            s = {"iter": self.iters, "cont": self.containers, "dict": self.dicts}[k]
                            if t.id not in s:
                                s.add(t.id)
                                changed = True

    # -- sinks -------------------------------------------------------------------------
    def report(self, node, msg, key) -> None:
        self.res.violation("C05.R1", self.fi, node, msg, key_extra=key)

    def check_loop(self, loop: ast.For) -> None:
        """for TARGET in <tainted iterator>  /  for i, TARGET in enumerate(<tainted>)"""
        it = loop.iter
        pos_vars: set[str] = set()
        item_vars: set[str] = set()
        if isinstance(it, ast.Call) and isinstance(it.func, ast.Name) and it.func.id == "enumerate":
            if isinstance(loop.target, (ast.Tuple, ast.List)) and len(loop.target.elts) == 2:
                pos_vars.update(_targets(loop.target.elts[0]))
                item_vars.update(_targets(loop.target.elts[1]))
            else:
                pos_vars.update(_targets(loop.target))
        elif isinstance(it, ast.Call) and isinstance(it.func, ast.Name) and it.func.id == "zip":
            self.report(loop, "results of the unordered parallel map are zipped with another sequence: pairing depends on completion order", "zip-with-unordered")
            return
        else:
            item_vars.update(_targets(loop.target))
        # manual counters and item-derived locals
        counters: set[str] = set()
        for x in ast.walk(loop):
            if isinstance(x, ast.AugAssign) and isinstance(x.target, ast.Name) and isinstance(x.value, ast.Constant):
                counters.add(x.target.id)
        pos_vars |= counters
        changed = True
        while changed:
            changed = False
            for x in ast.walk(loop):
                if isinstance(x, ast.Assign):
                    names = {n.id for n in ast.walk(x.value) if isinstance(n, ast.Name)}
                    if names & pos_vars and not isinstance(x.value, ast.Call) or (isinstance(x.value, ast.Call) and names & pos_vars and (dotted(x.value.func) or "") in ("int", "len")):
                        for t in x.targets:
                            for nm in _targets(t):
                                if nm not in pos_vars:
                                    pos_vars.add(nm)
                                    changed = True
                    if names & item_vars:
                        for t in x.targets:
                            for nm in _targets(t):
                                if nm not in item_vars and nm not in pos_vars:
                                    item_vars.add(nm)
                                    changed = True
                elif isinstance(x, ast.For) and x is not loop:
                    names = {n.id for n in ast.walk(x.iter) if isinstance(n, ast.Name)}
                    if names & item_vars and not (names & pos_vars):
                        # e.g. `for i, counts in enumerate(item.counts)`: positions inside one item are fine
                        for nm in _targets(x.target):
                            if nm not in item_vars:
                                item_vars.add(nm)
                                changed = True
        ok_here = True
        for x in ast.walk(loop):
            # (i) positional store
            if isinstance(x, (ast.Assign, ast.AugAssign)):
                targets = x.targets if isinstance(x, ast.Assign) else [x.target]
                for t in targets:
                    if isinstance(t, ast.Subscript):
                        idx_names = {n.id for n in ast.walk(t.slice) if isinstance(n, ast.Name)}
                        if idx_names & pos_vars:
                            val_names = {n.id for n in ast.walk(x.value) if isinstance(n, ast.Name)}
                            if val_names & item_vars or isinstance(x, ast.AugAssign):
                                ok_here = False
                                self.report(
                                    x,
                                    f"result of the unordered parallel map is stored at its arrival position ({unparse(t)}): "
                                    "row order (and every jackknife sample built from it) depends on which worker finishes first",
                                    "store-at-arrival-index",
                                )
                # (iii) order-dependent accumulation
                if isinstance(x, ast.AugAssign) and isinstance(x.target, ast.Name) and isinstance(x.op, (ast.Add, ast.Sub, ast.Mult, ast.Div)):
                    val_names = {n.id for n in ast.walk(x.value) if isinstance(n, ast.Name)}
                    if val_names & item_vars and x.target.id not in counters:
                        ok_here = False
                        self.report(x, "items of the unordered parallel map are accumulated in arrival order (floating-point accumulation is order-dependent)", "accumulate-in-arrival-order")
            # (ii) append / extend / insert -> arrival ordered container
            if isinstance(x, ast.Call) and isinstance(x.func, ast.Attribute) and x.func.attr in ("append", "extend", "insert", "appendleft") and isinstance(x.func.value, ast.Name):
                arg_names = {n.id for a in x.args for n in ast.walk(a) if isinstance(n, ast.Name)}
                if arg_names & (item_vars | pos_vars):
                    self.containers.add(x.func.value.id)
            # method calls with a position argument, e.g. obj.set_row(i, item)
            if isinstance(x, ast.Call) and not (isinstance(x.func, ast.Attribute) and x.func.attr in ("append", "debug", "info", "display")):
                argn = [{n.id for n in ast.walk(a) if isinstance(n, ast.Name)} for a in [*x.args, *[k.value for k in x.keywords]]]
                if any(a & pos_vars for a in argn) and any(a & item_vars for a in argn):
                    fn = (dotted(x.func) or "").split(".")[-1]
                    if fn not in ("print", "format", "display", "debug", "info", "warning"):
                        ok_here = False
                        self.report(x, f"arrival position and item are passed together to {fn}(): placement depends on completion order", "call-with-arrival-index")
        if ok_here:
            self.res.ok("C05.R1", self.res.site(self.fi, norm_stmt(loop)), "loop over the unordered map places results only by keys taken from the item")

    def check_uses(self) -> None:
        fi = self.fi
        for x in walk_no_nested(fi.node):
            if isinstance(x, ast.For) and self.kind(x.iter) == "iter" or (
                isinstance(x, ast.For)
                and isinstance(x.iter, ast.Call)
                and isinstance(x.iter.func, ast.Name)
                and x.iter.func.id in ("enumerate", "zip")
                and any(self.kind(a) in ("iter", "cont") for a in x.iter.args)
            ):
                self.sites += 1
                self.check_loop(x)
        self.propagate()
        for x in walk_no_nested(fi.node):
            if not isinstance(x, ast.Name) or not isinstance(x.ctx, ast.Load):
                continue
            k = self.kind(x)
            if k is None:
                continue
            parent = self.pm.get(id(x))
            self.use(x, k, parent)
        # comprehensions / calls directly over a source call expression
        for x in walk_no_nested(fi.node):
            if isinstance(x, ast.Call) and (_is_source_call(self.prog, fi, x) or any(t in _DICT_SOURCES for t in self.prog.resolve_call(fi, x).funcs())):
                parent = self.pm.get(id(x))
                k = self.kind(x)
                if k and (not isinstance(parent, ast.Assign) or any(isinstance(t, ast.Attribute) for t in parent.targets)):
                    self.use(x, k, parent)

    def use(self, x: ast.AST, k: str, parent) -> None:
        fi = self.fi
        if isinstance(parent, ast.For) and parent.iter is x:
            if k == "cont":
                self.report(parent, "an arrival-ordered container is iterated without sorted(): downstream order depends on completion order", "iterate-arrival-container")
            elif k == "dict":
                self.report(parent, "an arrival-ordered dict is iterated without sorted()", "iterate-arrival-dict")
            return
        if isinstance(parent, ast.comprehension) and parent.iter is x:
            comp = self.pm.get(id(parent))
            if isinstance(comp, ast.DictComp) and k in ("iter", "cont"):
                tv = set(_targets(parent.target))
                knames = {n.id for n in ast.walk(comp.key) if isinstance(n, ast.Name)}
                loc = {n.id for g in comp.generators for n in ast.walk(g.target) if isinstance(n, ast.Name)}
                if knames and knames <= (tv | loc | self._globals_ok(knames)):
                    self.sites += 1
                    self.res.ok("C05.R1", self.res.site(fi, norm_stmt(comp)), "dict keyed by a function of the item; its iteration order is checked separately")
                else:
                    self.report(comp, "dict built from the unordered map is not keyed by the item", "dict-not-keyed-by-item")
            elif isinstance(comp, ast.DictComp) and k == "dict":
                self.report(comp, "an arrival-ordered dict is iterated without sorted()", "iterate-arrival-dict")
            else:
                # list / generator / set comprehension: container kind handled through propagate(); direct return etc.
                gp = self.pm.get(id(comp))
                if isinstance(gp, ast.Call) and (dotted(gp.func) or "").split(".")[-1] in ("sorted", "set", "frozenset", "any", "all", "max", "min", "len"):
                    self.res.ok("C05.R1", self.res.site(fi, norm_stmt(gp)), "order-free consumption of the unordered map")
                elif isinstance(gp, ast.Assign):
                    pass
                else:
                    self.sites += 1
                    self.report(comp, "a sequence is built from the unordered map in arrival order and used without sorted()", "sequence-in-arrival-order")
            return
        if isinstance(parent, ast.Starred):
            # zip(*results): the columns of an arrival-ordered list of (key, value) items are arrival-ordered sequences;
            # what they are bound to is followed by propagate() / the uses of those names
            gp = self.pm.get(id(parent))
            if isinstance(gp, ast.Call) and (dotted(gp.func) or "").split(".")[-1] == "zip":
                ggp = self.pm.get(id(gp))
                if isinstance(ggp, ast.Assign):
                    for t in ggp.targets:
                        for nm in _targets(t):
                            self.containers.add(nm)
                    return
            self.sites += 1
            self.report(parent, "an arrival-ordered container is unpacked positionally", "positional-unpack")
            return
        if isinstance(parent, ast.Call) and (dotted(parent.func) or "").split(".")[-1] == "argsort" and x is not parent.func and k in ("cont", "iter"):
            # np.argsort(<keys in arrival order>) is the GATHER permutation: values[argsort(keys)] are the values in key
            # order (a sorted barrier); used as the index of a STORE it applies the inverse permutation — right only when
            # the arrival order happens to be its own inverse (identity, single swaps, reversal)
            perm_names = set()
            gp = self.pm.get(id(parent))
            if isinstance(gp, ast.Assign) and len(gp.targets) == 1 and isinstance(gp.targets[0], ast.Name):
                perm_names.add(gp.targets[0].id)
            verdict = None
            for y in walk_no_nested(fi.node):
                if isinstance(y, ast.Subscript) and (any(z is parent for z in ast.walk(y.slice)) or any(isinstance(z, ast.Name) and z.id in perm_names for z in ast.walk(y.slice))):
                    if isinstance(y.ctx, ast.Store):
                        verdict = ("scatter", y)
                        break
                    verdict = verdict or ("gather", y)
            self.sites += 1
            if verdict is not None and verdict[0] == "scatter":
                self.report(self.pm.get(id(verdict[1])) or verdict[1], f"`{unparse(verdict[1])[:60]} = …` stores the arrival-ordered values at the positions np.argsort(keys): argsort is the gather permutation, as a store index it applies the inverse — the rows land under the right key only for arrival orders that are their own inverse (in order, two swapped, reversed), otherwise under another patch", "argsort-as-scatter-index")
            elif verdict is not None:
                self.res.ok("C05.R1", self.res.site(fi, norm_stmt(verdict[1])[:60]), "values gathered in key order through np.argsort(keys)")
            else:
                self.report(parent, "np.argsort of an arrival-ordered key sequence is computed but its use as a gather / store index was not recognised", "argsort-use-unknown")
            return
        if isinstance(parent, ast.Call):
            fn = (dotted(parent.func) or "").split(".")[-1]
            tg = self.prog.resolve_call(fi, parent)
            if x is parent.func:
                return
            if fn == "deque" and kwarg(parent, "maxlen") is not None and isinstance(kwarg(parent, "maxlen"), ast.Constant) and kwarg(parent, "maxlen").value == 0:
                self.sites += 1
                self.res.ok("C05.R1", self.res.site(fi, norm_stmt(parent)), "results discarded (deque(maxlen=0))")
                return
            if fn in ORDER_FREE_CALLS:
                self.res.ok("C05.R1", self.res.site(fi, norm_stmt(parent)), f"order-free use {fn}()", nontrivial=False)
                return
            if any(c in self.passthrough for c in tg.classes()) or (fn in ("bcast", "Bcast", "bcast_instance", "deepcopy", "copy") and self.kind(parent)):
                # order-preserving wrapper: the wrapped value is used where the wrapper is used
                gp = self.pm.get(id(parent))
                if not isinstance(gp, ast.Assign) or any(isinstance(t, ast.Attribute) for t in gp.targets):
                    self.use(parent, self.kind(parent) or k, gp)
                return
            if k == "dict" and fn in ("len",):
                return
            if fn in POSITIONAL_CALLS or k == "iter" or fn in ("fromiter", "array"):
                if fn in ("list", "tuple", "iter", "enumerate", "reversed", "array", "asarray", "fromiter", "concatenate", "stack", "vstack", "hstack", "dict") and isinstance(self.pm.get(id(parent)), (ast.Assign, ast.For)):
                    return  # becomes a tainted name; its uses are checked
                gp = self.pm.get(id(parent))
                if fn in ("list", "tuple", "iter", "enumerate") and isinstance(gp, ast.Call) and (dotted(gp.func) or "").split(".")[-1] in ORDER_FREE_CALLS:
                    return
                self.sites += 1
                self.report(parent, f"the unordered map (or a container filled in arrival order) is consumed positionally by {fn}()", f"positional-{fn}")
                return
            # passed to some other function: conservative -> that function sees arrival order
            if k in ("cont", "iter"):
                self.report(parent, f"an arrival-ordered sequence is passed to {fn}() without sorted()", f"escape-{fn}")
            return
        if isinstance(parent, ast.Return):
            if k == "dict":
                self.returns_dict = True
            elif k == "iter":
                self.returns_iter = True
            else:
                self.report(parent, "a container filled in arrival order is returned without sorted()", "return-arrival-container")
            return
        if isinstance(parent, (ast.YieldFrom, ast.Yield)):
            self.returns_iter = True
            return
        if isinstance(parent, ast.Attribute) and k == "dict":
            gp = self.pm.get(id(parent))
            if parent.attr in ("values", "items", "keys") and isinstance(gp, ast.Call):
                ggp = self.pm.get(id(gp))
                if isinstance(ggp, ast.Call) and (dotted(ggp.func) or "").split(".")[-1] in ORDER_FREE_CALLS:
                    return
                self.report(gp, f"arrival-ordered dict is traversed with .{parent.attr}() without sorted()", "dict-traversal")
            return
        if isinstance(parent, ast.Subscript) and parent.value is x:
            if k == "cont":
                sl = parent.slice
                if not isinstance(sl, ast.Slice):
                    self.report(parent, "positional access into a container filled in arrival order", "index-arrival-container")
            return
        if isinstance(parent, ast.Assign):
            # stored into an attribute: field-sensitive check happens in rule_r1
            for t in parent.targets:
                if isinstance(t, ast.Attribute) and k == "dict":
                    _DICT_FIELDS.add(t.attr)
                elif isinstance(t, ast.Attribute) and k in ("cont", "iter"):
                    self.report(parent, "an arrival-ordered sequence is stored in an attribute", "store-arrival-sequence")
            return

    def _globals_ok(self, names) -> set:
        out = set()
        for n in names:
            if self.prog.lookup(self.fi.module, n, self.fi.variant) or n in ("int", "str", "float", "tuple"):
                out.add(n)
        return out


_DICT_SOURCES: set = set()
_DICT_FIELDS: set = set()


def rule_r1(prog, res) -> None:
    """no result of an unordered parallel map is placed / reduced / exposed by arrival position"""
    _DICT_SOURCES.clear()
    _DICT_FIELDS.clear()
    passthrough = _passthrough_classes(prog)
    impl = {f for f in prog.funcs if f.name in SOURCE_NAMES}
    consumers = []
    for fi in prog.funcs:
        if fi in impl:
            continue
        if any(_is_source_call(prog, fi, c) for c in calls_in(fi)):
            consumers.append(fi)
    if len(consumers) < 4:
        raise AnalysisError(f"C05.R1: only {len(consumers)} consumers of the unordered parallel map found, hand-confirmed minimum is 4")
    # pass 1: consumers; pass 2: functions that receive an arrival-ordered dict from them
    work = list(consumers)
    done = set()
    total_sites = 0
    while work:
        fi = work.pop(0)
        if fi in done:
            continue
        done.add(fi)
        res.touch(fi)
        # helpers of the same module that receive the iterator (or what was built from it) are looked through: the
        # analysis runs on the consumer with those calls expanded in place
        from ..inline import inlined

        try:
            fi_an = inlined(prog, fi, keep=set(SOURCE_NAMES))
        except Exception:  # noqa: BLE001 - an unusual helper shape: analyse the function as written
            fi_an = fi
        t = _Taint(prog, res, fi_an, passthrough)
        t.propagate()
        t.check_uses()
        total_sites += t.sites
        if t.sites == 0 and fi in consumers:
            raise AnalysisError(f"C05.R1: consumer {fi.short} uses the unordered map in an unrecognised way")
        if t.returns_iter:
            raise AnalysisError(f"C05.R1: {fi.short} re-exports the unordered iterator (new source, not analysed)")
        if t.returns_dict and fi not in _DICT_SOURCES:
            _DICT_SOURCES.add(fi)
            for g in prog.funcs:
                if g not in done and any(fi in prog.resolve_call(g, c).funcs() for c in calls_in(g)):
                    work.append(g)
    # field-sensitive: attributes that hold an arrival-ordered dict
    for field in sorted(_DICT_FIELDS):
        n_uses = 0
        for fi in prog.funcs:
            pm = None
            for x in walk_no_nested(fi.node):
                if not (isinstance(x, ast.Attribute) and x.attr == field and isinstance(x.ctx, ast.Load)):
                    continue
                n_uses += 1
                pm = pm or parents_map(fi.node)
                p = pm.get(id(x))
                ok, why = True, "order-free access"
                if isinstance(p, ast.Attribute) and p.attr in ("values", "items", "keys"):
                    call = pm.get(id(p))
                    outer = pm.get(id(call)) if isinstance(call, ast.Call) else None
                    if not (isinstance(outer, ast.Call) and (dotted(outer.func) or "").split(".")[-1] in ORDER_FREE_CALLS):
                        ok, why = False, f".{p.attr}() of the arrival-ordered patch dict is used without sorted()"
                elif isinstance(p, (ast.For, ast.comprehension)) and p.iter is x:
                    ok, why = False, "the arrival-ordered patch dict is iterated without sorted()"
                elif isinstance(p, (ast.YieldFrom, ast.Return)):
                    ok, why = False, "the arrival-ordered patch dict escapes"
                elif isinstance(p, ast.Call) and x in p.args and (dotted(p.func) or "").split(".")[-1] in ("list", "tuple", "iter", "next", "zip", "enumerate", "dict"):
                    ok, why = False, f"{(dotted(p.func) or '')}() over the arrival-ordered patch dict"
                if ok:
                    res.ok("C05.R1", res.site(fi, f".{field}"), why, nontrivial=isinstance(p, (ast.Call, ast.Attribute)))
                else:
                    res.violation(
                        "C05.R1", fi, x, f"{why}: iteration order of the catalog (patch order of every result and jackknife sample) depends on completion order", key_extra=f"field-{field}-unsorted"
                    )
        if n_uses == 0:
            raise AnalysisError(f"C05.R1: field {field} holds an arrival-ordered dict but is never read")
    res.count("C05.R1.consumers", len(consumers))


# ----------------------------------------------------------------------------- R2


def _worker_callables(prog):
    out = []
    for fi in prog.funcs:
        for c in calls_in(fi):
            tg = prog.resolve_call(fi, c)
            if any(t.name == "iter_unordered" for t in tg.funcs()) and c.args:
                env = prog.func_env(fi)
                for t in env.type_of(c.args[0]):
                    if t[0] == "func":
                        out.append((fi, t[1]))
                    elif t[0] == "bound":
                        out.append((fi, t[1]))
                    elif t[0] == "type":
                        m = prog.find_method(t[1], "__init__")
                        if m is not None:
                            out.append((fi, m))
    return out


def rule_r2(prog, res) -> None:
    """worker callables: no shared mutable state between tasks"""
    S = summaries(prog)
    workers = _worker_callables(prog)
    if len(workers) < 4:
        raise AnalysisError(f"C05.R2: only {len(workers)} worker callables found, minimum 4")
    for user, w in workers:
        res.touch(w)
        bad = []
        for f in S.reachable(w):
            if not f.module.name.startswith("yaw.") or f.module.name.startswith("yaw.utils.logging"):
                continue
            for x in walk_no_nested(f.node):
                if isinstance(x, (ast.Global, ast.Nonlocal)):
                    bad.append((f, x, "assigns a module-level / enclosing variable"))
            for e in S.direct(f):
                if e.kind == "rng" and e.op.startswith("global:") and not any(s in e.op for s in ("SeedSequence", "default_rng")):
                    bad.append((f, e.call, "draws from numpy's global random state"))
                if e.kind == "fs" and e.subject is not None and (e.op in ("write", "unlink", "mkdir", "rmtree", "replace") or (e.op == "open" and e.mode and e.mode[0] in "wax")):
                    roots = {n.id for n in ast.walk(e.subject) if isinstance(n, ast.Name)}
                    params = set(f.param_names())
                    local_defs = {nm for nm in roots if all_def_values(f.node, nm)} | {
                        it.optional_vars.id for it in ast.walk(f.node) if isinstance(it, ast.withitem) and isinstance(it.optional_vars, ast.Name)
                    }
                    free = roots - params - local_defs - {"Path", "str"}
                    free = {r for r in free if not r.isupper()}
                    if free:
                        bad.append((f, e.call, f"writes a file whose path comes from shared state ({', '.join(sorted(free))})"))
            for c in calls_in(f):
                tg = prog.resolve_call(f, c)
                if any(n in ("time.time", "time.perf_counter", "timeit.default_timer", "os.getpid", "uuid.uuid4") for n in tg.ext_names()):
                    bad.append((f, c, "reads the clock / process identity"))
        if bad:
            f, node, why = bad[0]
            res.violation("C05.R2", f, node, f"worker task reachable from {w.short} {why}: results can depend on scheduling", key_extra=f"worker-{w.qualname}-shared-effect")
        else:
            res.ok("C05.R2", res.site(w, f"worker of {user.short}"), "no global store, no unseeded RNG, no clock, file writes only below paths derived from the task arguments")


# ----------------------------------------------------------------------------- R3


def rule_r3(prog, res) -> None:
    """the worker count never flows into a computed value"""
    names = {"max_workers", "num_processes", "num_workers", "num_threads"}
    scope = [f for f in prog.funcs if f.module.name in ("yaw.utils.parallel", "yaw.correlation.measurements", "yaw.redshifts") or f.qualname in ("load_patches", "Catalog.build_trees", "Catalog.__init__")]
    n = 0
    # frozen exception: this function selects the *set of worker ranks* (the MPI pool size)
    exempt = {("yaw.utils.parallel", "ranks_on_same_node")}
    for fi in scope:
        if (fi.module.name, fi.qualname) in exempt:
            continue
        tainted = {p for p in fi.param_names() if p in names}
        changed = True
        while changed:
            changed = False
            for x in walk_no_nested(fi.node):
                if isinstance(x, ast.Assign):
                    vn = {y.id for y in ast.walk(x.value) if isinstance(y, ast.Name)}
                    call_ok = isinstance(x.value, ast.Call) and (dotted(x.value.func) or "").split(".")[-1] in ("get_size", "min", "max", "int", "len", "_num_processes")
                    if (vn & tainted) and (call_ok or not isinstance(x.value, ast.Call)):
                        for t in x.targets:
                            for nm in _targets(t):
                                if nm not in tainted and not isinstance(x.value, (ast.Dict,)) and not (isinstance(x.value, ast.Call) and (dotted(x.value.func) or "") == "dict"):
                                    tainted.add(nm)
                                    changed = True
        if not tainted:
            continue
        pm = parents_map(fi.node)
        bad = None
        for x in walk_no_nested(fi.node):
            if isinstance(x, ast.Name) and x.id in tainted and isinstance(x.ctx, ast.Load):
                n += 1
                p = pm.get(id(x))
                child = x
                while isinstance(p, (ast.BoolOp, ast.IfExp)) and not (isinstance(p, ast.IfExp) and p.test is child):
                    child, p = p, pm.get(id(p))
                x = child
                if isinstance(p, ast.BinOp) and isinstance(p.op, (ast.Add, ast.Sub, ast.Mult, ast.Div, ast.FloorDiv, ast.Mod, ast.Pow)):
                    bad = (x, "arithmetic")
                elif isinstance(p, ast.Subscript) and p.slice is x:
                    bad = (x, "subscript index")
                elif isinstance(p, ast.Slice):
                    bad = (x, "slice bound")
                elif isinstance(p, ast.Call) and x in p.args:
                    fn = dotted(p.func) or ""
                    if fn.startswith(("np.", "numpy.")):
                        bad = (x, f"argument of {fn}")
        if bad:
            res.violation("C05.R3", fi, bad[0], f"the worker count flows into a computed value ({bad[1]}): results depend on the number of workers", key_extra="worker-count-in-value")
        else:
            res.ok("C05.R3", res.site(fi, "worker count"), "worker count only reaches pool sizes, dispatch tests and log calls")
    if n < 10:
        raise AnalysisError("C05.R3: worker-count parameters vanished from the parallel entry points")


def rule_r4(prog, res) -> None:
    """no hidden per-process state: a memo differs between worker processes / ranks and between runs"""
    from .common import memo_rule

    memo_rule(prog, res, "C05.R4", lambda f: f.module.name.startswith(("yaw.correlation", "yaw.redshifts", "yaw.catalog", "yaw.utils")), "results depend on what this process computed before")


def rule_r5(prog, res) -> None:
    """objects travel to worker processes / ranks by pickle: the state protocol is complete.
    __getstate__ hands out every slot under its own name, __setstate__ restores every key it is given
    (decided on the symbolic store of the two methods)."""
    from .. import symx

    n = 0
    for ci in prog.classes:
        gs, ss = ci.methods.get("__getstate__"), ci.methods.get("__setstate__")
        if gs is None and ss is None:
            continue
        slots = [s_ for s_ in prog.all_slots(ci) if not s_.startswith("__")]
        n += 1
        keys = None
        if gs is not None:
            res.touch(gs)
            rets = [p for p in symx.explore(prog, gs, inline=symx.inline_private_helpers(prog)) if p.outcome == "return" and p.value is not None]
            keysets = []
            for p in rets:
                v = p.value
                if isinstance(v, ast.Call) and (dotted(v.func) or "") == "dict" and not v.args:
                    keysets.append({k.arg: k.value for k in v.keywords if k.arg})
                elif isinstance(v, ast.Dict) and all(isinstance(k, ast.Constant) for k in v.keys):
                    keysets.append({k.value: x for k, x in zip(v.keys, v.values)})
                elif isinstance(v, ast.DictComp):
                    keysets.append(None)  # generic: built from the slots
                else:
                    raise AnalysisError(f"C05.R5: state returned by {gs.short} not recognised ({unparse(v)[:60]})")
            for ks in keysets:
                if ks is None:
                    continue
                keys = set(ks) if keys is None else keys & set(ks)
                missing = [s_ for s_ in slots if s_ not in ks]
                wrong = [k for k, x in ks.items() if k in slots and not any(isinstance(y, ast.Attribute) and y.attr == k for y in ast.walk(x))]
                if missing:
                    res.violation("C05.R5", gs, gs.node, f"{ci.name}.__getstate__ leaves out {missing}: an instance sent to a worker process is rebuilt without it (falls back to a default)", key_extra=f"getstate-missing-{ci.name}")
                elif wrong:
                    res.violation("C05.R5", gs, gs.node, f"{ci.name}.__getstate__ stores {wrong} from another attribute", key_extra=f"getstate-wrong-{ci.name}")
                else:
                    res.ok("C05.R5", res.site(gs), f"state holds every slot {slots}")
        if ss is not None:
            res.touch(ss)
            st_param = ss.param_names()[1]
            paths = symx.explore(prog, ss, inline=symx.inline_private_helpers(prog))
            generic = False
            read = set()
            spread = False
            for p in paths:
                for ev in p.events:
                    for x in ast.walk(ev.expr) if ev.expr is not None else []:
                        if isinstance(x, ast.Subscript) and isinstance(x.value, ast.Name) and x.value.id == st_param and isinstance(x.slice, ast.Constant):
                            read.add(x.slice.value)
                        if isinstance(x, ast.Call) and any(k.arg is None and isinstance(k.value, ast.Name) and k.value.id == st_param for k in x.keywords):
                            spread = True
                    if ev.kind == "call" and ev.callee == "setattr" and len(ev.expr.args) == 3 and symx.mentions(ev.expr.args[1], lambda y: isinstance(y, ast.Call) and isinstance(y.func, ast.Attribute) and y.func.attr == "items"):
                        generic = True
                    if ev.kind == "call" and ev.callee == "update" and symx.mentions(ev.expr, lambda y: isinstance(y, ast.Name) and y.id == st_param):
                        generic = True
            expected = keys if keys is not None else set(slots)
            if generic or spread:
                res.ok("C05.R5", res.site(ss), "every key of the state is restored")
            elif expected and not expected <= read:
                res.violation("C05.R5", ss, ss.node, f"{ci.name}.__setstate__ restores only {sorted(read)} of the state {sorted(expected)}: the rest silently takes the constructor default in the receiving process", key_extra=f"setstate-partial-{ci.name}")
            else:
                res.ok("C05.R5", res.site(ss), f"restores {sorted(read)}")
    # __reduce__ / __reduce_ex__ / __getnewargs__: what is pickled are the arguments of the reconstructing call (and
    # an optional state); every data attribute of the instance must travel in it AS IT IS — a payload that is derived
    # through a method of the instance (e.g. a to_dict() meant for configuration files) may regenerate an attribute in
    # the receiving process from defaults (other cosmology -> other bin edges) instead of transporting it
    for ci in prog.classes:
        for mname in ("__reduce__", "__reduce_ex__", "__getnewargs__", "__getnewargs_ex__"):
            m = ci.methods.get(mname)
            if m is None:
                continue
            n += 1
            res.touch(m)
            slots = [s_ for s_ in prog.all_slots(ci) if not s_.startswith("__")] or [a for a in getattr(ci, "inst_attrs", {}) if not a.startswith("__")]
            rets = [p for p in symx.explore(prog, m, inline=symx.inline_private_helpers(prog)) if p.outcome == "return" and p.value is not None]
            for p in rets:
                payload = p.value.elts[1:] if isinstance(p.value, ast.Tuple) and mname.startswith("__reduce") else [p.value]
                direct = {y.attr for e in payload for y in ast.walk(e) if isinstance(y, ast.Attribute) and isinstance(y.value, ast.Name) and y.value.id == "self" and not any(isinstance(c_, ast.Call) and c_.func is y for c_ in ast.walk(e))}
                derived = [unparse(c_)[:40] for e in payload for c_ in ast.walk(e) if isinstance(c_, ast.Call) and isinstance(c_.func, ast.Attribute) and isinstance(c_.func.value, ast.Name) and c_.func.value.id == "self"]
                missing = [s_ for s_ in slots if s_ not in direct]
                if missing and derived:
                    res.violation(
                        "C05.R5",
                        m,
                        p.node or m.node,
                        f"{ci.name}.{mname} pickles {derived} instead of the attributes {missing} themselves: the instance that arrives in a worker process is rebuilt from derived parameters "
                        "(and the defaults of the reconstructing call), not a copy of what was configured",
                        key_extra=f"reduce-derived-{ci.name}",
                    )
                elif missing:
                    res.violation("C05.R5", m, p.node or m.node, f"{ci.name}.{mname} leaves out {missing}", key_extra=f"reduce-missing-{ci.name}")
                else:
                    res.ok("C05.R5", res.site(m), f"every data attribute {slots} travels in the pickled payload")
    if n < 3:
        raise AnalysisError(f"C05.R5: only {n} classes with a pickle state protocol found, minimum 3")


def rule_r6(prog, res) -> None:
    """what a worker reports for a patch does not depend on which pair of patches it was working on: every bin of the per-pair result is recorded on every path through the bin loop — a skipped bin leaves a value that differs from what other pairs report for the same patch, and the collector keeps whichever pair finished last (= C01.R5)"""
    from . import c01
    from .common import shared_rule

    shared_rule(res, c01.rule_r5, "C01", "C01.R5", "C05.R6")


RULES = [
    ("C05.R1", rule_r1, QUICK),
    ("C05.R2", rule_r2, QUICK),
    ("C05.R3", rule_r3, QUICK),
    ("C05.R4", rule_r4, QUICK),
    ("C05.R5", rule_r5, QUICK),
    ("C05.R6", rule_r6, QUICK),
]
