"""Reproducers for findings #1 (NormalisedCounts.__mul__), #2 (patch indexing with int),
#3 (SampledData +/-), #24 (rank guard of PatchedSumWeights).  exit 1 = defect"""
import sys
import numpy as np
from yaw.binning import Binning
from yaw.correlation.paircounts import PatchedCounts, PatchedSumWeights, NormalisedCounts
from yaw.correlation.corrdata import SampledData, CorrData
rc = 0
b = Binning([0.1, 0.5, 1.0])
rng = np.random.default_rng(0)
counts = PatchedCounts(b, rng.uniform(1, 2, (2, 3, 3)), auto=False)
sw = PatchedSumWeights(b, rng.uniform(1, 2, (2, 3)), rng.uniform(1, 2, (2, 3)), auto=False)
nc = NormalisedCounts(counts, sw)
def attempt(label, f, check=None):
    global rc
    try:
        r = f()
        if check is not None and not check(r):
            print("DEFECT:", label, "-> wrong result"); rc = 1
        else:
            print("ok    :", label)
    except Exception as e:
        print("DEFECT:", label, "->", type(e).__name__, e); rc = 1
attempt("NormalisedCounts * 2", lambda: nc * 2.0, lambda r: np.allclose(r.counts.counts, 2 * counts.counts))
attempt("PatchedCounts.patches[1]", lambda: counts.patches[1], lambda r: r.counts.shape == (2, 1, 1) and np.allclose(r.counts[:, 0, 0], counts.counts[:, 1, 1]))
attempt("PatchedCounts.patches[0:2]", lambda: counts.patches[0:2], lambda r: np.allclose(r.counts, counts.counts[:, 0:2, 0:2]))
attempt("iterate NormalisedCounts.patches", lambda: [p.num_patches for p in nc.patches], lambda r: r == [1, 1, 1])
sd = SampledData(b, np.array([1.0, 2.0]), rng.uniform(0, 1, (3, 2)))
attempt("SampledData + SampledData", lambda: sd + sd, lambda r: np.allclose(r.data, 2 * sd.data))
attempt("SampledData - SampledData", lambda: sd - sd, lambda r: np.allclose(r.data, 0))
def bad_rank():
    try:
        PatchedSumWeights(b, np.ones(2), np.ones(2), auto=False)
    except ValueError:
        return True
    return False
attempt("PatchedSumWeights rejects 1-D arrays", bad_rank, lambda r: r)
sys.exit(rc)
