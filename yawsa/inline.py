"""Syntax-level inlining of small helper functions into a copy of their caller.

`inlined(prog, fi, keep=…)` returns a FuncInfo whose body is `fi`'s body with calls to
helpers of the same module expanded in place (parameters bound to fresh locals, locals renamed,
tail `return`s turned into an assignment of a result variable).  Rules that reason over the
statement-level CFG of one function use it so that extracting a helper out of (or inlining a
helper into) the analysed function does not change what they see.  Helpers that cannot be
expanded faithfully (generators, returns inside loops, recursion, overridden methods, *args)
are left as calls."""

from __future__ import annotations

import ast
import copy

from .model import FuncInfo, Program

MAX_STMTS = 40


def _always_exits(stmts) -> bool:
    if not stmts:
        return False
    last = stmts[-1]
    if isinstance(last, (ast.Return, ast.Raise)):
        return True
    if isinstance(last, ast.If):
        return _always_exits(last.body) and _always_exits(last.orelse)
    if isinstance(last, ast.With):
        return _always_exits(last.body)
    return False


class _NotInlinable(Exception):
    pass


def _has_return(stmts) -> bool:
    for s in stmts:
        for x in ast.walk(s):
            if isinstance(x, (ast.FunctionDef, ast.AsyncFunctionDef, ast.Lambda)) and x is not s:
                continue
            if isinstance(x, ast.Return):
                return True
    return False


def _convert_returns(stmts, ret: str) -> list:
    """rewrite a statement list whose returns are all in tail position into one without returns
    that assigns the result to `ret`"""
    out = []
    for i, s in enumerate(stmts):
        rest = stmts[i + 1 :]
        if isinstance(s, ast.Return):
            a = ast.Assign(targets=[ast.Name(id=ret, ctx=ast.Store())], value=s.value if s.value is not None else ast.Constant(value=None))
            out.append(ast.copy_location(a, s))
            return out
        if isinstance(s, ast.If) and (_has_return(s.body) or _has_return(s.orelse)):
            body_exits, else_exits = _always_exits(s.body), _always_exits(s.orelse)
            new = copy.copy(s)
            if body_exits and else_exits:
                new.body = _convert_returns(s.body, ret)
                new.orelse = _convert_returns(s.orelse, ret)
            elif body_exits:
                new.body = _convert_returns(s.body, ret)
                new.orelse = _convert_returns(list(s.orelse) + list(rest), ret) or [ast.Pass()]
            elif else_exits:
                new.body = _convert_returns(list(s.body) + list(rest), ret) or [ast.Pass()]
                new.orelse = _convert_returns(s.orelse, ret)
            else:
                raise _NotInlinable("return inside a branch that can fall through")
            out.append(new)
            return out
        if isinstance(s, ast.With) and _has_return(s.body):
            if rest:
                raise _NotInlinable("return inside a with block that is not the last statement")
            new = copy.copy(s)
            new.body = _convert_returns(s.body, ret)
            out.append(new)
            return out
        if isinstance(s, ast.Try) and _has_return([s]) and not rest and not s.finalbody and not s.orelse:
            # a try block in tail position: `return` inside it ends the function; the assignment takes its place
            new = copy.copy(s)
            new.body = _convert_returns(s.body, ret)
            hs = []
            for h in s.handlers:
                h2 = copy.copy(h)
                h2.body = _convert_returns(h.body, ret) if _has_return(h.body) else h.body
                hs.append(h2)
            new.handlers = hs
            out.append(new)
            return out
        if isinstance(s, ast.Try) and _has_return([s]) and rest and not s.finalbody and not _has_return(s.body) and not _has_return(s.orelse) and all(_always_exits(h.body) for h in s.handlers):
            # every handler leaves the function: what follows the try statement runs only when no handler ran,
            # i.e. it is the else clause of the try (not guarded by the handlers either way)
            new = copy.copy(s)
            hs = []
            for h in s.handlers:
                h2 = copy.copy(h)
                h2.body = _convert_returns(h.body, ret)
                hs.append(h2)
            new.handlers = hs
            new.orelse = list(s.orelse) + _convert_returns(list(rest), ret)
            out.append(new)
            return out
        if isinstance(s, (ast.For, ast.While, ast.Try, ast.AsyncFor, ast.AsyncWith)) and _has_return([s]):
            raise _NotInlinable("return inside a loop or try block")
        out.append(s)
    return out


def _local_names(fn: ast.FunctionDef) -> set:
    names = set()
    a = fn.args
    for p in [*a.posonlyargs, *a.args, *a.kwonlyargs]:
        names.add(p.arg)
    for x in ast.walk(fn):
        if isinstance(x, ast.Name) and isinstance(x.ctx, (ast.Store, ast.Del)):
            names.add(x.id)
        elif isinstance(x, ast.ExceptHandler) and x.name:
            names.add(x.name)
        elif isinstance(x, (ast.Global, ast.Nonlocal)):
            raise _NotInlinable("global/nonlocal declaration")
        elif isinstance(x, (ast.FunctionDef, ast.AsyncFunctionDef)) and x is not fn:
            names.add(x.name)
        elif isinstance(x, ast.arg):
            names.add(x.arg)
    return names


class _Rename(ast.NodeTransformer):
    def __init__(self, names: set, prefix: str) -> None:
        self.names, self.prefix = names, prefix

    def visit_Name(self, n: ast.Name):
        if n.id in self.names:
            return ast.copy_location(ast.Name(id=self.prefix + n.id, ctx=n.ctx), n)
        return n

    def visit_arg(self, n: ast.arg):
        if n.arg in self.names:
            n = copy.copy(n)
            n.arg = self.prefix + n.arg
        return n

    def visit_ExceptHandler(self, n: ast.ExceptHandler):
        n = self.generic_visit(n)
        if n.name and n.name in self.names:
            n.name = self.prefix + n.name
        return n

    def visit_FunctionDef(self, n):
        n = self.generic_visit(n)
        if n.name in self.names:
            n.name = self.prefix + n.name
        return n


class Inliner:
    def __init__(self, prog: Program, keep: set | None = None, only: set | None = None, max_depth: int = 2, counter: int = 0) -> None:
        self.prog = prog
        self.keep = set(keep or ())
        self.only = set(only) if only else None
        self.max_depth = max_depth
        self.counter = counter
        self.expanded: list[str] = []

    # ------------------------------------------------------------------ which calls
    def _target(self, fi: FuncInfo, call: ast.Call, stack, allow_generator: bool = False) -> FuncInfo | None:
        try:
            tg = self.prog.resolve_call(fi, call)
        except Exception:  # noqa: BLE001
            return None
        funcs = tg.funcs()
        if len(funcs) != 1 or tg.classes() or not getattr(tg, "precise", True):
            return None  # (a callee found only by method name over the class hierarchy is not expanded)
        h = funcs[0]
        if h in stack or h.module is not fi.module or h.name in self.keep:
            return None
        if self.only is not None and h.name not in self.only:
            return None
        if h.is_property or h.is_abstract:
            return None
        if h.parent is not None and h.parent.node is not getattr(getattr(fi, "origin", fi), "node", None):
            return None  # a closure is expanded only inside the function that defines it (its free names stay valid)
        if h.cls is not None and any(h.name in sub.methods for sub in self.prog.subclasses(h.cls)):
            return None  # an override may be the real target
        if h.name.startswith("__") and h.name.endswith("__"):
            return None
        fn = h.node
        a = fn.args
        if a.vararg or any(isinstance(x, ast.Starred) for x in call.args) or any(k.arg is None for k in call.keywords):
            return None
        is_gen = any(isinstance(x, (ast.Yield, ast.YieldFrom)) for x in ast.walk(fn))
        if any(isinstance(x, ast.Await) for x in ast.walk(fn)) or (is_gen and not allow_generator):
            return None
        if allow_generator and not is_gen:
            return None
        n_stmts = sum(1 for x in ast.walk(fn) if isinstance(x, ast.stmt))
        if n_stmts > MAX_STMTS:
            return None
        decos = [d for d in h.decorators() if d not in ("staticmethod", "classmethod")]
        if decos:
            return None
        return h

    # ------------------------------------------------------------------ expansion of one call
    def _expand(self, fi: FuncInfo, call: ast.Call, h: FuncInfo):
        """-> (prelude statements, expression replacing the call)"""
        self.counter += 1
        prefix = f"_h{self.counter}_"
        src_node = h.node
        if any(isinstance(x, (ast.FunctionDef, ast.Lambda)) and x is not h.node for x in ast.walk(h.node)):
            # closures / lambdas defined inside the helper are expanded inside it first (they are only known to the
            # program model there); what is copied into the caller then contains no call to a nested function
            try:
                h_in = inlined(self.prog, h, keep=self.keep, max_depth=1, desugar=True)
                src_node = h_in.node
            except Exception:  # noqa: BLE001
                src_node = h.node
        fn = copy.deepcopy(src_node)
        body = [s for s in fn.body if not (isinstance(s, ast.Expr) and isinstance(s.value, ast.Constant) and isinstance(s.value.value, str))]
        ret = "ret"
        locs = _local_names(fn) | {ret}
        body = _convert_returns(body, ret) if _has_return(body) else body
        # parameter binding
        a = fn.args
        pos = [p.arg for p in [*a.posonlyargs, *a.args]]
        binding: dict = {}
        args = list(call.args)
        if h.cls is not None and not h.is_staticmethod and pos:
            recv = call.func.value if isinstance(call.func, ast.Attribute) else None
            explicit_self = False
            if recv is not None and not h.is_classmethod:
                rd = ast.unparse(recv).split(".")[-1]
                if rd == h.cls.name and args:
                    explicit_self = True  # Class.method(obj, …)
            if not explicit_self:
                if recv is None:
                    raise _NotInlinable("method called without receiver")
                binding[pos[0]] = recv
                pos = pos[1:]
        if len(args) > len(pos):
            raise _NotInlinable("too many positional arguments")
        for p, v in zip(pos, args):
            binding[p] = v
        named = {p.arg for p in [*a.posonlyargs, *a.args, *a.kwonlyargs]}
        extra_kw = []
        for kw in call.keywords:
            if kw.arg in named:
                binding[kw.arg] = kw.value
            elif a.kwarg is not None:
                extra_kw.append(kw)
            else:
                raise _NotInlinable("unexpected keyword")
        allpos = [p.arg for p in [*a.posonlyargs, *a.args]]
        for p, d in zip(allpos[len(allpos) - len(a.defaults) :], a.defaults):
            binding.setdefault(p, d)
        for p, d in zip(a.kwonlyargs, a.kw_defaults):
            if d is not None:
                binding.setdefault(p.arg, d)
        params = [p.arg for p in [*a.posonlyargs, *a.args, *a.kwonlyargs]]
        if any(p not in binding for p in params):
            raise _NotInlinable("unbound parameter")
        if a.kwarg is not None:
            # **kwargs receives the surplus keywords; `f(**kwargs)` inside the helper becomes explicit keywords
            kwname = a.kwarg.arg
            binding[kwname] = ast.Dict(keys=[ast.Constant(value=k.arg) for k in extra_kw], values=[k.value for k in extra_kw])
            params.append(kwname)

            class _Spread(ast.NodeTransformer):
                def visit_Call(self, n):
                    n = self.generic_visit(n)
                    if any(k.arg is None and isinstance(k.value, ast.Name) and k.value.id == kwname for k in n.keywords):
                        kws = []
                        for k in n.keywords:
                            if k.arg is None and isinstance(k.value, ast.Name) and k.value.id == kwname:
                                kws.extend(ast.keyword(arg=e.arg, value=copy.deepcopy(e.value)) for e in extra_kw)
                            else:
                                kws.append(k)
                        n = copy.copy(n)
                        n.keywords = kws
                    return n

            body = [_Spread().visit(s_) for s_ in body]
        ren = _Rename(locs, prefix)
        prelude = []
        for p in params:
            st = ast.Assign(targets=[ast.Name(id=prefix + p, ctx=ast.Store())], value=copy.deepcopy(binding[p]))
            prelude.append(ast.copy_location(st, call))
        for s in body:
            prelude.append(ren.visit(s))
        self.expanded.append(h.qualname)
        if _has_return(h.node.body):
            value = ast.copy_location(ast.Name(id=prefix + ret, ctx=ast.Load()), call)
        else:
            value = ast.copy_location(ast.Constant(value=None), call)
        return prelude, value


    # ------------------------------------------------------------------ generator helper consumed by a for loop
    def _expand_generator_loop(self, fi: FuncInfo, loop: ast.For, h: FuncInfo):
        """`for T in gen(args): BODY`  ->  the generator's body with every `yield v` replaced by `T = v; BODY`
        (parameters bound to fresh locals, locals renamed).  Only when this keeps the meaning: the loop body does
        not break / return, uses `continue` only if each yield is the last statement of the generator's own loop
        body, the generator does not return a value, does not yield inside try/with and the loop has no else."""
        call = loop.iter
        if loop.orelse:
            raise _NotInlinable("for-else over a generator")

        def level_stmts(stmts, kinds):
            for st in stmts:
                for x in ast.walk(st):
                    if isinstance(x, kinds):
                        # belongs to this level unless nested in an inner loop / function
                        yield x

        def has_at_level(stmts, kinds) -> bool:
            def rec(sts, in_loop):
                for st in sts:
                    if isinstance(st, (ast.FunctionDef, ast.AsyncFunctionDef, ast.ClassDef)):
                        continue
                    if isinstance(st, kinds) and not (in_loop and isinstance(st, (ast.Break, ast.Continue))):
                        return True
                    for f in ("body", "orelse", "finalbody"):
                        sub = getattr(st, f, None)
                        if isinstance(sub, list) and rec(sub, in_loop or isinstance(st, (ast.For, ast.While))):
                            return True
                    if isinstance(st, ast.Try):
                        for hh in st.handlers:
                            if rec(hh.body, in_loop):
                                return True
                return False

            return rec(stmts, False)

        if has_at_level(loop.body, (ast.Break, ast.Return)):
            raise _NotInlinable("loop body leaves the loop early")
        body_continues = has_at_level(loop.body, (ast.Continue,))
        self.counter += 1
        prefix = f"_h{self.counter}_"
        fn = copy.deepcopy(h.node)
        gbody = [s_ for s_ in fn.body if not (isinstance(s_, ast.Expr) and isinstance(s_.value, ast.Constant) and isinstance(s_.value.value, str))]
        for x in ast.walk(fn):
            if isinstance(x, ast.Return) and x.value is not None:
                raise _NotInlinable("generator returns a value")
            if isinstance(x, ast.YieldFrom):
                raise _NotInlinable("yield from")
            if isinstance(x, (ast.Lambda, ast.FunctionDef, ast.AsyncFunctionDef)) and x is not fn:
                raise _NotInlinable("nested scope in generator")
        if _has_return(gbody):
            raise _NotInlinable("return in generator")
        # parameter binding (positional / keyword / defaults), as for plain helpers
        probe = ast.Call(func=call.func, args=call.args, keywords=call.keywords)
        a = fn.args
        if a.vararg or a.kwarg:
            raise _NotInlinable("variadic generator")
        pos = [p.arg for p in [*a.posonlyargs, *a.args]]
        binding: dict = {}
        if h.cls is not None and not h.is_staticmethod and pos:
            recv = call.func.value if isinstance(call.func, ast.Attribute) else None
            if recv is None:
                raise _NotInlinable("method called without receiver")
            binding[pos[0]] = recv
            pos = pos[1:]
        if len(probe.args) > len(pos) or any(isinstance(x, ast.Starred) for x in probe.args) or any(k.arg is None for k in probe.keywords):
            raise _NotInlinable("argument shape")
        for p_, v_ in zip(pos, probe.args):
            binding[p_] = v_
        named = {p_.arg for p_ in [*a.posonlyargs, *a.args, *a.kwonlyargs]}
        for kw in probe.keywords:
            if kw.arg not in named:
                raise _NotInlinable("unexpected keyword")
            binding[kw.arg] = kw.value
        allpos = [p_.arg for p_ in [*a.posonlyargs, *a.args]]
        for p_, d_ in zip(allpos[len(allpos) - len(a.defaults) :], a.defaults):
            binding.setdefault(p_, d_)
        for p_, d_ in zip(a.kwonlyargs, a.kw_defaults):
            if d_ is not None:
                binding.setdefault(p_.arg, d_)
        params = [p_.arg for p_ in [*a.posonlyargs, *a.args, *a.kwonlyargs]]
        if any(p_ not in binding for p_ in params):
            raise _NotInlinable("unbound parameter")
        locs = _local_names(fn)
        ren = _Rename(locs, prefix)
        n_yield = 0

        def repl(stmts, in_loop_tail_ok):
            """replace `yield v` statements; in_loop_tail_ok: a yield here is the last statement of a loop body"""
            nonlocal n_yield
            out = []
            for i, st in enumerate(stmts):
                last = i == len(stmts) - 1
                if isinstance(st, ast.Expr) and isinstance(st.value, ast.Yield):
                    if body_continues and not (last and in_loop_tail_ok):
                        raise _NotInlinable("continue in the loop body, yield not last in its loop")
                    n_yield += 1
                    val = st.value.value if st.value.value is not None else ast.Constant(value=None)
                    out.append(ast.copy_location(ast.Assign(targets=[copy.deepcopy(loop.target)], value=ren.visit(copy.deepcopy(val))), loop))
                    out.extend(copy.deepcopy(loop.body))
                    continue
                if any(isinstance(x, ast.Yield) for x in ast.walk(st)):
                    if isinstance(st, (ast.For, ast.While)):
                        new = copy.copy(st)
                        new.body = repl(st.body, True)
                        if any(isinstance(x, ast.Yield) for o in st.orelse for x in ast.walk(o)):
                            raise _NotInlinable("yield in loop else")
                        new = _rename_header(new, ren)
                        out.append(new)
                        continue
                    if isinstance(st, ast.If):
                        new = copy.copy(st)
                        new.test = ren.visit(copy.deepcopy(st.test))
                        new.body = repl(st.body, in_loop_tail_ok and last)
                        new.orelse = repl(st.orelse, in_loop_tail_ok and last)
                        out.append(new)
                        continue
                    if isinstance(st, ast.Try) and not any(isinstance(x, ast.Yield) for o in st.finalbody for x in ast.walk(o)):
                        # the else clause and the handlers are not guarded by this try's handlers: the loop body may go
                        # there; into the guarded body only when it is the bare re-yield of a `yield from`
                        trivial = len(loop.body) == 1 and isinstance(loop.body[0], ast.Expr) and isinstance(loop.body[0].value, ast.Yield)
                        if any(isinstance(x, ast.Yield) for o in st.body for x in ast.walk(o)) and not trivial:
                            raise _NotInlinable("yield inside a guarded try body")
                        new = copy.copy(st)
                        new.body = repl(st.body, False) if any(isinstance(x, ast.Yield) for o in st.body for x in ast.walk(o)) else [ren.visit(copy.deepcopy(o)) for o in st.body]
                        new.orelse = repl(st.orelse, in_loop_tail_ok and last) if any(isinstance(x, ast.Yield) for o in st.orelse for x in ast.walk(o)) else [ren.visit(copy.deepcopy(o)) for o in st.orelse]
                        hs_ = []
                        for h_ in st.handlers:
                            h2 = copy.copy(h_)
                            if h2.type is not None:
                                h2.type = ren.visit(copy.deepcopy(h2.type))
                            if h2.name and h2.name in locs:
                                h2.name = prefix + h2.name
                            h2.body = repl(h_.body, in_loop_tail_ok and last) if any(isinstance(x, ast.Yield) for o in h_.body for x in ast.walk(o)) else [ren.visit(copy.deepcopy(o)) for o in h_.body]
                            hs_.append(h2)
                        new.handlers = hs_
                        new.finalbody = [ren.visit(copy.deepcopy(o)) for o in st.finalbody]
                        out.append(new)
                        continue
                    raise _NotInlinable("yield inside with / expression")
                out.append(ren.visit(copy.deepcopy(st)))
            return out

        def _rename_header(loop_st, ren_):
            if isinstance(loop_st, ast.For):
                loop_st.target = ren_.visit(copy.deepcopy(loop_st.target))
                loop_st.iter = ren_.visit(copy.deepcopy(loop_st.iter))
            else:
                loop_st.test = ren_.visit(copy.deepcopy(loop_st.test))
            loop_st.orelse = [ren_.visit(copy.deepcopy(o)) for o in loop_st.orelse]
            return loop_st

        new_body = repl(gbody, False)
        if n_yield == 0:
            raise _NotInlinable("no plain yield statement")
        prelude = []
        for p_ in params:
            prelude.append(ast.copy_location(ast.Assign(targets=[ast.Name(id=prefix + p_, ctx=ast.Store())], value=copy.deepcopy(binding[p_])), loop))
        self.expanded.append(h.qualname)
        return prelude + new_body

    # ------------------------------------------------------------------ statements
    def _calls_of(self, exprs) -> list:
        out = []
        for e in exprs:
            if e is None:
                continue
            for x in ast.walk(e):
                if isinstance(x, (ast.Lambda, ast.ListComp, ast.SetComp, ast.DictComp, ast.GeneratorExp)):
                    continue
                if isinstance(x, ast.Call):
                    out.append(x)
        # drop calls nested in comprehension / lambda bodies (they run in another scope, possibly many times)
        blocked = set()
        for e in exprs:
            if e is None:
                continue
            for x in ast.walk(e):
                if isinstance(x, (ast.Lambda, ast.ListComp, ast.SetComp, ast.DictComp, ast.GeneratorExp)):
                    for y in ast.walk(x):
                        if y is not x:
                            blocked.add(id(y))
        return [c for c in out if id(c) not in blocked]

    def _header_exprs(self, s) -> list:
        if isinstance(s, (ast.Assign, ast.AnnAssign, ast.AugAssign, ast.Return)):
            return [s.value]
        if isinstance(s, ast.Expr):
            return [s.value]
        if isinstance(s, ast.If):
            return [s.test]
        if isinstance(s, (ast.For, ast.AsyncFor)):
            return [s.iter]
        if isinstance(s, (ast.With, ast.AsyncWith)):
            return [it.context_expr for it in s.items]
        if isinstance(s, ast.Raise):
            return [s.exc]
        if isinstance(s, ast.Assert):
            return [s.test]
        return []

    def _block(self, fi: FuncInfo, stmts, stack, depth) -> list:
        out = []
        for s in stmts:
            if isinstance(s, (ast.FunctionDef, ast.AsyncFunctionDef, ast.ClassDef)):
                out.append(s)
                continue
            s = copy.copy(s)
            if isinstance(s, ast.Expr) and isinstance(s.value, ast.YieldFrom) and isinstance(s.value.value, ast.Call):
                # `yield from helper(args)`: the helper generator's body takes the place of the statement (its yields
                # stay yields of the delegating generator)
                hg = self._target(fi, s.value.value, stack, allow_generator=True)
                if hg is not None:
                    dummy = ast.For(target=ast.Name(id="_yf_item", ctx=ast.Store()), iter=s.value.value, body=[ast.Expr(value=ast.Yield(value=ast.Name(id="_yf_item", ctx=ast.Load())))], orelse=[])
                    ast.copy_location(dummy, s)
                    ast.fix_missing_locations(dummy)
                    try:
                        expanded_loop = self._expand_generator_loop(fi, dummy, hg)
                    except _NotInlinable:
                        expanded_loop = None
                    if expanded_loop is not None:
                        # `_yf_item = v; yield _yf_item` -> `yield v`
                        cleaned = _fold_yield_temp(expanded_loop)
                        out.extend(self._block(fi, cleaned, stack + [hg], depth))
                        continue
            if isinstance(s, ast.For) and isinstance(s.iter, ast.Call):
                hg = self._target(fi, s.iter, stack, allow_generator=True)
                if hg is not None:
                    try:
                        expanded_loop = self._expand_generator_loop(fi, s, hg)
                    except _NotInlinable:
                        expanded_loop = None
                    if expanded_loop is not None:
                        out.extend(self._block(fi, expanded_loop, stack + [hg], depth))
                        continue
            for f in ("body", "orelse", "finalbody"):
                if isinstance(getattr(s, f, None), list) and not isinstance(s, (ast.FunctionDef, ast.AsyncFunctionDef, ast.ClassDef)):
                    setattr(s, f, self._block(fi, getattr(s, f), stack, depth))
            if isinstance(s, ast.Try):
                hs = []
                for h in s.handlers:
                    h = copy.copy(h)
                    h.body = self._block(fi, h.body, stack, depth)
                    hs.append(h)
                s.handlers = hs
            prelude_all = []
            if not isinstance(s, (ast.FunctionDef, ast.AsyncFunctionDef, ast.ClassDef)):
                for c in self._calls_of(self._header_exprs(s)):
                    h = self._target(fi, c, stack)
                    if h is None:
                        continue
                    try:
                        prelude, value = self._expand(fi, c, h)
                    except _NotInlinable:
                        continue
                    prelude_all.extend(prelude)
                    s = _subst_in(s, c, value)
            out.extend(prelude_all)
            out.append(s)
        return out


def _fold_yield_temp(stmts: list) -> list:
    """`_yf_item = v` directly followed by `yield _yf_item`  ->  `yield v` (recursively through compound statements)"""
    out = []
    i = 0
    while i < len(stmts):
        st = stmts[i]
        nx = stmts[i + 1] if i + 1 < len(stmts) else None
        if (
            isinstance(st, ast.Assign)
            and len(st.targets) == 1
            and isinstance(st.targets[0], ast.Name)
            and st.targets[0].id == "_yf_item"
            and isinstance(nx, ast.Expr)
            and isinstance(nx.value, ast.Yield)
            and isinstance(nx.value.value, ast.Name)
            and nx.value.value.id == "_yf_item"
        ):
            out.append(ast.copy_location(ast.Expr(value=ast.Yield(value=st.value)), st))
            i += 2
            continue
        if not isinstance(st, (ast.FunctionDef, ast.AsyncFunctionDef, ast.ClassDef)):
            st = copy.copy(st)
            for f in ("body", "orelse", "finalbody"):
                if isinstance(getattr(st, f, None), list):
                    setattr(st, f, _fold_yield_temp(getattr(st, f)))
            if isinstance(st, ast.Try):
                hs = []
                for h in st.handlers:
                    h = copy.copy(h)
                    h.body = _fold_yield_temp(h.body)
                    hs.append(h)
                st.handlers = hs
        out.append(st)
        i += 1
    return out


def _subst_in(stmt: ast.stmt, old: ast.AST, new: ast.AST) -> ast.stmt:
    def rb(n):
        if n is old:
            return new
        if isinstance(n, ast.stmt) and n is not stmt:
            return n
        changed = False
        vals = {}
        for f, v in ast.iter_fields(n):
            if isinstance(v, ast.AST):
                if isinstance(v, ast.stmt):
                    vals[f] = v
                    continue
                r = rb(v)
                changed |= r is not v
                vals[f] = r
            elif isinstance(v, list):
                if v and isinstance(v[0], ast.stmt):
                    vals[f] = v
                    continue
                rs = [rb(x) if isinstance(x, ast.AST) else x for x in v]
                changed |= any(a is not b for a, b in zip(rs, v))
                vals[f] = rs
            else:
                vals[f] = v
        if not changed:
            return n
        m = copy.copy(n)
        for f, v in vals.items():
            setattr(m, f, v)
        return m

    return rb(stmt)


def desugar_comprehensions(stmts: list) -> list:
    """`x = {k: v for t in it if c}` -> `x = {}` + loop with `x[k] = v`; `x = [e for …]` -> loop with append.
    Only whole-statement assignments to a plain name; the loop form is what the CFG based rules understand."""
    out = []
    for s in stmts:
        if isinstance(s, (ast.FunctionDef, ast.AsyncFunctionDef, ast.ClassDef)):
            out.append(s)  # nested definitions keep their identity (they are known to the program model by node)
            continue
        s = copy.copy(s)
        for f in ("body", "orelse", "finalbody"):
            if isinstance(getattr(s, f, None), list):
                setattr(s, f, desugar_comprehensions(getattr(s, f)))
        if isinstance(s, ast.Try):
            hs = []
            for h in s.handlers:
                h = copy.copy(h)
                h.body = desugar_comprehensions(h.body)
                hs.append(h)
            s.handlers = hs
        ret_form = None
        if isinstance(s, ast.Return) and isinstance(s.value, (ast.DictComp, ast.ListComp)) and all(not g.is_async for g in s.value.generators):
            # `return {…}`  ->  `_comp_ret = {…}; return _comp_ret`
            ret_form = s
            s = ast.copy_location(ast.Assign(targets=[ast.Name(id="_comp_ret", ctx=ast.Store())], value=s.value), s)
        if isinstance(s, ast.Assign) and len(s.targets) == 1 and isinstance(s.targets[0], ast.Name) and isinstance(s.value, (ast.DictComp, ast.ListComp)) and all(not g.is_async for g in s.value.generators):
            name = s.targets[0].id
            comp = s.value
            init = ast.Assign(targets=[ast.Name(id=name, ctx=ast.Store())], value=ast.Dict(keys=[], values=[]) if isinstance(comp, ast.DictComp) else ast.List(elts=[], ctx=ast.Load()))
            if isinstance(comp, ast.DictComp):
                inner: ast.stmt = ast.Assign(targets=[ast.Subscript(value=ast.Name(id=name, ctx=ast.Load()), slice=comp.key, ctx=ast.Store())], value=comp.value)
            else:
                inner = ast.Expr(value=ast.Call(func=ast.Attribute(value=ast.Name(id=name, ctx=ast.Load()), attr="append", ctx=ast.Load()), args=[comp.elt], keywords=[]))
            ast.copy_location(inner, s)
            body = [inner]
            for g in reversed(comp.generators):
                for c in reversed(g.ifs):
                    body = [ast.copy_location(ast.If(test=c, body=body, orelse=[]), s)]
                body = [ast.copy_location(ast.For(target=g.target, iter=g.iter, body=body, orelse=[]), s)]
            out.append(ast.copy_location(init, s))
            out.extend(body)
            if ret_form is not None:
                out.append(ast.copy_location(ast.Return(value=ast.Name(id="_comp_ret", ctx=ast.Load())), ret_form))
            continue
        if (
            isinstance(s, ast.Assign)
            and len(s.targets) == 1
            and isinstance(s.targets[0], ast.Name)
            and isinstance(s.value, ast.Call)
            and isinstance(s.value.func, ast.Name)
            and s.value.func.id == "sum"
            and not s.value.keywords
            and 1 <= len(s.value.args) <= 2
            and isinstance(s.value.args[0], (ast.GeneratorExp, ast.ListComp))
            and all(not g.is_async for g in s.value.args[0].generators)
            and isinstance(s.value.args[0].elt, ast.Call)
            and isinstance(s.value.args[0].elt.func, ast.Name)
        ):
            # `n = sum(helper(v) for v in it)`  ->  `n = 0; for v in it: n += helper(v)`: the helper's effects happen
            # once per item, in order, and its result is accumulated (what a counting loop spells out)
            name = s.targets[0].id
            comp = s.value.args[0]
            init = ast.Assign(targets=[ast.Name(id=name, ctx=ast.Store())], value=s.value.args[1] if len(s.value.args) == 2 else ast.Constant(value=0))
            body = [ast.copy_location(ast.AugAssign(target=ast.Name(id=name, ctx=ast.Store()), op=ast.Add(), value=comp.elt), s)]
            for g in reversed(comp.generators):
                for c in reversed(g.ifs):
                    body = [ast.copy_location(ast.If(test=c, body=body, orelse=[]), s)]
                body = [ast.copy_location(ast.For(target=g.target, iter=g.iter, body=body, orelse=[]), s)]
            out.append(ast.copy_location(init, s))
            out.extend(body)
            continue
        out.append(s)
    return out


# ----------------------------------------------------------------------------- callable aliases


def _single_defs(fn: ast.AST) -> dict:
    """local name -> its only definition (plain `name = value` assignments, no other binding of the name)"""
    count: dict = {}
    value: dict = {}
    for x in ast.walk(fn):
        if isinstance(x, (ast.FunctionDef, ast.AsyncFunctionDef, ast.Lambda)) and x is not fn:
            if isinstance(x, (ast.FunctionDef, ast.AsyncFunctionDef)):
                count[x.name] = count.get(x.name, 0) + 2
            continue
        if isinstance(x, ast.Name) and isinstance(x.ctx, (ast.Store, ast.Del)):
            count[x.id] = count.get(x.id, 0) + 1
        elif isinstance(x, ast.arg):
            count[x.arg] = count.get(x.arg, 0) + 2
        if isinstance(x, ast.Assign) and len(x.targets) == 1 and isinstance(x.targets[0], ast.Name):
            value[x.targets[0].id] = x.value
    return {k: v for k, v in value.items() if count.get(k) == 1}


def desugar_callable_aliases(fn: ast.FunctionDef) -> ast.FunctionDef:
    """calls through a local that is bound once to a bound method (`recv = COMM.recv`), a `functools.partial(...)` or
    a lambda are rewritten to the call they stand for, so that rules see the real callee with all its arguments:
        send = partial(COMM.send, dest=w, tag=1); send(x)      ->  COMM.send(x, dest=w, tag=1)
        load = lambda name: source[name][:];      load("ra")   ->  source["ra"][:]
    Returns fn itself when nothing changes (a copy otherwise)."""
    defs = _single_defs(fn)
    if not defs:
        return fn

    def target_of(name: str, depth: int = 0):
        v = defs.get(name)
        if v is None or depth > 4:
            return None
        if isinstance(v, ast.Name):
            return target_of(v.id, depth + 1) or (("ref", v) if v.id not in defs else None)
        if isinstance(v, ast.Attribute):
            # a bound method / function reference; its receiver must not be rebound in between — required: receiver root
            # is a parameter, `self`, a module-level name or a single-definition local
            return ("ref", v)
        if isinstance(v, ast.Call) and (ast.unparse(v.func).split(".")[-1] == "partial") and v.args and not any(isinstance(a, ast.Starred) for a in v.args) and not any(k.arg is None for k in v.keywords):
            return ("partial", v)
        if isinstance(v, ast.Lambda):
            a = v.args
            if not (a.vararg or a.kwarg or a.kwonlyargs or a.posonlyargs):
                return ("lambda", v)
        return None

    changed = False

    class T(ast.NodeTransformer):
        def visit_Lambda(self, n):
            return n

        def visit_Call(self, n):
            nonlocal changed
            n = self.generic_visit(n)
            if not isinstance(n.func, ast.Name):
                return n
            tg = target_of(n.func.id)
            if tg is None:
                return n
            kind, v = tg
            if kind == "ref":
                if isinstance(v, ast.Name):
                    return n
                changed = True
                new = copy.copy(n)
                new.func = copy.deepcopy(v)
                return new
            if kind == "partial":
                inner_f = v.args[0]
                if isinstance(inner_f, ast.Name):
                    t2 = target_of(inner_f.id)
                    if t2 is not None and t2[0] == "ref" and not isinstance(t2[1], ast.Name):
                        inner_f = t2[1]
                given = {k.arg for k in n.keywords if k.arg}
                changed = True
                new = copy.copy(n)
                new.func = copy.deepcopy(inner_f)
                new.args = [copy.deepcopy(a) for a in v.args[1:]] + list(n.args)
                new.keywords = list(n.keywords) + [copy.deepcopy(k) for k in v.keywords if k.arg not in given]
                return new
            if kind == "lambda":
                a = v.args
                names = [p.arg for p in a.args]
                if any(isinstance(x, ast.Starred) for x in n.args) or any(k.arg is None for k in n.keywords) or len(n.args) > len(names):
                    return n
                bind = dict(zip(names, n.args))
                for k in n.keywords:
                    if k.arg not in names or k.arg in bind:
                        return n
                    bind[k.arg] = k.value
                for p_, d_ in zip(names[len(names) - len(a.defaults) :], a.defaults):
                    bind.setdefault(p_, d_)
                if any(p_ not in bind for p_ in names):
                    return n
                # arguments with calls would be evaluated as often as the parameter occurs: only simple arguments
                uses = {p_: sum(1 for y in ast.walk(v.body) if isinstance(y, ast.Name) and y.id == p_) for p_ in names}
                if any(uses[p_] > 1 and any(isinstance(y, ast.Call) for y in ast.walk(bind[p_])) for p_ in names):
                    return n

                class S(ast.NodeTransformer):
                    def visit_Name(self, m):
                        if isinstance(m.ctx, ast.Load) and m.id in bind:
                            return copy.deepcopy(bind[m.id])
                        return m

                changed = True
                return ast.copy_location(S().visit(copy.deepcopy(v.body)), n)
            return n

    new_fn = copy.copy(fn)
    new_body = []
    for st in fn.body:
        if isinstance(st, (ast.FunctionDef, ast.AsyncFunctionDef, ast.ClassDef)):
            new_body.append(st)
        else:
            new_body.append(T().visit(copy.deepcopy(st)) if _mentions_call_of(st, defs) else st)
    if not changed:
        return fn
    new_fn.body = new_body
    # an alias whose calls were all rewritten is dead: its definition would only keep a spurious use of its arguments
    loads = {x.id for x in ast.walk(new_fn) if isinstance(x, ast.Name) and isinstance(x.ctx, ast.Load)}
    dead = {k for k, v in defs.items() if k not in loads and target_of(k) is not None and target_of(k)[0] in ("partial", "lambda", "ref")}
    if dead:

        class D(ast.NodeTransformer):
            def visit_FunctionDef(self, n):
                return n if n is not new_fn else self.generic_visit(n)

            def visit_Assign(self, n):
                if len(n.targets) == 1 and isinstance(n.targets[0], ast.Name) and n.targets[0].id in dead:
                    return ast.copy_location(ast.Pass(), n)
                return n

        new_fn = D().visit(new_fn)
    ast.fix_missing_locations(new_fn)
    return new_fn


def _mentions_call_of(st: ast.AST, defs: dict) -> bool:
    return any(isinstance(x, ast.Call) and isinstance(x.func, ast.Name) and x.func.id in defs for x in ast.walk(st))


# ----------------------------------------------------------------------------- copy propagation


def propagate_copies(fn: ast.FunctionDef, only_prefix: str = "_h") -> ast.FunctionDef:
    """reads of a local that is bound once to a plain name or attribute chain (`_h1_self = self`,
    `_h3_data = self._hdu_data`) are replaced by that name / chain; the bindings that the expansion of helpers
    introduces (prefix `_h<N>_`) then disappear from the expressions a rule looks at.  Only bindings whose source
    is itself stable in the function (a parameter or local bound once, an attribute that is not stored here)."""
    defs = _single_defs(fn)
    stored_attrs = {x.attr for x in ast.walk(fn) if isinstance(x, ast.Attribute) and isinstance(x.ctx, (ast.Store, ast.Del))}
    counts: dict = {}
    for x in ast.walk(fn):
        if isinstance(x, ast.Name) and isinstance(x.ctx, (ast.Store, ast.Del)):
            counts[x.id] = counts.get(x.id, 0) + 1
    a = fn.args
    params = {p_.arg for p_ in [*a.posonlyargs, *a.args, *a.kwonlyargs]} | ({a.vararg.arg} if a.vararg else set()) | ({a.kwarg.arg} if a.kwarg else set())

    def stable(e) -> bool:
        if isinstance(e, ast.Name):
            # never stored here (parameter, global) or stored exactly once (plain, tuple-unpacking or loop target)
            return counts.get(e.id, 0) == 0 or (counts.get(e.id) == 1 and e.id not in params)
        if isinstance(e, ast.Attribute):
            return e.attr not in stored_attrs and stable(e.value)
        return False

    nested_loads = set()
    for x in ast.walk(fn):
        if isinstance(x, (ast.FunctionDef, ast.AsyncFunctionDef, ast.Lambda)) and x is not fn:
            nested_loads |= {y.id for y in ast.walk(x) if isinstance(y, ast.Name)}
    sub = {k: v for k, v in defs.items() if k.startswith(only_prefix) and isinstance(v, (ast.Name, ast.Attribute)) and stable(v) and k not in params and k not in nested_loads}
    if not sub:
        return fn

    def resolve(e, depth=0):
        if depth > 6:
            return e
        if isinstance(e, ast.Name) and e.id in sub:
            return resolve(copy.deepcopy(sub[e.id]), depth + 1)
        if isinstance(e, ast.Attribute):
            new = copy.copy(e)
            new.value = resolve(e.value, depth + 1)
            return new
        return e

    class T(ast.NodeTransformer):
        def visit_Name(self, n):
            if isinstance(n.ctx, ast.Load) and n.id in sub:
                r = resolve(n)
                return ast.copy_location(r, n)
            return n

    new_fn = copy.copy(fn)
    new_fn.body = [st if isinstance(st, (ast.FunctionDef, ast.AsyncFunctionDef, ast.ClassDef)) else T().visit(copy.deepcopy(st)) for st in fn.body]

    class D(ast.NodeTransformer):
        def visit_Assign(self, n):
            if len(n.targets) == 1 and isinstance(n.targets[0], ast.Name) and n.targets[0].id in sub:
                return ast.copy_location(ast.Pass(), n)
            return n

    new_fn.body = [st if isinstance(st, (ast.FunctionDef, ast.AsyncFunctionDef, ast.ClassDef)) else D().visit(st) for st in new_fn.body]
    ast.fix_missing_locations(new_fn)
    return new_fn


_CACHE: dict = {}


def _needs_desugar(node: ast.AST) -> bool:
    return any(isinstance(x, (ast.DictComp, ast.ListComp)) or (isinstance(x, ast.Call) and isinstance(x.func, ast.Name) and x.func.id == "sum" and x.args and isinstance(x.args[0], ast.GeneratorExp)) for x in ast.walk(node))


def inlined(prog: Program, fi: FuncInfo, *, keep=(), only=None, max_depth: int = 2, desugar: bool = False) -> FuncInfo:
    """fi with same-module helper calls expanded (a new FuncInfo; fi itself when nothing was expanded)"""
    key = (prog.uid, fi.key, tuple(sorted(keep)), tuple(sorted(only)) if only else None, max_depth, desugar)
    if key in _CACHE:
        return _CACHE[key]
    cur = fi
    if desugar and _needs_desugar(fi.node):
        node = copy.copy(fi.node)
        node.body = desugar_comprehensions(list(fi.node.body))
        ast.fix_missing_locations(node)
        cur = FuncInfo(fi.module, fi.qualname, node, fi.cls, fi.variant, fi.parent)
        cur.origin = fi  # type: ignore[attr-defined]
    expanded: list[str] = []
    counter = 0

    def _aliases(c: FuncInfo) -> FuncInfo:
        node2 = desugar_callable_aliases(c.node)
        if node2 is c.node:
            return c
        c2 = FuncInfo(fi.module, fi.qualname, node2, fi.cls, fi.variant, fi.parent)
        c2.origin = fi  # type: ignore[attr-defined]
        return c2

    cur = _aliases(cur)
    for _ in range(max_depth):
        inl = Inliner(prog, set(keep) | {fi.name}, only, max_depth, counter)
        try:
            body = inl._block(cur, list(cur.node.body), [fi], 0)
        except RecursionError:
            break
        if not inl.expanded:
            break
        expanded.extend(inl.expanded)
        counter = inl.counter
        node = copy.copy(cur.node)
        node.body = body
        ast.fix_missing_locations(node)
        if desugar and _needs_desugar(node):
            node.body = desugar_comprehensions(list(node.body))  # comprehensions that came in with a helper's body
            ast.fix_missing_locations(node)
        cur = FuncInfo(fi.module, fi.qualname, node, fi.cls, fi.variant, fi.parent)
        cur.origin = fi  # type: ignore[attr-defined]
        cur = _aliases(cur)
    if cur is not fi:
        if expanded:
            node2 = propagate_copies(cur.node)
            if node2 is not cur.node:
                cur = FuncInfo(fi.module, fi.qualname, node2, fi.cls, fi.variant, fi.parent)
        cur.inlined_helpers = expanded  # type: ignore[attr-defined]
        cur.origin = fi  # type: ignore[attr-defined]
    _CACHE[key] = cur
    return cur


_ALL: dict = {}


def all_inlined(prog: Program, *, keep=(), drop: str = "expanded", variants=None) -> list[FuncInfo]:
    """every top-level function / method of the package with its same-module helper calls expanded in place, for
    rules that look for *where an effect happens* (a file is written, a message is sent): an effect that was moved
    into a helper is then seen in the context of each caller.  A function that was expanded at every call site that
    is left in the package is not listed on its own (drop="expanded"; drop="private": only underscore-named ones;
    drop="none": keep all)."""
    key = (prog.uid, tuple(sorted(keep)), drop, tuple(variants) if variants else None)
    if key in _ALL:
        return _ALL[key]
    funcs = [f for f in prog.funcs if f.parent is None and (variants is None or f.variant in variants)]
    out = []
    expanded: set[str] = set()
    for f in funcs:
        try:
            g = inlined(prog, f, keep=keep)
        except Exception:  # noqa: BLE001 - unusual helper shape: keep the function as written
            g = f
        expanded |= set(getattr(g, "inlined_helpers", []))
        out.append(g)
    if drop != "none":
        # helpers still called somewhere (not expanded there) stay listed
        still_called: set[str] = set()
        for g in out:
            for c in (x for x in ast.walk(g.node) if isinstance(x, ast.Call)):
                try:
                    for t in prog.resolve_call(g, c).funcs():
                        still_called.add(t.qualname)
                except Exception:  # noqa: BLE001
                    pass
        kept = []
        for g in out:
            private = g.name.startswith("_") and not g.name.startswith("__")
            if g.qualname in expanded and g.name not in keep and (private or (drop == "expanded" and g.qualname not in still_called)):
                if drop == "private" and not private:
                    kept.append(g)
                continue
            kept.append(g)
        out = kept
    _ALL[key] = out
    return out
