"""A0/A1/A2: program model of /repo/src/yaw built from `ast` only.

* modules, import tables (with re-export following),
* variants: definitions under ``if parallel.use_mpi(): … else: …`` and under
  ``try: import mpi4py … except ImportError:`` are registered as variant ``mpi``
  resp. ``mp``; every rule can ask for one variant,
* classes with C3 MRO over in-repo bases, attribute tables,
* light-weight receiver typing (annotations, constructors, ``self``/``cls``),
* call resolution (resolved callee, class-hierarchy fallback marked imprecise).

Nothing here imports or executes the analysed package.
"""

from __future__ import annotations

import ast
import builtins
import os
from dataclasses import dataclass, field

PKG = "yaw"


class AnalysisError(Exception):
    """Raised when the analysis cannot decide (vanished anchor, unknown idiom)."""


# --------------------------------------------------------------------------- helpers


def dotted(node: ast.AST) -> str | None:
    """``a.b.c`` -> "a.b.c" for Name/Attribute chains, else None."""
    parts = []
    while isinstance(node, ast.Attribute):
        parts.append(node.attr)
        node = node.value
    if isinstance(node, ast.Name):
        parts.append(node.id)
        return ".".join(reversed(parts))
    return None


def unparse(node: ast.AST | None) -> str:
    if node is None:
        return ""
    try:
        return ast.unparse(node)
    except Exception:  # pragma: no cover
        return "<?>"


def norm_stmt(node: ast.AST, limit: int = 120) -> str:
    """Normalised one-line text of a statement (header only for compound ones),
    used in finding keys: stable under re-formatting and line moves."""
    if isinstance(node, (ast.For, ast.AsyncFor)):
        s = f"for {unparse(node.target)} in {unparse(node.iter)}"
    elif isinstance(node, ast.While):
        s = f"while {unparse(node.test)}"
    elif isinstance(node, ast.If):
        s = f"if {unparse(node.test)}"
    elif isinstance(node, (ast.With, ast.AsyncWith)):
        s = "with " + ", ".join(unparse(i) for i in node.items)
    elif isinstance(node, ast.Try):
        s = "try"
    elif isinstance(node, (ast.FunctionDef, ast.AsyncFunctionDef)):
        s = f"def {node.name}"
    elif isinstance(node, ast.ClassDef):
        s = f"class {node.name}"
    elif isinstance(node, ast.withitem):
        s = "with " + unparse(node)
    else:
        s = unparse(node)
    s = " ".join(s.split())
    return s[:limit]


def walk_no_nested(node: ast.AST, *, into_comprehensions: bool = True):
    """ast.walk that does not descend into nested function/class/lambda bodies."""
    stack = [node]
    first = True
    while stack:
        n = stack.pop()
        nested = not first and isinstance(
            n, (ast.FunctionDef, ast.AsyncFunctionDef, ast.ClassDef, ast.Lambda)
        )
        first = False
        yield n
        if not nested:
            stack.extend(reversed(list(ast.iter_child_nodes(n))))


def calls_in_order(node: ast.AST) -> list[ast.Call]:
    """Calls in (approximate) evaluation order: arguments before the call."""
    out: list[ast.Call] = []

    def rec(n: ast.AST, top: bool) -> None:
        if not top and isinstance(
            n, (ast.FunctionDef, ast.AsyncFunctionDef, ast.ClassDef, ast.Lambda)
        ):
            return
        if isinstance(n, ast.Call):
            rec(n.func, False)
            for a in n.args:
                rec(a, False)
            for k in n.keywords:
                rec(k.value, False)
            out.append(n)
            return
        for c in ast.iter_child_nodes(n):
            rec(c, False)

    rec(node, True)
    return out


# --------------------------------------------------------------------------- entities


@dataclass(eq=False)
class Module:
    name: str
    path: str
    relpath: str
    tree: ast.Module
    src: str
    imports: dict = field(default_factory=dict)  # local -> ("mod", dotted) | ("sym", mod, name)
    type_only_imports: set = field(default_factory=set)
    defs: dict = field(default_factory=dict)  # name -> list[Def]
    all_funcs: list = field(default_factory=list)
    all_classes: list = field(default_factory=list)

    def __repr__(self) -> str:
        return f"<Module {self.name}>"


@dataclass(eq=False)
class GlobalVar:
    module: Module
    name: str
    value: ast.AST | None
    variant: str | None
    node: ast.AST

    kind = "global"


@dataclass(eq=False)
class FuncInfo:
    module: Module
    qualname: str
    node: ast.FunctionDef
    cls: "ClassInfo | None"
    variant: str | None
    parent: "FuncInfo | None" = None

    kind = "func"

    @property
    def name(self) -> str:
        return self.node.name

    @property
    def key(self) -> str:
        v = f"[{self.variant}]" if self.variant else ""
        return f"{self.module.name}:{self.qualname}{v}"

    @property
    def short(self) -> str:
        v = f"[{self.variant}]" if self.variant else ""
        return f"{self.module.name.removeprefix(PKG + '.')}.{self.qualname}{v}"

    def decorators(self) -> list[str]:
        out = []
        for d in self.node.decorator_list:
            if isinstance(d, ast.Call):
                d = d.func
            out.append(dotted(d) or unparse(d))
        return out

    @property
    def is_property(self) -> bool:
        return any(d == "property" or d.endswith(".setter") for d in self.decorators())

    @property
    def is_classmethod(self) -> bool:
        return "classmethod" in self.decorators()

    @property
    def is_staticmethod(self) -> bool:
        return "staticmethod" in self.decorators()

    @property
    def is_abstract(self) -> bool:
        return any(d.endswith("abstractmethod") for d in self.decorators())

    def params(self) -> list[ast.arg]:
        a = self.node.args
        return [*a.posonlyargs, *a.args, *a.kwonlyargs]

    def param_names(self) -> list[str]:
        a = self.node.args
        names = [x.arg for x in self.params()]
        if a.vararg:
            names.append(a.vararg.arg)
        if a.kwarg:
            names.append(a.kwarg.arg)
        return names

    def __repr__(self) -> str:
        return f"<Func {self.key}>"


@dataclass(eq=False)
class ClassInfo:
    module: Module
    name: str
    qualname: str
    node: ast.ClassDef
    variant: str | None
    methods: dict = field(default_factory=dict)  # name -> FuncInfo (last def wins)
    class_ann: dict = field(default_factory=dict)  # name -> annotation node
    class_assign: dict = field(default_factory=dict)  # name -> value node
    slots: tuple | None = None
    inst_attrs: dict = field(default_factory=dict)  # name -> list of value nodes (may be None)
    inst_ann: dict = field(default_factory=dict)  # name -> annotation node of `self.x: T = …`
    bases: list = field(default_factory=list)  # ClassInfo | str (external dotted)

    kind = "class"

    @property
    def key(self) -> str:
        v = f"[{self.variant}]" if self.variant else ""
        return f"{self.module.name}:{self.qualname}{v}"

    @property
    def is_dataclass(self) -> bool:
        for d in self.node.decorator_list:
            f = d.func if isinstance(d, ast.Call) else d
            if (dotted(f) or "").split(".")[-1] == "dataclass":
                return True
        return False

    def __repr__(self) -> str:
        return f"<Class {self.key}>"


@dataclass(frozen=True)
class External:
    name: str  # dotted, e.g. "numpy.digitize"
    kind = "ext"

    def __repr__(self) -> str:
        return f"<Ext {self.name}>"


@dataclass(eq=False)
class ModuleRef:
    module: Module
    kind = "modref"


# --------------------------------------------------------------------------- types
# A tiny type language; every inferred type is a frozenset of these tuples.
#   ("cls", ClassInfo) ("type", ClassInfo) ("ext", dotted) ("func", FuncInfo)
#   ("dict", K, V) ("list", T) ("tuple", (T, ...)) ("iter", T) ("none",)
#   ("mod", Module) ("extmod", dotted)
UNKNOWN = frozenset()


def tset(*items) -> frozenset:
    return frozenset(items)


# --------------------------------------------------------------------------- program


def fold_return_temps(tree: ast.AST) -> ast.AST:
    """normal form at load time: `t = E` immediately followed by `return t`, with `t` used nowhere else in the
    function, reads `return E` — the rules see the returned expression whether or not it was given a name first"""

    def fold(fn) -> None:
        uses: dict = {}
        for x in ast.walk(fn):
            if isinstance(x, ast.Name):
                uses[x.id] = uses.get(x.id, 0) + 1
        params = {a.arg for a in [*fn.args.posonlyargs, *fn.args.args, *fn.args.kwonlyargs]}

        def block(stmts):
            out = []
            i = 0
            while i < len(stmts):
                s, nx = stmts[i], stmts[i + 1] if i + 1 < len(stmts) else None
                if (
                    isinstance(s, ast.Assign)
                    and len(s.targets) == 1
                    and isinstance(s.targets[0], ast.Name)
                    and isinstance(nx, ast.Return)
                    and isinstance(nx.value, ast.Name)
                    and nx.value.id == s.targets[0].id
                    and uses.get(s.targets[0].id) == 2
                    and s.targets[0].id not in params
                ):
                    out.append(ast.copy_location(ast.Return(value=s.value), s))
                    i += 2
                    continue
                out.append(s)
                i += 1
            return out

        for x in ast.walk(fn):
            if x is not fn and isinstance(x, (ast.FunctionDef, ast.AsyncFunctionDef)):
                continue
            for f in ("body", "orelse", "finalbody"):
                v = getattr(x, f, None)
                if isinstance(v, list) and v and isinstance(v[0], ast.stmt):
                    setattr(x, f, block(v))

    for node in ast.walk(tree):
        if isinstance(node, (ast.FunctionDef, ast.AsyncFunctionDef)):
            fold(node)
    return tree


_MIRROR = {ast.Lt: ast.Gt, ast.Gt: ast.Lt, ast.LtE: ast.GtE, ast.GtE: ast.LtE, ast.Eq: ast.Eq, ast.NotEq: ast.NotEq}


def _constantish(e: ast.AST) -> bool:
    """literals, enum members / class constants (`Unit.kpc`, `MPI.ANY_SOURCE`), ALL_CAPS names, and signed literals"""
    if isinstance(e, ast.Constant):
        return True
    if isinstance(e, ast.UnaryOp) and isinstance(e.op, (ast.USub, ast.UAdd)):
        return _constantish(e.operand)
    if isinstance(e, ast.Name):
        return e.id.isupper() or e.id in ("NotSet", "EndOfQueue")
    if isinstance(e, ast.Attribute):
        root = e
        while isinstance(root, ast.Attribute):
            root = root.value
        return isinstance(root, ast.Name) and root.id[:1].isupper() and root.id not in ("self", "cls")
    if isinstance(e, ast.Tuple):
        return bool(e.elts) and all(_constantish(x) for x in e.elts)
    return False


def canonical_compares(tree: ast.AST) -> ast.AST:
    """normal form at load time: a single comparison whose left operand is a constant and whose right operand is not
    (`0 < n`, `"custom" == self.method`) is mirrored (`n > 0`, `self.method == "custom"`), so that every rule reads one
    orientation"""
    for node in ast.walk(tree):
        if isinstance(node, ast.Compare) and len(node.ops) == 1 and type(node.ops[0]) in _MIRROR:
            l, r = node.left, node.comparators[0]
            if _constantish(l) and not _constantish(r):
                node.left, node.comparators, node.ops = r, [l], [_MIRROR[type(node.ops[0])]()]
    return tree


def desugar_match(tree: ast.AST) -> ast.AST:
    """`match` statements whose patterns are values, singletons, wildcards, captures, class patterns without
    sub-patterns and or-patterns of those are rewritten into the equivalent if / elif chain at load time, so that every
    analysis sees one control-flow vocabulary. Other patterns (sequences, mappings, positional class patterns) are
    left as they are and make the analyses that meet them fail closed."""

    class T(ast.NodeTransformer):
        n = 0

        def test_of(self, pat, subj):
            """(test expression, [statements binding captures]) or None"""
            if isinstance(pat, ast.MatchValue):
                return ast.Compare(left=subj, ops=[ast.Eq()], comparators=[pat.value]), []
            if isinstance(pat, ast.MatchSingleton):
                return ast.Compare(left=subj, ops=[ast.Is()], comparators=[ast.Constant(value=pat.value)]), []
            if isinstance(pat, ast.MatchAs):
                if pat.pattern is None:
                    binds = [] if pat.name is None else [ast.Assign(targets=[ast.Name(id=pat.name, ctx=ast.Store())], value=subj)]
                    return ast.Constant(value=True), binds
                inner = self.test_of(pat.pattern, subj)
                if inner is None:
                    return None
                t, b = inner
                if pat.name is not None:
                    b = b + [ast.Assign(targets=[ast.Name(id=pat.name, ctx=ast.Store())], value=subj)]
                return t, b
            if isinstance(pat, ast.MatchClass) and not pat.patterns and not pat.kwd_patterns:
                return ast.Call(func=ast.Name(id="isinstance", ctx=ast.Load()), args=[subj, pat.cls], keywords=[]), []
            if isinstance(pat, ast.MatchOr):
                parts = [self.test_of(q, subj) for q in pat.patterns]
                if any(q is None or q[1] for q in parts):
                    return None
                return ast.BoolOp(op=ast.Or(), values=[q[0] for q in parts]), []
            return None

        def visit_Match(self, node):
            node = self.generic_visit(node)
            subj = node.subject
            pre = []
            if not isinstance(subj, (ast.Name, ast.Attribute, ast.Constant)):
                T.n += 1
                tmp = f"_match_subject{T.n}"
                pre = [ast.Assign(targets=[ast.Name(id=tmp, ctx=ast.Store())], value=subj)]
                subj = ast.Name(id=tmp, ctx=ast.Load())
            arms = []
            for case in node.cases:
                r = self.test_of(case.pattern, subj)
                if r is None:
                    return node
                t, binds = r
                if case.guard is not None:
                    if binds:
                        return node  # a guard that may read a capture: not expressible as a plain test here
                    t = case.guard if (isinstance(t, ast.Constant) and t.value is True) else ast.BoolOp(op=ast.And(), values=[t, case.guard])
                arms.append((t, binds + list(case.body)))
            chain: list = []
            for t, body in reversed(arms):
                if isinstance(t, ast.Constant) and t.value is True:
                    chain = body
                else:
                    chain = [ast.If(test=t, body=body, orelse=chain)]
            out = pre + (chain or [ast.Pass()])
            for st in out:
                ast.copy_location(st, node)
                ast.fix_missing_locations(st)
            return out

    return T().visit(tree)


class Program:
    _UIDS = iter(range(1, 1 << 62))

    def __init__(self, root: str) -> None:
        self.uid = next(Program._UIDS)  # cache key of per-program tables (an address can be reused once a program is freed)
        self.root = os.path.abspath(root)
        self.src_root = os.path.join(self.root, "src")
        self.modules: dict[str, Module] = {}
        self.funcs: list[FuncInfo] = []
        self.classes: list[ClassInfo] = []
        self._mro_cache: dict = {}
        self._env_cache: dict = {}
        self._load()
        self._link()
        self._canonical_arguments()

    # ----------------------------------------------------------------- loading
    def _load(self) -> None:
        pkg_dir = os.path.join(self.src_root, PKG)
        if not os.path.isdir(pkg_dir):
            raise AnalysisError(f"package directory not found: {pkg_dir}")
        for dirpath, dirnames, filenames in os.walk(pkg_dir):
            dirnames[:] = sorted(d for d in dirnames if d != "__pycache__")
            for fn in sorted(filenames):
                if not fn.endswith(".py"):
                    continue
                path = os.path.join(dirpath, fn)
                rel = os.path.relpath(path, self.src_root)
                name = rel[:-3].replace(os.sep, ".")
                if name.endswith(".__init__"):
                    name = name[: -len(".__init__")]
                with open(path, encoding="utf-8") as f:
                    src = f.read()
                try:
                    tree = ast.parse(src, filename=path)
                except SyntaxError as err:
                    raise AnalysisError(f"cannot parse {rel}: {err}") from err
                if "match " in src:
                    tree = desugar_match(tree)
                tree = fold_return_temps(tree)
                tree = canonical_compares(tree)
                mod = Module(name, path, os.path.relpath(path, self.root), tree, src)
                self.modules[name] = mod
        for mod in self.modules.values():
            self._collect(mod)

    @staticmethod
    def _variant_of_if(test: ast.AST) -> bool:
        for n in ast.walk(test):
            if isinstance(n, ast.Call) and (dotted(n.func) or "").split(".")[-1] == "use_mpi":
                return True
        return False

    @staticmethod
    def _is_type_checking(test: ast.AST) -> bool:
        return (dotted(test) or "").split(".")[-1] == "TYPE_CHECKING"

    def _collect(self, mod: Module) -> None:
        def add_def(name: str, d) -> None:
            mod.defs.setdefault(name, []).append(d)

        def do_import(node: ast.AST, type_only: bool) -> None:
            if isinstance(node, ast.Import):
                for a in node.names:
                    local = a.asname or a.name.split(".")[0]
                    target = a.name if a.asname else a.name.split(".")[0]
                    mod.imports[local] = ("mod", target)
                    if type_only:
                        mod.type_only_imports.add(local)
            elif isinstance(node, ast.ImportFrom):
                base = node.module or ""
                if node.level:
                    pkg = mod.name.split(".")
                    if not mod.path.endswith("__init__.py"):
                        pkg = pkg[:-1]
                    pkg = pkg[: len(pkg) - (node.level - 1)]
                    base = ".".join([*pkg, base] if base else pkg)
                for a in node.names:
                    local = a.asname or a.name
                    mod.imports[local] = ("sym", base, a.name)
                    if type_only:
                        mod.type_only_imports.add(local)

        def visit_body(body, variant, cls: ClassInfo | None, parent: FuncInfo | None, prefix: str, type_only=False):
            for st in body:
                if isinstance(st, (ast.Import, ast.ImportFrom)):
                    do_import(st, type_only)
                elif isinstance(st, (ast.FunctionDef, ast.AsyncFunctionDef)):
                    fi = FuncInfo(mod, prefix + st.name, st, cls, variant, parent)
                    mod.all_funcs.append(fi)
                    self.funcs.append(fi)
                    if cls is not None and parent is None:
                        cls.methods.setdefault(st.name, fi)
                        if st.name in cls.methods and cls.methods[st.name] is not fi:
                            # property setter etc.: keep the getter (first definition)
                            pass
                    elif parent is None:
                        add_def(st.name, fi)
                    # nested definitions and function-level imports
                    visit_body(st.body, variant, None, fi, prefix + st.name + ".<locals>.", type_only)
                elif isinstance(st, ast.ClassDef):
                    ci = ClassInfo(mod, st.name, prefix + st.name, st, variant)
                    mod.all_classes.append(ci)
                    self.classes.append(ci)
                    if parent is None and cls is None:
                        add_def(st.name, ci)
                    self._collect_class_body(ci)
                    visit_body(st.body, variant, ci, None, prefix + st.name + ".", type_only)
                elif isinstance(st, ast.If):
                    if self._is_type_checking(st.test):
                        visit_body(st.body, variant, cls, parent, prefix, True)
                        visit_body(st.orelse, variant, cls, parent, prefix, type_only)
                    elif parent is None and cls is None and self._variant_of_if(st.test):
                        visit_body(st.body, "mpi", cls, parent, prefix, type_only)
                        visit_body(st.orelse, "mp", cls, parent, prefix, type_only)
                    else:
                        visit_body(st.body, variant, cls, parent, prefix, type_only)
                        visit_body(st.orelse, variant, cls, parent, prefix, type_only)
                elif isinstance(st, ast.Try):
                    imports_mpi = any(
                        isinstance(n, (ast.Import, ast.ImportFrom))
                        and "mpi4py" in (unparse(n))
                        for n in st.body
                    )
                    catches_import = any(
                        h.type is not None and "ImportError" in unparse(h.type) for h in st.handlers
                    )
                    if parent is None and cls is None and imports_mpi and catches_import:
                        visit_body(st.body, "mpi", cls, parent, prefix, type_only)
                        for h in st.handlers:
                            visit_body(h.body, "mp", cls, parent, prefix, type_only)
                    else:
                        visit_body(st.body, variant, cls, parent, prefix, type_only)
                        for h in st.handlers:
                            visit_body(h.body, variant, cls, parent, prefix, type_only)
                    visit_body(st.orelse, variant, cls, parent, prefix, type_only)
                    visit_body(st.finalbody, variant, cls, parent, prefix, type_only)
                elif isinstance(st, (ast.With, ast.For, ast.While)):
                    visit_body(st.body, variant, cls, parent, prefix, type_only)
                    visit_body(getattr(st, "orelse", []), variant, cls, parent, prefix, type_only)
                elif parent is None and cls is None:
                    if isinstance(st, ast.Assign):
                        for t in st.targets:
                            if isinstance(t, ast.Name):
                                add_def(t.id, GlobalVar(mod, t.id, st.value, variant, st))
                    elif isinstance(st, ast.AnnAssign) and isinstance(st.target, ast.Name):
                        add_def(st.target.id, GlobalVar(mod, st.target.id, st.value, variant, st))

        visit_body(mod.tree.body, None, None, None, "")

    def _collect_class_body(self, ci: ClassInfo) -> None:
        for st in ci.node.body:
            if isinstance(st, ast.AnnAssign) and isinstance(st.target, ast.Name):
                ci.class_ann[st.target.id] = st.annotation
                if st.value is not None:
                    ci.class_assign[st.target.id] = st.value
            elif isinstance(st, ast.Assign):
                for t in st.targets:
                    if isinstance(t, ast.Name):
                        ci.class_assign[t.id] = st.value
                        if t.id == "__slots__":
                            try:
                                val = ast.literal_eval(st.value)
                                ci.slots = (val,) if isinstance(val, str) else tuple(val)
                            except Exception:
                                ci.slots = None

    # ----------------------------------------------------------------- linking
    def _link(self) -> None:
        for ci in self.classes:
            for b in ci.node.bases:
                if isinstance(b, ast.Subscript):
                    b = b.value
                tgt = self.resolve_expr_static(ci.module, b, ci.variant)
                got = None
                for t in tgt:
                    if isinstance(t, ClassInfo):
                        got = t
                        break
                    if isinstance(t, External):
                        got = t.name
                ci.bases.append(got if got is not None else (dotted(b) or unparse(b)))
        for ci in self.classes:
            self._collect_inst_attrs(ci)

    def _canonical_arguments(self) -> None:
        """normal form after linking: in a call whose callee is one precisely resolved function / constructor of the
        package, every argument that *can* be passed by position is — `f(x=a, y=b)`, `f(a, y=b)` and `f(a, b)` all
        read `f(a, b)` (as long as no earlier parameter is left out); keyword-only parameters and parameters after a
        gap stay keywords, in signature order.  The rules then read one spelling of the call."""
        todo = []
        for fi in list(self.funcs):
            for c in ast.walk(fi.node):
                if not isinstance(c, ast.Call) or not (c.keywords or c.args) or any(isinstance(x, ast.Starred) for x in c.args) or any(k.arg is None for k in c.keywords):
                    continue
                try:
                    tg = self.resolve_call(fi, c)
                except Exception:  # noqa: BLE001
                    continue
                if not getattr(tg, "precise", True):
                    continue
                fs, cl = tg.funcs(), tg.classes()
                if len(fs) + len(cl) != 1 or len(tg.targets) != 1:
                    continue
                if cl:
                    if cl[0].is_dataclass or any((dotted(b) or "").split(".")[-1] == "NamedTuple" for b in cl[0].node.bases):
                        continue  # (field order of generated constructors: left as written)
                    callee = self.find_method(cl[0], "__init__")
                    if callee is None or "__new__" in cl[0].methods:
                        continue
                    skip = 1
                else:
                    callee = fs[0]
                    if callee.decorators() and not (callee.is_classmethod or callee.is_staticmethod):
                        continue
                    skip = 0
                    if callee.cls is not None and not callee.is_staticmethod:
                        # bound call (obj.m(...), cls.m(...)) drops the first parameter; Class.m(obj, ...) does not
                        f = c.func
                        unbound = isinstance(f, ast.Attribute) and isinstance(f.value, ast.Name) and f.value.id[:1].isupper() and not callee.is_classmethod and bool(self.find_classes(f.value.id))
                        skip = 0 if unbound else 1
                a = callee.node.args
                if a.vararg is not None:
                    continue
                pos = [p_.arg for p_ in [*a.posonlyargs, *a.args]][skip:]
                todo.append((c, pos))
        for c, pos in todo:
            k = len(c.args)
            kws = {kw.arg: kw for kw in c.keywords}
            moved = []
            while k + len(moved) < len(pos) and pos[k + len(moved)] in kws:
                moved.append(kws[pos[k + len(moved)]])
            if moved:
                c.args = [*c.args, *[m.value for m in moved]]
                c.keywords = [kw for kw in c.keywords if kw not in moved]
            # parameter name -> position, for every positional argument of the call: rules that ask for "the argument
            # bound to parameter p" (rules.common.kwarg) find it whether it was written by keyword or by position
            c._kwpos = {pos[i]: i for i in range(min(len(c.args), len(pos)))}

    def _collect_inst_attrs(self, ci: ClassInfo) -> None:
        def add(name: str, value) -> None:
            ci.inst_attrs.setdefault(name, []).append(value)

        for fi in ci.methods.values():
            params = fi.param_names()
            selfname = params[0] if params and not fi.is_staticmethod else None
            new_names: set[str] = set()
            for n in walk_no_nested(fi.node):
                # new = cls.__new__(cls) / super().__new__(cls) / object.__new__(cls)
                if isinstance(n, ast.Assign) and isinstance(n.value, ast.Call):
                    f = n.value.func
                    if isinstance(f, ast.Attribute) and f.attr == "__new__":
                        for t in n.targets:
                            if isinstance(t, ast.Name):
                                new_names.add(t.id)
            for n in walk_no_nested(fi.node):
                if isinstance(n, (ast.Assign, ast.AnnAssign, ast.AugAssign)):
                    targets = n.targets if isinstance(n, ast.Assign) else [n.target]
                    value = getattr(n, "value", None)
                    flat = []
                    for t in targets:
                        if isinstance(t, (ast.Tuple, ast.List)):
                            flat.extend(t.elts)
                        else:
                            flat.append(t)
                    for t in flat:
                        if isinstance(t, ast.Attribute) and isinstance(t.value, ast.Name):
                            if t.value.id == selfname and not fi.is_classmethod:
                                add(t.attr, value)
                                if isinstance(n, ast.AnnAssign):
                                    ci.inst_ann[t.attr] = n.annotation
                            elif t.value.id in new_names:
                                add(t.attr, value)
                elif isinstance(n, ast.Call):
                    fn = dotted(n.func) or ""
                    if fn == "object.__setattr__" and len(n.args) >= 3:
                        if isinstance(n.args[0], ast.Name) and n.args[0].id == selfname:
                            if isinstance(n.args[1], ast.Constant) and isinstance(n.args[1].value, str):
                                add(n.args[1].value, n.args[2])
                    elif fn == "setattr" and len(n.args) >= 3:
                        tgt = n.args[0]
                        if isinstance(tgt, ast.Name) and (tgt.id == selfname or tgt.id in new_names):
                            key = n.args[1]
                            if isinstance(key, ast.Constant) and isinstance(key.value, str):
                                add(key.value, n.args[2])
                            else:
                                # setattr(self, k, v) with k ranging over __slots__ / state keys
                                for s in self.all_slots(ci):
                                    add(s, None)
        if ci.is_dataclass:
            for name in ci.class_ann:
                add(name, ci.class_assign.get(name))

    # ----------------------------------------------------------------- lookups
    def module(self, name: str) -> Module:
        try:
            return self.modules[name]
        except KeyError:
            raise AnalysisError(f"module vanished: {name}") from None

    def lookup(self, mod: Module, name: str, variant: str | None = None, _seen=None) -> list:
        """Resolve a module-level name to definitions (following imports)."""
        _seen = _seen or set()
        if (mod.name, name) in _seen:
            return []
        _seen.add((mod.name, name))
        out = []
        for d in mod.defs.get(name, []):
            if variant is None or d.variant is None or d.variant == variant:
                out.append(d)
        if out:
            return out
        imp = mod.imports.get(name)
        if imp is None:
            return []
        if imp[0] == "mod":
            target = imp[1]
            if target in self.modules:
                return [ModuleRef(self.modules[target])]
            return [External(target)]
        _, base, sym = imp
        full = f"{base}.{sym}"
        if full in self.modules:
            return [ModuleRef(self.modules[full])]
        if base in self.modules:
            got = self.lookup(self.modules[base], sym, variant, _seen)
            if got:
                return got
            return []
        return [External(full)]

    def resolve_expr_static(self, mod: Module, expr: ast.AST, variant: str | None = None) -> list:
        """Resolve a Name/Attribute chain that starts at a module-level name."""
        d = dotted(expr)
        if d is None:
            return []
        parts = d.split(".")
        cur = self.lookup(mod, parts[0], variant)
        if not cur and hasattr(builtins, parts[0]):
            cur = [External("builtins." + parts[0])]
        for p in parts[1:]:
            nxt = []
            for c in cur:
                if isinstance(c, ModuleRef):
                    sub = f"{c.module.name}.{p}"
                    if sub in self.modules:
                        nxt.append(ModuleRef(self.modules[sub]))
                    else:
                        nxt.extend(self.lookup(c.module, p, variant))
                elif isinstance(c, External):
                    nxt.append(External(f"{c.name}.{p}"))
                elif isinstance(c, ClassInfo):
                    m = self.find_method(c, p)
                    if m is not None:
                        nxt.append(m)
                elif isinstance(c, GlobalVar):
                    nxt.append(External(f"{c.module.name}.{c.name}.{p}"))
            cur = nxt
        return cur

    # ----------------------------------------------------------------- classes
    def mro(self, ci: ClassInfo) -> list:
        """C3 linearisation; external bases are kept as dotted strings at the end."""
        if ci in self._mro_cache:
            return self._mro_cache[ci]
        self._mro_cache[ci] = [ci]  # recursion guard

        def merge(seqs):
            res = []
            seqs = [list(s) for s in seqs if s]
            while seqs:
                for s in seqs:
                    cand = s[0]
                    if not any(cand in t[1:] for t in seqs):
                        break
                else:
                    # inconsistent hierarchy: fall back to depth-first order
                    cand = seqs[0][0]
                res.append(cand)
                seqs = [[x for x in s if x is not cand and x != cand] for s in seqs]
                seqs = [s for s in seqs if s]
            return res

        parents = []
        for b in ci.bases:
            if isinstance(b, ClassInfo):
                parents.append(self.mro(b))
            else:
                parents.append([b])
        out = [ci] + merge(parents + [[b for b in ci.bases]])
        self._mro_cache[ci] = out
        return out

    def find_method(self, ci: ClassInfo, name: str, after: ClassInfo | None = None) -> FuncInfo | None:
        mro = self.mro(ci)
        if after is not None and after in mro:
            mro = mro[mro.index(after) + 1 :]
        for c in mro:
            if isinstance(c, ClassInfo) and name in c.methods:
                return c.methods[name]
        return None

    def all_slots(self, ci: ClassInfo) -> list[str]:
        out = []
        for c in self.mro(ci):
            if isinstance(c, ClassInfo) and c.slots:
                out.extend(s for s in c.slots if s not in out)
        return out

    _EXT_BASE_CACHE: dict = {}

    def external_attrs(self, base: str) -> set[str]:
        """Attribute names of a stdlib base class (from the analysing interpreter)."""
        if base in self._EXT_BASE_CACHE:
            return self._EXT_BASE_CACHE[base]
        attrs: set[str] = set(dir(object))
        parts = base.split(".")
        obj = None
        try:
            import importlib

            for i in range(len(parts) - 1, 0, -1):
                try:
                    m = importlib.import_module(".".join(parts[:i]))
                except Exception:
                    continue
                obj = m
                for p in parts[i:]:
                    obj = getattr(obj, p)
                break
        except Exception:
            obj = None
        if obj is None and hasattr(builtins, parts[-1]):
            obj = getattr(builtins, parts[-1])
        if obj is not None:
            attrs |= set(dir(obj))
        if parts[-1] == "NamedTuple":
            # typing.NamedTuple is a class factory: its products are tuples with the namedtuple API
            attrs |= set(dir(tuple)) | {"_fields", "_field_defaults", "_asdict", "_replace", "_make"}
        self._EXT_BASE_CACHE[base] = attrs
        return attrs

    def class_attr_names(self, ci: ClassInfo, *, concrete_only: bool = False) -> set[str]:
        names: set[str] = set()
        for c in self.mro(ci):
            if isinstance(c, ClassInfo):
                names |= set(c.methods) | set(c.class_ann) | set(c.class_assign) | set(c.inst_attrs)
                if c.slots:
                    names |= set(c.slots)
            else:
                names |= self.external_attrs(c)
        return names

    def subclasses(self, ci: ClassInfo) -> list[ClassInfo]:
        return [c for c in self.classes if c is not ci and ci in self.mro(c)]

    def find_class(self, name: str, module: str | None = None) -> ClassInfo:
        hits = [c for c in self.classes if c.name == name and (module is None or c.module.name == module)]
        if not hits:
            raise AnalysisError(f"class vanished: {name}")
        return hits[0]

    def find_classes(self, name: str) -> list[ClassInfo]:
        return [c for c in self.classes if c.name == name]

    def find_funcs(self, name: str, *, variant: str | None = None, module: str | None = None) -> list[FuncInfo]:
        out = []
        for f in self.funcs:
            if f.qualname == name or (f.name == name and "." not in name and f.cls is None and f.parent is None):
                if module is not None and f.module.name != module:
                    continue
                if variant is None or f.variant is None or f.variant == variant:
                    out.append(f)
        return out

    def func(self, qualname: str, *, module: str | None = None, variant: str | None = None) -> FuncInfo:
        hits = [
            f
            for f in self.funcs
            if f.qualname == qualname
            and (module is None or f.module.name == module)
            and (variant is None or f.variant is None or f.variant == variant)
        ]
        if not hits:
            raise AnalysisError(f"function vanished: {module or ''}:{qualname} [{variant}]")
        return hits[0]

    # ----------------------------------------------------------------- typing
    def ann_to_type(self, mod: Module, ann, variant=None, selfcls: ClassInfo | None = None) -> frozenset:
        if ann is None:
            return UNKNOWN
        if isinstance(ann, ast.Constant) and isinstance(ann.value, str):
            try:
                ann = ast.parse(ann.value, mode="eval").body
            except SyntaxError:
                return UNKNOWN
        if isinstance(ann, ast.Constant) and ann.value is None:
            return tset(("none",))
        if isinstance(ann, ast.BinOp) and isinstance(ann.op, ast.BitOr):
            return self.ann_to_type(mod, ann.left, variant, selfcls) | self.ann_to_type(
                mod, ann.right, variant, selfcls
            )
        if isinstance(ann, ast.Subscript):
            head = (dotted(ann.value) or "").split(".")[-1]
            sl = ann.slice
            args = list(sl.elts) if isinstance(sl, ast.Tuple) else [sl]
            if head in ("dict", "Dict", "Mapping", "MutableMapping"):
                if len(args) == 2:
                    return tset(
                        ("dict", self.ann_to_type(mod, args[0], variant, selfcls), self.ann_to_type(mod, args[1], variant, selfcls))
                    )
            if head in ("list", "List", "Sequence", "set", "Set", "frozenset", "deque"):
                return tset(("list", self.ann_to_type(mod, args[0], variant, selfcls)))
            if head in ("Iterator", "Iterable", "Generator", "Indexer"):
                return tset(("iter", self.ann_to_type(mod, args[-1] if head == "Indexer" else args[0], variant, selfcls)))
            if head in ("tuple", "Tuple"):
                if len(args) == 2 and isinstance(args[1], ast.Constant) and args[1].value is Ellipsis:
                    return tset(("list", self.ann_to_type(mod, args[0], variant, selfcls)))
                return tset(("tuple", tuple(self.ann_to_type(mod, a, variant, selfcls) for a in args)))
            if head in ("Optional",):
                return self.ann_to_type(mod, args[0], variant, selfcls) | tset(("none",))
            if head in ("Union",):
                out = UNKNOWN
                for a in args:
                    out |= self.ann_to_type(mod, a, variant, selfcls)
                return out
            if head in ("type", "Type"):
                inner = self.ann_to_type(mod, args[0], variant, selfcls)
                return frozenset(("type", t[1]) for t in inner if t[0] == "cls")
            return self.ann_to_type(mod, ann.value, variant, selfcls)
        d = dotted(ann)
        if d is None:
            return UNKNOWN
        last = d.split(".")[-1]
        if last in ("Self",) and selfcls is not None:
            return tset(("cls", selfcls))
        if selfcls is not None and last.startswith("Type") and last[4:] and self.find_classes(last[4:]):
            # TypeVar bound to a repo class, named Type<Class> by convention in this repo
            tv = self.lookup(mod, last, variant)
            if tv and isinstance(tv[0], GlobalVar) and isinstance(tv[0].value, ast.Call) and (dotted(tv[0].value.func) or "").split(".")[-1] == "NewType" and len(tv[0].value.args) == 2:
                # a NewType is its base type (TypeDataChunk = NewType("TypeDataChunk", NDArray)): not the class it is named after
                return self.ann_to_type(tv[0].module, tv[0].value.args[1], variant, selfcls)
            if not tv or isinstance(tv[0], (GlobalVar, External)):
                return tset(("cls", selfcls))
        out = set()
        for t in self.resolve_expr_static(mod, ann, variant):
            if isinstance(t, ClassInfo):
                out.add(("cls", t))
            elif isinstance(t, External):
                out.add(("ext", t.name))
        if not out:
            # names only visible in TYPE_CHECKING blocks of other modules etc.
            hits = self.find_classes(last)
            if len(hits) == 1 and "." not in d:
                out.add(("cls", hits[0]))
        return frozenset(out)

    def func_env(self, fi: FuncInfo) -> "FuncEnv":
        env = self._env_cache.get(fi)
        if env is None:
            env = FuncEnv(self, fi)
            self._env_cache[fi] = env
        return env

    def return_type(self, fi: FuncInfo, recv_cls: ClassInfo | None = None) -> frozenset:
        selfcls = recv_cls or fi.cls
        t = self.ann_to_type(fi.module, fi.node.returns, fi.variant, selfcls)
        return t

    # ----------------------------------------------------------------- calls
    def resolve_call(self, fi: FuncInfo, call: ast.Call) -> "CallTargets":
        return self.func_env(fi).resolve_call(call)


@dataclass
class CallTargets:
    targets: list  # FuncInfo | ClassInfo | External
    precise: bool = True
    recv_types: frozenset = UNKNOWN

    def funcs(self) -> list[FuncInfo]:
        return [t for t in self.targets if isinstance(t, FuncInfo)]

    def ext_names(self) -> list[str]:
        return [t.name for t in self.targets if isinstance(t, External)]

    def classes(self) -> list[ClassInfo]:
        return [t for t in self.targets if isinstance(t, ClassInfo)]

    def __bool__(self) -> bool:
        return bool(self.targets)


class FuncEnv:
    """Flow-insensitive local typing for one function."""

    def __init__(self, prog: Program, fi: FuncInfo) -> None:
        self.prog = prog
        self.fi = fi
        self.mod = fi.module
        self.variant = fi.variant
        self.assigns: dict[str, list] = {}  # name -> list of ("expr", node) | ("iter", node) | ("with", node) | ("ann", node) | ("unpack", node, idx)
        self.param_ann: dict[str, ast.AST | None] = {}
        self._cache: dict = {}
        self._busy: set = set()
        self._scan()

    # --- scanning
    def _scan(self) -> None:
        fi = self.fi
        a = fi.node.args
        for p in fi.params():
            self.param_ann[p.arg] = p.annotation
        self.vararg = a.vararg.arg if a.vararg else None
        self.kwarg = a.kwarg.arg if a.kwarg else None
        if a.vararg:
            self.param_ann[a.vararg.arg] = a.vararg.annotation
        if a.kwarg:
            self.param_ann[a.kwarg.arg] = None

        def bind(target, src) -> None:
            if isinstance(target, ast.Name):
                self.assigns.setdefault(target.id, []).append(src)
            elif isinstance(target, (ast.Tuple, ast.List)):
                for i, e in enumerate(target.elts):
                    if isinstance(e, ast.Starred):
                        bind(e.value, ("rest", src))
                    else:
                        bind(e, ("unpack", src, i))

        for n in walk_no_nested(fi.node):
            if isinstance(n, ast.Assign):
                for t in n.targets:
                    bind(t, ("expr", n.value))
            elif isinstance(n, ast.AnnAssign):
                if isinstance(n.target, ast.Name):
                    self.assigns.setdefault(n.target.id, []).append(("ann", n.annotation))
                    if n.value is not None:
                        self.assigns[n.target.id].append(("expr", n.value))
            elif isinstance(n, ast.NamedExpr):
                bind(n.target, ("expr", n.value))
            elif isinstance(n, (ast.For, ast.AsyncFor)):
                bind(n.target, ("iter", n.iter))
            elif isinstance(n, ast.comprehension):
                bind(n.target, ("iter", n.iter))
            elif isinstance(n, (ast.With, ast.AsyncWith)):
                for it in n.items:
                    if it.optional_vars is not None:
                        bind(it.optional_vars, ("with", it.context_expr))
            elif isinstance(n, ast.ExceptHandler) and n.name:
                self.assigns.setdefault(n.name, []).append(("ann", n.type))
            elif isinstance(n, (ast.FunctionDef, ast.AsyncFunctionDef)) and n is not fi.node:
                for f2 in fi.module.all_funcs:
                    if f2.node is n:
                        self.assigns.setdefault(n.name, []).append(("funcdef", f2))

    # --- aliases: `recv = parallel.COMM.recv` -> substitute
    def alias_of(self, name: str) -> ast.AST | None:
        srcs = self.assigns.get(name, [])
        if name in self.param_ann:
            return None
        if len(srcs) == 1 and srcs[0][0] == "expr":
            v = srcs[0][1]
            if isinstance(v, (ast.Attribute, ast.Name)) and dotted(v):
                return v
        return None

    # --- typing
    def type_of(self, expr: ast.AST) -> frozenset:
        key = id(expr)
        hit = self._cache.get(key)
        if hit is not None and hit[0] is expr:
            return hit[1]
        if key in self._busy:
            return UNKNOWN
        self._busy.add(key)
        try:
            t = self._type_of(expr)
        finally:
            self._busy.discard(key)
        # the entry holds the node itself: a transient (synthesised) node that is freed must not lend its address,
        # and with it a stale type, to the next node allocated there
        self._cache[key] = (expr, t)
        return t

    def _elem(self, t: frozenset) -> frozenset:
        out = set()
        for x in t:
            if x[0] in ("list", "iter"):
                out |= x[1]
            elif x[0] == "dict":
                out |= x[1]
            elif x[0] == "tuple":
                for e in x[1]:
                    out |= e
            elif x[0] == "cls":
                it = self.prog.find_method(x[1], "__iter__")
                rt = self.prog.return_type(it, x[1]) if it is not None else None
                if it is not None and not (rt and x in rt):
                    out |= self._elem(rt) if rt else UNKNOWN
                else:
                    # no __iter__, or an iterator class (`__iter__` returns self): the items are what __next__ returns
                    nx = self.prog.find_method(x[1], "__next__")
                    if nx is not None:
                        out |= self.prog.return_type(nx, x[1])
                    elif it is not None:
                        out |= UNKNOWN
                # Mapping[K, V] base: iteration yields keys -> unknown
        return frozenset(out)

    def _src_type(self, src) -> frozenset:
        kind = src[0]
        if kind == "expr":
            return self.type_of(src[1])
        if kind == "ann":
            return self.prog.ann_to_type(self.mod, src[1], self.variant, self.fi.cls)
        if kind == "iter":
            return self._elem(self.type_of(src[1]))
        if kind == "with":
            t = self.type_of(src[1])
            out = set()
            for x in t:
                if x[0] == "cls":
                    en = self.prog.find_method(x[1], "__enter__")
                    if en is not None:
                        rt = self.prog.return_type(en, x[1])
                        out |= rt if rt else {x}
                    else:
                        out.add(x)
                else:
                    out.add(x)
            return frozenset(out)
        if kind == "unpack":
            base = self._src_type(src[1])
            out = set()
            for x in base:
                if x[0] == "tuple" and src[2] < len(x[1]):
                    out |= x[1][src[2]]
                elif x[0] in ("list", "iter"):
                    out |= x[1]
            return frozenset(out)
        if kind == "funcdef":
            return tset(("func", src[1]))
        if kind == "rest":
            base = self._src_type(src[1])
            return frozenset(("list", x[1]) for x in base if x[0] in ("list", "iter"))
        return UNKNOWN

    def name_type(self, name: str) -> frozenset:
        fi = self.fi
        params = fi.param_names()
        if fi.cls is not None and params and name == params[0] and not fi.is_staticmethod:
            if fi.is_classmethod or fi.name == "__new__" or fi.name == "__init_subclass__":
                return tset(("type", fi.cls))
            return tset(("cls", fi.cls))
        out = set()
        if name in self.param_ann:
            pt = self.prog.ann_to_type(self.mod, self.param_ann[name], self.variant, fi.cls)
            if name == self.vararg:
                pt = tset(("list", pt))
            out |= pt
        for src in self.assigns.get(name, []):
            out |= self._src_type(src)
        if out:
            return frozenset(out)
        if name in self.param_ann or name in self.assigns:
            return UNKNOWN
        # enclosing function scopes
        p = fi.parent
        while p is not None:
            penv = self.prog.func_env(p)
            if name in penv.param_ann or name in penv.assigns:
                return penv.name_type(name)
            p = p.parent
        # module level
        for d in self.prog.lookup(self.mod, name, self.variant):
            if isinstance(d, ClassInfo):
                out.add(("type", d))
            elif isinstance(d, FuncInfo):
                out.add(("func", d))
            elif isinstance(d, ModuleRef):
                out.add(("mod", d.module))
            elif isinstance(d, External):
                out.add(("extmod", d.name))
            elif isinstance(d, GlobalVar):
                out |= self._global_type(d)
        if not out and hasattr(builtins, name):
            out.add(("extmod", "builtins." + name))
        return frozenset(out)

    def _global_type(self, g: GlobalVar) -> frozenset:
        out = {("global", g.module.name, g.name)}
        if isinstance(g.value, ast.Call):
            for t in self.prog.resolve_expr_static(g.module, g.value.func, g.variant):
                if isinstance(t, ClassInfo):
                    out.add(("cls", t))
        elif g.value is not None:
            for t in self.prog.resolve_expr_static(g.module, g.value, g.variant):
                if isinstance(t, External):
                    out.add(("ext", t.name))
        return frozenset(out)

    def attr_type(self, base: frozenset, attr: str) -> frozenset:
        out = set()
        for x in base:
            if x[0] == "cls" or x[0] == "type":
                ci = x[1]
                m = self.prog.find_method(ci, attr)
                if m is not None:
                    if m.is_property and x[0] == "cls":
                        out |= self.prog.return_type(m, ci)
                    else:
                        out.add(("bound", m, ci))
                    continue
                found = False
                if attr == "__new__":
                    out.add(("extattr", "builtins.object", "__new__"))
                    continue
                for c in self.prog.mro(ci):
                    if not isinstance(c, ClassInfo):
                        if attr in self.prog.external_attrs(c) and not hasattr(object, attr):
                            out.add(("extattr", c, attr))
                            found = True
                            break
                        continue
                    if attr in c.inst_ann:
                        out |= self.prog.ann_to_type(c.module, c.inst_ann[attr], c.variant, ci)
                        found = True
                        break
                    if attr in c.class_ann:
                        out |= self.prog.ann_to_type(c.module, c.class_ann[attr], c.variant, ci)
                        found = True
                        break
                    if attr in c.inst_attrs:
                        for v in c.inst_attrs[attr]:
                            if v is not None:
                                init = next((f for f in c.methods.values() if any(v is n for n in ast.walk(f.node))), None)
                                if init is not None:
                                    out |= self.prog.func_env(init).type_of(v)
                        found = True
                        break
                if not found:
                    pass
            elif x[0] == "mod":
                sub = f"{x[1].name}.{attr}"
                if sub in self.prog.modules:
                    out.add(("mod", self.prog.modules[sub]))
                    continue
                for d in self.prog.lookup(x[1], attr, self.variant):
                    if isinstance(d, ClassInfo):
                        out.add(("type", d))
                    elif isinstance(d, FuncInfo):
                        out.add(("func", d))
                    elif isinstance(d, ModuleRef):
                        out.add(("mod", d.module))
                    elif isinstance(d, External):
                        out.add(("extmod", d.name))
                    elif isinstance(d, GlobalVar):
                        out |= self._global_type(d)
            elif x[0] == "extmod":
                out.add(("extmod", f"{x[1]}.{attr}"))
            elif x[0] == "ext":
                out.add(("extattr", x[1], attr))
            elif x[0] == "global":
                out.add(("extattr", f"{x[1]}.{x[2]}", attr))
            elif x[0] == "dict" and attr in ("values",):
                out.add(("dictmeth", "values", x))
            elif x[0] == "dict" and attr in ("items", "keys", "get", "pop"):
                out.add(("dictmeth", attr, x))
        return frozenset(out)

    def _type_of(self, e: ast.AST) -> frozenset:
        if isinstance(e, ast.Name):
            return self.name_type(e.id)
        if isinstance(e, ast.Constant):
            if e.value is None:
                return tset(("none",))
            return tset(("ext", "builtins." + type(e.value).__name__))
        if isinstance(e, ast.Attribute):
            return self.attr_type(self.type_of(e.value), e.attr)
        if isinstance(e, ast.IfExp):
            return self.type_of(e.body) | self.type_of(e.orelse)
        if isinstance(e, ast.BoolOp):
            out = UNKNOWN
            for v in e.values:
                out |= self.type_of(v)
            return out
        if isinstance(e, ast.NamedExpr):
            return self.type_of(e.value)
        if isinstance(e, ast.Subscript):
            base = self.type_of(e.value)
            out = set()
            for x in base:
                if x[0] == "dict":
                    out |= x[2]
                elif x[0] in ("list",):
                    if isinstance(e.slice, ast.Slice):
                        out.add(x)
                    else:
                        out |= x[1]
                elif x[0] == "tuple":
                    if isinstance(e.slice, ast.Constant) and isinstance(e.slice.value, int) and e.slice.value < len(x[1]):
                        out |= x[1][e.slice.value]
                    else:
                        for t in x[1]:
                            out |= t
                elif x[0] == "cls":
                    gi = self.prog.find_method(x[1], "__getitem__")
                    if gi is not None:
                        out |= self.prog.return_type(gi, x[1])
            return frozenset(out)
        if isinstance(e, ast.Call):
            return self._call_type(e)
        if isinstance(e, (ast.Dict, ast.DictComp)):
            if isinstance(e, ast.DictComp):
                return tset(("dict", self.type_of(e.key), self.type_of(e.value)))
            vt = UNKNOWN
            for v in e.values:
                if v is not None:
                    vt |= self.type_of(v)
            return tset(("dict", UNKNOWN, vt))
        if isinstance(e, (ast.ListComp, ast.SetComp, ast.GeneratorExp)):
            return tset(("list", self.type_of(e.elt)))
        if isinstance(e, (ast.List, ast.Set)):
            et = UNKNOWN
            for x in e.elts:
                if isinstance(x, ast.Starred):
                    et |= self._elem(self.type_of(x.value))
                else:
                    et |= self.type_of(x)
            return tset(("list", et))
        if isinstance(e, ast.JoinedStr):
            return tset(("ext", "builtins.str"))
        if isinstance(e, ast.BinOp):
            lt = self.type_of(e.left)
            if isinstance(e.op, ast.Div) and any(x[0] == "ext" and x[1].startswith("pathlib.") for x in lt):
                return frozenset(x for x in lt if x[0] == "ext" and x[1].startswith("pathlib."))
            keep = frozenset(x for x in lt | self.type_of(e.right) if x[0] == "cls")
            return keep
        if isinstance(e, ast.Tuple):
            return tset(("tuple", tuple(self.type_of(x) for x in e.elts)))
        if isinstance(e, ast.Lambda):
            return tset(("lambda",))
        if isinstance(e, ast.Await):
            return self.type_of(e.value)
        return UNKNOWN

    def _call_type(self, call: ast.Call) -> frozenset:
        f = call.func
        # type(x)(...) -> instance of x's class
        if isinstance(f, ast.Call) and isinstance(f.func, ast.Name) and f.func.id == "type" and len(f.args) == 1:
            return frozenset(x for x in self.type_of(f.args[0]) if x[0] == "cls")
        if isinstance(f, ast.Name) and f.id == "type" and len(call.args) == 1:
            return frozenset(("type", x[1]) for x in self.type_of(call.args[0]) if x[0] == "cls")
        if isinstance(f, ast.Name) and f.id in ("iter", "sorted", "list", "tuple", "reversed") and call.args:
            el = self._elem(self.type_of(call.args[0]))
            return tset(("list" if f.id != "iter" else "iter", el))
        if isinstance(f, ast.Name) and f.id == "next" and call.args:
            return self._elem(self.type_of(call.args[0]))
        if isinstance(f, ast.Name) and f.id in ("zip",):
            return tset(("iter", tset(("tuple", tuple(self._elem(self.type_of(a)) for a in call.args)))))
        if isinstance(f, ast.Name) and f.id in ("enumerate",) and call.args:
            return tset(("iter", tset(("tuple", (tset(("ext", "builtins.int")), self._elem(self.type_of(call.args[0])))))))
        ft = self.type_of(f)
        out = set()
        for x in ft:
            if x[0] == "type":
                out.add(("cls", x[1]))
            elif x[0] == "func":
                out |= self.prog.return_type(x[1])
            elif x[0] == "bound":
                m, recv = x[1], x[2]
                if m.name == "__new__":
                    out.add(("cls", recv))
                else:
                    out |= self.prog.return_type(m, recv)
            elif x[0] == "cls":
                m = self.prog.find_method(x[1], "__call__")
                if m is not None:
                    out |= self.prog.return_type(m, x[1])
            elif x[0] == "extmod":
                if x[1] in ("pathlib.Path", "pathlib.PurePath"):
                    out.add(("ext", "pathlib.Path"))
                else:
                    out.add(("ext", x[1] + "()"))
            elif x[0] == "extattr":
                if x[1].startswith("pathlib.") and x[2] in ("with_suffix", "with_name", "parent", "absolute", "resolve", "expanduser", "joinpath"):
                    out.add(("ext", "pathlib.Path"))
                else:
                    out.add(("ext", f"{x[1]}.{x[2]}()"))
            elif x[0] == "dictmeth":
                d = x[2]
                if x[1] == "values":
                    out.add(("iter", d[2]))
                elif x[1] == "keys":
                    out.add(("iter", d[1]))
                elif x[1] == "items":
                    out.add(("iter", tset(("tuple", (d[1], d[2])))))
                elif x[1] in ("get", "pop"):
                    out |= d[2]
        # super().__new__(cls) / cls.__new__(cls)
        if isinstance(f, ast.Attribute) and f.attr == "__new__" and call.args:
            for x in self.type_of(call.args[0]):
                if x[0] == "type":
                    out.add(("cls", x[1]))
        return frozenset(out)

    # --- call resolution
    def resolve_call(self, call: ast.Call) -> CallTargets:
        f = call.func
        # alias substitution for simple names
        if isinstance(f, ast.Name):
            al = self.alias_of(f.id)
            if al is not None:
                fake = ast.Call(func=al, args=call.args, keywords=call.keywords)
                ast.copy_location(fake, call)
                return self.resolve_call(fake)
        # super().m(...)
        if isinstance(f, ast.Attribute) and isinstance(f.value, ast.Call) and isinstance(f.value.func, ast.Name) and f.value.func.id == "super":
            cls = self.fi.cls
            if cls is None and self.fi.parent is not None:
                cls = self.fi.parent.cls
            if cls is not None:
                # the receiver may be any subclass: report targets for the static class
                m = self.prog.find_method(cls, f.attr, after=cls)
                if m is not None:
                    return CallTargets([m], True, tset(("cls", cls)))
                for b in self.prog.mro(cls)[1:]:
                    if not isinstance(b, ClassInfo) and f.attr in self.prog.external_attrs(b):
                        return CallTargets([External(f"{b}.{f.attr}")], True)
            return CallTargets([], False)
        if isinstance(f, ast.Call) and isinstance(f.func, ast.Name) and f.func.id == "type" and len(f.args) == 1:
            t = [x[1] for x in self.type_of(f.args[0]) if x[0] == "cls"]
            return CallTargets(list(t), True)
        ft = self.type_of(f)
        targets: list = []
        recv = UNKNOWN
        for x in ft:
            if x[0] == "type":
                targets.append(x[1])
            elif x[0] == "func":
                targets.append(x[1])
            elif x[0] == "bound":
                targets.append(x[1])
                recv |= tset(("cls", x[2]))
            elif x[0] == "cls":
                m = self.prog.find_method(x[1], "__call__")
                if m is not None:
                    targets.append(m)
                    recv |= tset(x)
            elif x[0] == "extmod":
                targets.append(External(x[1]))
            elif x[0] == "extattr":
                targets.append(External(f"{x[1]}.{x[2]}"))
            elif x[0] == "dictmeth":
                targets.append(External(f"builtins.dict.{x[1]}"))
        if targets:
            # dedupe
            seen, uniq = set(), []
            for t in targets:
                if id(t) not in seen and t not in uniq:
                    seen.add(id(t))
                    uniq.append(t)
            return CallTargets(uniq, True, recv)
        # fallbacks
        if isinstance(f, ast.Attribute):
            base_t = self.type_of(f.value)
            ext = [x for x in base_t if x[0] in ("ext", "list", "dict", "tuple", "iter", "none")]
            if ext:
                names = []
                for x in ext:
                    if x[0] == "ext":
                        names.append(External(f"{x[1]}.{f.attr}"))
                    else:
                        names.append(External(f"builtins.{x[0]}.{f.attr}"))
                return CallTargets(names, True, base_t)
            # class-hierarchy fallback: every repo method of that name
            cands = [m for c in self.prog.classes for n, m in c.methods.items() if n == f.attr]
            cands = [m for m in cands if self.variant is None or m.variant in (None, self.variant)]
            return CallTargets(cands + [External(f"?.{f.attr}")], False, base_t)
        if isinstance(f, ast.Name):
            if hasattr(builtins, f.id):
                return CallTargets([External("builtins." + f.id)], True)
        return CallTargets([], False)


_PROGRAM_CACHE: dict = {}


def load_program(root: str) -> Program:
    root = os.path.abspath(root)
    if root not in _PROGRAM_CACHE:
        _PROGRAM_CACHE[root] = Program(root)
    return _PROGRAM_CACHE[root]
